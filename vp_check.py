#!/venv/bin/python
"""Single entry point: vp_check.py <Cxx> [--tier quick|thorough] [--replay file]."""
import os, sys
sys.path.insert(0, os.environ.get("VERIF_REPO_SRC", "/repo/src"))
sys.path.insert(1, os.path.dirname(os.path.abspath(__file__)))
if sys.getrecursionlimit() < 3000:
    sys.setrecursionlimit(3000)
from lib import runner
if __name__ == "__main__":
    sys.exit(runner.main())
