"""Documents for C13 that lib/docs.py does not write: tree statements preceded by weight tokens ([&W 1/2]), metadata
comments ([&lnL=-1.5]) and plain comments in any order together with [&R]/[&U]; comments between TREE, the tree name
and '='; TREES blocks opened by a comment; taxon labels written with another letter case than their definition; NeXML
recipes (plain data from which the check builds trees / matrices and lets DendroPy's own NeXML writer produce the text).

Same conventions as lib/docs.py: every strategy yields plain JSON data
    {"text", "schema", "kwargs": {}, "matrix_type", "content": {"taxon_labels", "ntax", "trees": [{"name", "rooted",
     "weight", "block", "spec"}], "matrices": [...], "features": {...}}}
"weight" is the value of the (last) weight token of the statement or None; "rooted" the meaning of its rooting token.
"content" is None for documents in which labels are re-cased (what they denote depends on case_sensitive_taxon_labels).
"""
from hypothesis import strategies as st

from lib import docs, shapes

PRE_COMMENTS = ["[c]", "[a b c]", "[!note]", "[x [nested] y]", "[1.5]", "[;]"]
PRE_META = ["[&lnL=-12.5]", "[&a=1,b=2]", "[&r={1,2}]", "[&s=\"x y\"]", "[&!color=#ff0000]", "[&b=true]",
            "[&&NHX:S=h:E=1.1]", "[&p=0.95,h={0.1,0.2}]"]
WEIGHTS = [("[&W 1/2]", 1.0, 2.0), ("[&W 0.25]", 0.25, None), ("[&w 3]", 3.0, None), ("[&W 2/8]", 2.0, 8.0),
           ("[&W 1]", 1.0, None), ("[&W 1/3]", 1.0, 3.0), ("[&W 0.125]", 0.125, None), ("[&w 3/4]", 3.0, 4.0)]
ZERO_WEIGHTS = [("[&W 0]", 0.0, None), ("[&W 0/5]", 0.0, 5.0), ("[&W 0.0]", 0.0, None), ("[&w 0/1]", 0.0, 1.0)]
ROOTING = [("", None), ("", None), ("[&R]", True), ("[&U]", False), ("[&r]", True), ("[&u]", False)]


QUOTED_LABELS = [l for l in docs.QUOTED_LABELS if len(l) > 1]     # without the single structural characters


def label_sets(n, pools=None, weights=(6, 1, 2)):
    """docs.label_sets without labels that are ONE structural character (quoted ';' ',' ... are misread: the listed
    C02/C09 known finding, which the C13 check skips)"""
    if pools is None:
        pools = (docs.PLAIN_LABELS, docs.SPACED_LABELS, QUOTED_LABELS)
    return docs.label_sets(n, pools=pools, weights=weights[:len(pools)])


def _tame(draw, strategy):
    """a docs.tree_specs spec whose internal labels are not ONE structural character (see label_sets)"""
    spec = draw(strategy)
    for sp in shapes.spec_nodes(spec):
        if sp.get("lab") is not None and len(sp["lab"]) == 1 and not sp["lab"].isalnum():
            sp["_lab"], sp["lab"] = draw(st.sampled_from([("n1", "n1"), ("X", "X"), ("95", "95"), ("anc_1", "anc 1")]))
    return spec


@st.composite
def pre_tokens(draw, plain=False, zero_ok=False):
    """Comment tokens in front of a tree description: (text, rooted, weight, n_comments).  zero_ok: the weight may be a
    token that evaluates to exactly 0 (callers allow it once the document holds a positive weight)."""
    toks = []
    rtext, rooted = draw(st.sampled_from(ROOTING))
    if rtext:
        toks.append(rtext)
    weight = None
    if draw(st.integers(0, 2)) == 0:
        wtext, x, y = draw(st.sampled_from(WEIGHTS + ZERO_WEIGHTS * 2 if zero_ok else WEIGHTS))
        weight = x if y is None else x / y
        toks.append(wtext)
    ncm = 0
    if not plain:
        for _ in range(draw(st.sampled_from([0, 0, 0, 1, 1, 2]))):
            toks.append(draw(st.sampled_from(PRE_COMMENTS + PRE_META)))
            ncm += 1
    toks = list(draw(st.permutations(toks)))
    sep = draw(st.sampled_from(["", " ", " ", "\n    "]))
    text = sep.join(toks)
    if text and draw(st.booleans()):
        text += " "
    return text, rooted, weight, ncm


def _recase(draw, labels, label_texts, taxa):
    """leaf texts for one block: plain unquoted labels are sometimes written in another letter case"""
    out = {}
    changed = False
    for i in taxa:
        t = label_texts[i]
        if t == labels[i] and t.isalnum() and t.lower() != t.upper() and draw(st.integers(0, 2)) == 0:
            v = draw(st.sampled_from([t.upper(), t.lower(), t.swapcase()]))
            if v != t:
                changed = True
            t = v
        out[i] = t
    return out, changed


@st.composite
def rich_newick_docs(draw, max_taxa=6, max_trees=4, recase=False):
    ntax = draw(st.integers(1, max_taxa))
    labels = draw(label_sets(ntax))
    texts = [draw(docs.nexus_label_text(l)) for l in labels]
    ntrees = draw(st.integers(2, max_trees))
    trees = []
    out = ""
    feats = {"translate": False, "comment": False, "weight": False, "blocks": 1, "recased": False}
    for k in range(ntrees):
        leaf_text = dict(enumerate(texts))
        if recase and k:
            leaf_text, ch = _recase(draw, labels, texts, range(ntax))
            feats["recased"] = feats["recased"] or ch
        spec = _tame(draw, docs.tree_specs(list(range(ntax)), max_leaves=max_taxa, fancy=True))
        pre, rooted, weight, ncm = draw(pre_tokens(zero_ok=any(t["weight"] for t in trees)))
        s = draw(docs.newick_text(spec, leaf_text, True))
        if s == "":
            spec["t"] = 0
            s = leaf_text[0]
        if pre.endswith("]") and s.startswith("'") and draw(st.integers(0, 3)):
            pre += " "     # "[c]'q'" is C20's tokenizer matter; mostly keep a blank between them
        out += pre + s + ";" + draw(st.sampled_from(["\n", "\n", " ", "", "\r\n"]))
        feats["weight"] = feats["weight"] or weight is not None
        trees.append({"name": None, "rooted": rooted, "weight": weight, "block": 0, "spec": docs.clean_spec(spec)})
    feats["comment"] = "[" in out.replace("[&R]", "").replace("[&U]", "").replace("[&r]", "").replace("[&u]", "")
    content = {"taxon_labels": labels, "ntax": None, "trees": trees, "matrices": [], "features": feats}
    return {"text": out, "schema": "newick", "kwargs": {}, "matrix_type": None,
            "content": None if feats["recased"] else content, "features": feats}


@st.composite
def rich_nexus_docs(draw, max_taxa=5, max_trees=3, max_blocks=3, max_chars=6, recase=False, taxa=None, labels=None,
                    translate=None):
    # taxa: None = TAXA block drawn; True / False = always / never written.  labels: the taxon labels to use.
    # translate=True: every TREES block has a TRANSLATE table
    if labels is None:
        ntax = draw(st.integers(1, max_taxa))
        labels = draw(label_sets(ntax))
    else:
        labels = list(labels)
        ntax = len(labels)
    label_texts = [draw(docs.nexus_label_text(l)) for l in labels]
    taxa_block = draw(st.integers(0, 2)) > 0 if taxa is None else taxa
    out = "#NEXUS\n"
    numbered = None
    # Mesquite style: the TAXA block has a TITLE and every later block refers to it with LINK TAXA
    linked = taxa_block and draw(st.integers(0, 2)) == 0
    link_title = draw(st.sampled_from(["Taxa1", "Taxa", "my_taxa"])) if linked else None
    if taxa_block:
        out += "BEGIN TAXA;\n%s  DIMENSIONS NTAX=%d;\n  TAXLABELS %s;\nEND;\n" % (
            "  TITLE %s;\n" % link_title if linked else "", ntax, " ".join(label_texts))
        numbered = dict((i, i + 1) for i in range(ntax))
    matrices = []
    n_matrix = draw(st.sampled_from([0, 0, 0, 1, 1, 2]))
    nblocks = draw(st.integers(1, max_blocks))
    order = list(draw(st.permutations(["M"] * n_matrix + ["T"] * nblocks)))
    trees = []
    feats = {"translate": False, "comment": False, "weight": False, "blocks": nblocks, "recased": False}
    tb = 0
    renumber = taxa_block and nblocks >= 2 and ntax >= 2 and not translate and draw(st.integers(0, 3)) == 0
    for kind in order:
        if kind == "M":
            title = "M%d" % len(matrices) if n_matrix > 1 else None
            text, m = draw(docs._nexus_matrix_block(labels, label_texts, taxa_block or bool(matrices), False, max_chars,
                                                    title, link_title))
            out += text
            matrices.append(m)
            if draw(st.booleans()):
                # SETS block (CHARSET = all / ranges / 'a-.' / strides) in front of the TREES blocks that follow: only
                # the routes that read character data parse it
                out += draw(docs._nexus_sets_block(m, draw(st.booleans()), title))
                feats["sets"] = True
            continue
        taxa = list(range(ntax))
        out += "BEGIN TREES;\n"
        if linked:
            out += "  LINK TAXA = %s;\n" % link_title
            feats["linked"] = True
        if draw(st.integers(0, 3)) == 0:
            out += "  " + draw(st.sampled_from(PRE_COMMENTS + PRE_META)) + "\n"
        style = draw(st.sampled_from(["labels", "labels", "translate", "translate"] + (["numbers"] * 2 if numbered else [])))
        if translate:
            style = "translate"
        if renumber:
            # an early block renumbers the taxa in its TRANSLATE table; later blocks refer to the taxa by TAXA number
            # (or label) and must not see that table any more
            style = "translate" if tb == 0 else draw(st.sampled_from(["numbers", "numbers", "labels"]))
        leaf_text = dict((i, label_texts[i]) for i in taxa)
        # (not with matrices: routes that skip the DATA block would meet the re-cased spelling first)
        if recase and not n_matrix and (tb or taxa_block):
            leaf_text, ch = _recase(draw, labels, label_texts, taxa)
            feats["recased"] = feats["recased"] or ch
        if style == "numbers":
            leaf_text = dict((i, str(numbered[i])) for i in taxa)
        elif style == "translate":
            feats["translate"] = True
            tokens = draw(st.sampled_from([["%d" % (k + 1) for k in range(ntax)], ["k%d" % k for k in range(ntax)],
                                           ["%d" % (k + 11) for k in range(ntax)]]))
            tord = list(draw(st.permutations(taxa)))
            if renumber:
                tokens = ["%d" % (k + 1) for k in range(ntax)]
                if tord == taxa:
                    tord = tord[1:] + tord[:1]
            elif numbered and tokens[0] == "1" and draw(st.booleans()):
                # half of the time the table numbers the taxa as the TAXA block does; otherwise its own numbering,
                # which holds for THIS block only (a later block without TRANSLATE counts in TAXA order again)
                tord = taxa
            items = [tokens[k] + " " + leaf_text[i] for k, i in enumerate(tord)]
            leaf_text = dict((i, tokens[k]) for k, i in enumerate(tord))
            out += "  TRANSLATE\n    " + draw(st.sampled_from([",\n    ", ", "])).join(items) + \
                   draw(st.sampled_from(["\n  ;\n", ";\n"]))
        for _ in range(draw(st.integers(1, max_trees))):
            spec = _tame(draw, docs.tree_specs(taxa, max_leaves=max_taxa, fancy=True))
            pre, rooted, weight, ncm = draw(pre_tokens(zero_ok=any(t["weight"] for t in trees)))
            s = draw(docs.newick_text(spec, leaf_text, True))
            if s == "":
                spec["t"] = taxa[0]
                s = leaf_text[taxa[0]]
            name_text, name = draw(st.sampled_from(docs.TREE_NAMES))
            if pre.endswith("]") and s.startswith("'") and draw(st.integers(0, 3)):
                pre += " "
            c0 = draw(st.sampled_from([""] * 6 + [" [c0]", " [&n=1]"]))
            c1 = draw(st.sampled_from([""] * 6 + [" [c1]", " [&q=x]"]))
            out += "  " + draw(st.sampled_from(["TREE", "tree", "Tree"])) + c0 + " " + name_text + c1 + \
                   draw(st.sampled_from([" = ", "=", " =", "= "])) + pre + s + ";\n"
            feats["weight"] = feats["weight"] or weight is not None
            trees.append({"name": name, "rooted": rooted, "weight": weight, "block": tb, "spec": docs.clean_spec(spec)})
        out += draw(st.sampled_from(["END;\n", "end;\n", "ENDBLOCK;\n", "End;\n"]))
        tb += 1
    body = out
    for tok in ("[&R]", "[&U]", "[&r]", "[&u]"):
        body = body.replace(tok, "")
    feats["comment"] = "[" in body
    content = {"taxon_labels": labels, "ntax": ntax if taxa_block else None, "trees": trees, "matrices": matrices,
               "features": feats}
    return {"text": out, "schema": "nexus", "kwargs": {},
            "matrix_type": matrices[0]["data_type"] if matrices else None,
            "content": None if feats["recased"] else content, "features": feats}


PRIOR_LABELS = ["ant", "bee", "cat", "dog", "eel", "fox"]


@st.composite
def numeric_newick_docs(draw, max_taxa=6, max_trees=4):
    """Newick statements whose leaf labels are INTEGERS (which lib/docs.py never writes): labels, not positions, in
    Newick.  The integers are 1..n or a sparse subset of 1..9 and appear in drawn (usually non-ascending) order."""
    ntax = draw(st.integers(2, max_taxa))
    if draw(st.booleans()):
        nums = list(range(1, ntax + 1))
    else:
        nums = sorted(draw(st.lists(st.integers(1, 9), min_size=ntax, max_size=ntax, unique=True)))
    labels = [str(k) for k in draw(st.permutations(nums))]
    fancy = draw(st.booleans())
    trees = []
    out = ""
    for k in range(draw(st.integers(1, max_trees))):
        spec = _tame(draw, docs.tree_specs(list(range(ntax)), max_leaves=max_taxa, fancy=fancy, blanks=False))
        pre, rooted, weight, ncm = draw(pre_tokens(plain=not fancy, zero_ok=any(t["weight"] for t in trees)))
        s = draw(docs.newick_text(spec, labels, fancy))
        if s == "":
            spec["t"] = 0
            s = labels[0]
        out += pre + s + ";" + draw(st.sampled_from(["\n", "\n", " ", ""]))
        trees.append({"name": None, "rooted": rooted, "weight": weight, "block": 0, "spec": docs.clean_spec(spec)})
    body = out
    for tok in ("[&R]", "[&U]", "[&r]", "[&u]"):
        body = body.replace(tok, "")
    feats = {"translate": False, "comment": "[" in body, "weight": any(t["weight"] is not None for t in trees),
             "blocks": 1, "recased": False, "numeric": True}
    content = {"taxon_labels": labels, "ntax": None, "trees": trees, "matrices": [], "features": feats}
    return {"text": out, "schema": "newick", "kwargs": {}, "matrix_type": None, "content": content, "features": feats}


@st.composite
def prior_labels(draw):
    """Labels a namespace holds before the document is read into it: other names, or integers in scrambled order."""
    k = draw(st.integers(0, 3))
    if k == 0:
        return []
    if k == 1:
        return [str(x) for x in draw(st.lists(st.integers(1, 6), min_size=1, max_size=4, unique=True))]
    return draw(st.lists(st.sampled_from(PRIOR_LABELS), min_size=1, max_size=5, unique=True))


HEIGHT_STEPS = [0.5, 1.0, 1.25, 2.0, 0.25, 3.0]


@st.composite
def ultrametric_newick_docs(draw, max_taxa=6, max_trees=4, nexus=False):
    """Trees whose every non-root edge has a length and whose tips are all at the same distance from the root (node
    heights are sums of dyadic steps, so the written lengths add up exactly): the inputs on which node ages are defined.
    Written as Newick statements, or as one NEXUS TREES block when nexus=True."""
    ntax = draw(st.integers(2, max_taxa))
    labels = draw(label_sets(ntax, pools=(docs.PLAIN_LABELS,), weights=(1,)))
    rtoken = draw(st.sampled_from(["", "[&R]", "[&R]", "[&U]"]))     # one rooting for the whole document
    trees = []
    out = "#NEXUS\nBEGIN TREES;\n" if nexus else ""
    for k in range(draw(st.integers(1, max_trees))):
        n = draw(st.integers(2, ntax))
        spec = draw(shapes.shapes(min_leaves=n, max_leaves=n, max_arity=3, unifurcations=False))
        perm = list(draw(st.permutations(list(range(ntax)))))
        height = {}

        def set_height(sp):
            if sp["t"] is not None:
                sp["t"] = perm[sp["t"]]
            if not sp["ch"]:
                height[id(sp)] = 0.0
                return 0.0
            h = max(set_height(c) for c in sp["ch"]) + draw(st.sampled_from(HEIGHT_STEPS))
            height[id(sp)] = h
            return h
        set_height(spec)
        for sp in shapes.spec_nodes(spec):
            for c in sp["ch"]:
                c["len"] = height[id(sp)] - height[id(c)]
        text = shapes.spec_to_newick(spec, labels)
        weight, wtext = None, ""
        if draw(st.integers(0, 2)) == 0:
            wtext, x, y = draw(st.sampled_from(WEIGHTS + ZERO_WEIGHTS if any(t["weight"] for t in trees) else WEIGHTS))
            weight = x if y is None else x / y
        head = (rtoken + wtext + " ") if (rtoken or wtext) else ""
        if nexus:
            out += "  TREE t%d = %s%s\n" % (k + 1, head, text)
        else:
            out += head + text + "\n"
        trees.append({"name": "t%d" % (k + 1) if nexus else None,
                      "rooted": {"": None, "[&R]": True, "[&U]": False}[rtoken], "weight": weight, "block": 0,
                      "spec": _plain_spec(spec)})
    if nexus:
        out += "END;\n"
    feats = {"translate": False, "comment": False, "weight": any(t["weight"] is not None for t in trees), "blocks": 1,
             "recased": False, "ultrametric": True}
    content = {"taxon_labels": labels, "ntax": None, "trees": trees, "matrices": [], "features": feats}
    return {"text": out, "schema": "nexus" if nexus else "newick", "kwargs": {}, "matrix_type": None, "content": content,
            "features": feats}


def _plain_spec(spec):
    return {"t": spec["t"], "lab": spec["lab"], "len": spec["len"], "ch": [_plain_spec(c) for c in spec["ch"]]}


NEXML_HEAD = ('<?xml version="1.0" encoding="ISO-8859-1"?>\n<nex:nexml version="0.9" '
              'xmlns:nex="http://www.nexml.org/2009" xmlns="http://www.nexml.org/2009" '
              'xmlns:xsi="http://www.w3.org/2001/XMLSchema-instance" '
              'xmlns:xml="http://www.w3.org/XML/1998/namespace" '
              'xmlns:xsd="http://www.w3.org/2001/XMLSchema#">\n')


def write_nexml_trees(otus_id, otu_ids, otu_labels, blocks, prefix=""):
    """Hand-written NeXML: one <otus> element (ids and labels as given) and one <trees> element per block.
    blocks: [[(spec, rooted)]], spec "t" = index into otu_ids.  prefix: put in front of trees / tree / node / edge ids."""
    out = NEXML_HEAD + '  <otus id="%s">\n' % otus_id
    for oid, lab in zip(otu_ids, otu_labels):
        out += '    <otu id="%s" label="%s"/>\n' % (oid, lab)
    out += "  </otus>\n"
    k = 0
    for b, trees in enumerate(blocks):
        out += '  <trees id="%strees%d" otus="%s">\n' % (prefix, b + 1, otus_id)
        for spec, rooted in trees:
            k += 1
            out += '    <tree id="%stree%d" xsi:type="nex:FloatTree">\n' % (prefix, k)
            ids = {}
            nodes = shapes.spec_nodes(spec)
            for i, sp in enumerate(nodes):
                ids[id(sp)] = "%sn%d_%d" % (prefix, k, i)
                attrs = ' id="%s"' % ids[id(sp)]
                if sp["t"] is not None:
                    attrs += ' otu="%s"' % otu_ids[sp["t"]]
                if sp["lab"] is not None:
                    attrs += ' label="%s"' % sp["lab"]
                if i == 0 and rooted:
                    attrs += ' root="true"'
                out += "      <node%s/>\n" % attrs
            e = 0
            for sp in nodes:
                for c in sp["ch"]:
                    e += 1
                    L = "" if c["len"] is None else ' length="%r"' % c["len"]
                    out += '      <edge id="%se%d_%d" source="%s" target="%s"%s/>\n' % (prefix, k, e, ids[id(sp)], ids[id(c)], L)
            out += "    </tree>\n"
        out += "  </trees>\n"
    return out + "</nex:nexml>\n"


@st.composite
def nexml_families(draw, max_files=3, max_taxa=5, max_trees=2):
    """2-3 hand-written NeXML files over ONE label set.  The files usually use the SAME otus id and the same otu ids
    (tax1; t1..tn - what hand-written and many exported files do) with a different id -> label assignment each, so a
    reader object that outlives one file must not carry its id maps over.  Each file is a document
    {"text", "schema": "nexml", "leaf_labels": [[label of every leaf, left to right] per tree], "sizes": [...]}."""
    ntax = draw(st.integers(2, max_taxa))
    labels = draw(st.lists(st.sampled_from(NEXML_LABELS), min_size=ntax, max_size=ntax, unique_by=lambda s: s.lower()))
    collide = draw(st.integers(0, 3)) > 0
    single_block = draw(st.booleans())
    files = []
    for f in range(draw(st.integers(2, max_files))):
        perm = list(draw(st.permutations(labels)))
        otu_ids = ["t%d" % (k + 1) for k in range(ntax)]
        blocks, leaf_labels = [], []
        for b in range(1 if single_block else draw(st.integers(1, 2))):
            trees = []
            for _ in range(draw(st.integers(1, max_trees))):
                n = draw(st.integers(1, ntax))
                spec = draw(shapes.shapes(min_leaves=n, max_leaves=n, max_arity=3))
                sel = list(draw(st.permutations(list(range(ntax)))))
                lens = draw(st.booleans())
                for k, sp in enumerate(shapes.spec_nodes(spec)):
                    if sp["t"] is not None:
                        sp["t"] = sel[sp["t"]]
                    if lens and k:
                        sp["len"] = draw(st.sampled_from(NEXML_LENGTHS))
                trees.append((spec, draw(st.booleans())))
                leaf_labels.append([perm[sp["t"]] for sp in shapes.spec_nodes(spec) if not sp["ch"]])
            blocks.append(trees)
        text = write_nexml_trees("tax1" if collide else "tax%d" % (f + 1), otu_ids, perm, blocks,
                                 prefix="" if collide else "f%d" % (f + 1))
        files.append({"text": text, "schema": "nexml", "leaf_labels": leaf_labels, "sizes": [len(b) for b in blocks]})
    return files


def features_of(doc):
    """{"translate", "comment", "weight", "blocks", "ntrees"} of a lib/docs.py or c13 document (text scan for the former)."""
    if doc.get("features"):
        f = dict(doc["features"])
    else:
        text = doc["text"]
        body = text
        for tok in ("[&R]", "[&U]", "[&r]", "[&u]"):
            body = body.replace(tok, "")
        blocks = len(set(t["block"] for t in doc["content"]["trees"])) if doc.get("content") else 1
        f = {"translate": "TRANSLATE" in text.upper(), "comment": "[" in body, "weight": "[&W" in text.upper(),
             "blocks": blocks, "recased": False, "sets": "CHARSET" in text.upper()}
    return f


# ---------------------------------------------------------------------------
# NeXML recipes
# ---------------------------------------------------------------------------

NEXML_LABELS = docs.PLAIN_LABELS + docs.SPACED_LABELS + ["un_der", "h-y", "a.b c"]
NEXML_TREE_NAMES = [None, None, "t1", "T2", "con 50", "my tree", "best"]
ANNOTATIONS = [["lnL", -12.5], ["support", 95], ["note", "x y"], ["flag", True], ["p", 0.5], ["name2", "a_b"]]
NEXML_LENGTHS = [0.0, 0.5, 1.0, 2.25, 0.001, 150.0, 10.0, 0.125, 7.0]


@st.composite
def nexml_recipes(draw, max_taxa=5, max_trees=3, max_lists=3, max_chars=6):
    """{"schema": "nexml", "labels", "lists": [{"label", "trees": [{"name", "rooted", "weight", "ann", "spec",
    "node_ann": {preorder index: [[name, value]]}}]}], "matrices": [{"data_type", "label", "rows": [[taxon index,
    "ACGT"]]}], "writer": {...}}"""
    ntax = draw(st.integers(1, max_taxa))
    labels = draw(st.lists(st.sampled_from(NEXML_LABELS), min_size=ntax, max_size=ntax, unique_by=lambda s: s.lower()))
    lists = []
    nlists = draw(st.integers(1, max_lists + 1))
    # with several lists some may be EMPTY (an empty <trees> element is a collection too); at least one holds trees
    sizes = [draw(st.sampled_from([0, 1, 1, 2, max_trees])) if nlists > 1 else draw(st.integers(1, max_trees))
             for _ in range(nlists)]
    if not any(sizes):
        sizes[draw(st.integers(0, nlists - 1))] = 1
    for size in sizes:
        trees = []
        for _ in range(size):
            n = draw(st.integers(1, ntax))
            spec = draw(shapes.shapes(min_leaves=n, max_leaves=n, max_arity=4, unifurcations=True))
            perm = list(draw(st.permutations(list(range(ntax)))))
            lenpat = draw(st.sampled_from(["none", "all", "all", "partial"]))
            node_ann = {}
            for k, s in enumerate(shapes.spec_nodes(spec)):
                if s["t"] is not None:
                    s["t"] = perm[s["t"]]
                if (lenpat == "all" and k) or (lenpat == "partial" and draw(st.booleans())):
                    s["len"] = draw(st.sampled_from(NEXML_LENGTHS))
                if s["ch"] and draw(st.integers(0, 3)) == 0:
                    s["lab"] = draw(st.sampled_from(["n1", "X", "95", "anc 1"]))
                if draw(st.integers(0, 7)) == 0:
                    node_ann[str(k)] = [draw(st.sampled_from(ANNOTATIONS))]
            trees.append({"name": draw(st.sampled_from(NEXML_TREE_NAMES)),
                          "rooted": draw(st.sampled_from([True, False, None])),
                          "weight": draw(st.sampled_from([None, None, 0.5, 2.0])),
                          "ann": draw(st.lists(st.sampled_from(ANNOTATIONS), max_size=2, unique_by=lambda a: a[0])),
                          "node_ann": node_ann, "spec": spec})
        lists.append({"label": draw(st.sampled_from([None, "trees A", "Tb"])), "trees": trees})
    matrices = []
    for _ in range(draw(st.sampled_from([0, 0, 1, 1, 2]))):
        dt = draw(st.sampled_from(["dna", "dna", "protein", "standard", "rna", "continuous"]))
        nchar = draw(st.integers(1, max_chars))
        rows = []
        for i in draw(st.permutations(list(range(ntax)))):
            if dt == "continuous":
                rows.append([i, [draw(st.sampled_from([0.1, 2.0, -0.001, 4.5, 10.0, 0.0])) for _ in range(nchar)]])
            else:
                pool = docs.SYMBOLS[dt] * 3 + docs.EXTRA_SYMBOLS[dt]
                rows.append([i, "".join(draw(st.sampled_from(pool)) for _ in range(nchar))])
        matrices.append({"data_type": dt, "label": draw(st.sampled_from([None, "M1", "chars"])), "rows": rows})
    # cell-by-cell markup of matrices without column definitions is C09's writer matter: sequences there
    writer = {"markup_as_sequences": True if matrices else draw(st.booleans())}
    return {"schema": "nexml", "labels": labels, "lists": lists, "matrices": matrices, "writer": writer}
