"""Generators of tree *samples* (multisets of trees over one namespace == leaf set) shared by C05 and C06, and the
exact frequency-table oracle."""
import math
from fractions import Fraction

from hypothesis import strategies as st

from lib import shapes
from lib.refmodel import RefTree


@st.composite
def samples(draw, min_taxa=4, max_taxa=8, min_trees=1, max_trees=8, weights=True, ultrametric=False, binary=False):
    n = draw(st.integers(min_taxa, max_taxa))
    base = draw(shapes.shapes(min_leaves=n, max_leaves=n, max_arity=2 if binary else 3, unifurcations=False,
                              family="random" if binary else None, binary=binary))
    k = draw(st.integers(min_trees, max_trees))
    trees = []
    for _ in range(k):
        kind = draw(st.sampled_from(["nni", "nni", "nni", "same", "indep"]))
        t = {"kind": kind, "nni": [], "spec": None,
             "lens": draw(st.lists(st.integers(1, 24), min_size=3, max_size=10)),
             "hts": draw(st.lists(st.integers(1, 6), min_size=3, max_size=10))}
        if kind == "nni":
            t["nni"] = draw(st.lists(st.tuples(st.integers(0, 30), st.integers(0, 3), st.integers(0, 3)), min_size=1, max_size=3))
        elif kind == "indep":
            t["spec"] = draw(shapes.shapes(min_leaves=n, max_leaves=n, max_arity=2 if binary else 3, unifurcations=False,
                                           binary=binary))
        trees.append(t)
    wkind = draw(st.sampled_from(["none", "none", "int", "dyadic", "mixed"])) if weights else "none"
    for ti, t in enumerate(trees):
        if wkind in ("int", "dyadic") and ti > 0 and draw(st.integers(0, 5)) == 0:
            t["w"] = 0.0  # a tree of weight zero contributes nothing (the first tree keeps a positive weight)
            continue
        if wkind == "none":
            t["w"] = None
        elif wkind == "int":
            t["w"] = float(draw(st.integers(1, 5)))
        elif wkind == "dyadic":
            t["w"] = draw(st.integers(1, 16)) / 4.0
        else:
            t["w"] = draw(st.one_of(st.none(), st.integers(1, 8).map(lambda x: x / 2.0)))
    return {"n": n, "base": base, "trees": trees, "rooted": draw(st.sampled_from([True, False, None])),
            "ultrametric": ultrametric, "shared_lens": draw(st.booleans()),
            "lenmul": draw(st.sampled_from([1.0, 1.0, 0.1, 0.3, 1.0 / 3.0])),
            # a common offset on every edge length: values that differ only in their last digits (dated trees in years)
            "lenoff": draw(st.sampled_from([0.0, 0.0, 0.0, 0.0, 4096.0, 1500000.0]))}


def nni(rt, edge, child, sib):
    cand = [v for v in rt.internals() if v != rt.root and len(rt.children[v]) >= 2]
    if not cand:
        return rt
    v = cand[edge % len(cand)]
    p = rt.parent[v]
    sibs = [s for s in rt.children[p] if s != v]
    if not sibs:
        return rt
    c = rt.children[v][child % len(rt.children[v])]
    s = sibs[sib % len(sibs)]
    t = rt.copy()
    ci = t.children[v].index(c)
    si = t.children[p].index(s)
    t.children[v][ci] = s
    t.children[p][si] = c
    t.parent[s] = v
    t.parent[c] = p
    return t._renumber()


def realise(sample):
    """List of RefTrees (with lengths, no root length) for a sample case."""
    base = RefTree.from_spec(sample["base"])
    out = []
    for t in sample["trees"]:
        if t["kind"] == "indep":
            rt = RefTree.from_spec(t["spec"])
        else:
            rt = base
            for (e, c, s) in t["nni"]:
                rt = nni(rt, e, c, s)
            rt = rt.copy()
        if sample.get("ultrametric"):
            # node heights: leaves 0; internal = max(child heights) + hts/4 ; edge length = parent height - own height
            h = {}
            hts = t["hts"]
            for k, i in enumerate(rt.postorder()):
                if not rt.children[i]:
                    h[i] = 0.0
                else:
                    h[i] = max(h[c] for c in rt.children[i]) + hts[k % len(hts)] / 4.0
            for i in rt.nodes():
                rt.length[i] = None if i == rt.root else h[rt.parent[i]] - h[i]
            rt.heights = h
        else:
            lens = sample["trees"][0]["lens"] if sample.get("shared_lens") else t["lens"]
            mul = sample.get("lenmul", 1.0)
            for k, i in enumerate(rt.preorder()):
                rt.length[i] = None if i == rt.root else (lens[k % len(lens)] / 8.0) * mul + sample.get("lenoff", 0.0)
        rt.weight = t["w"]
        out.append(rt)
    return out


def spec_of(rt):
    def rec(i):
        t = rt.taxon[i]
        return {"t": int(t[1:]) if t is not None else None, "lab": rt.label[i], "len": rt.length[i],
                "ch": [rec(c) for c in rt.children[i]]}
    return rec(rt.root)


def build(sample, rts=None, ns=None, taxa=None):
    """(ns, taxa, bits, [dendropy trees]) for a sample; trees carry .weight when the case gives one."""
    if rts is None:
        rts = realise(sample)
    if ns is None:
        ns, taxa, bits = shapes.build_namespace(shapes.plain_history(sample["n"]))
    else:
        bits = dict((i, i) for i in range(sample["n"]))
    trees = []
    for rt in rts:
        t = shapes.build_tree(spec_of(rt), ns, taxa, is_rooted=sample["rooted"])
        if rt.weight is not None:
            t.weight = rt.weight
        trees.append(t)
    return ns, taxa, bits, trees


def mask_of(cluster, bits=None):
    m = 0
    for lab in cluster:
        m |= 1 << int(lab[1:])
    return m


def norm(mask, full):
    low = full & -full
    return (~mask & full) if (mask & low) else (mask & full)


def split_keys(rt, rooted):
    """dict key -> (mask, length) for every split of the tree incl. trivial ones (root excluded for unrooted).

    key: rooted -> frozenset cluster; unrooted -> frozenset({A,B}).  length sums the edges inducing the split."""
    full = rt.leafset()
    fm = mask_of(full)
    out = {}
    for k, L in rt.split_lengths(rooted).items():
        if rooted:
            out[k] = (mask_of(k), L)
        else:
            a = sorted(k, key=lambda s: sorted(s))[0]
            out[k] = (norm(mask_of(a), fm), L)
    return out


def is_nontrivial(key, n, rooted):
    if rooted:
        return 2 <= len(key) <= n - 1
    a = list(key)[0]
    return 2 <= len(a) <= n - 2


def frequency_table(rts, rooted, use_weights=True):
    """key -> Fraction frequency; also returns per-key list of lengths (in tree order) and total weight."""
    tot = Fraction(0)
    cnt = {}
    lens = {}
    masks = {}
    for rt in rts:
        w = Fraction(rt.weight) if (use_weights and rt.weight is not None) else Fraction(1)
        tot += w
        for k, (m, L) in split_keys(rt, rooted).items():
            cnt[k] = cnt.get(k, Fraction(0)) + w
            lens.setdefault(k, []).append(L)
            masks[k] = m
    freqs = dict((k, v / tot) for k, v in cnt.items())
    return freqs, lens, masks, tot


def compatible(a, b, full, rooted):
    if rooted:
        return not (a & b) or a <= b or b <= a
    A = list(a)[0]
    B = list(b)[0]
    Ac, Bc = full - A, full - B
    return not (A & B) or not (A & Bc) or not (Ac & B) or not (Ac & Bc)


def tree_keys(rt, rooted, nontrivial_only=True):
    n = rt.n_leaves()
    if rooted:
        ks = set(rt.clusters().values())
    else:
        ks = rt.unrooted_split_set()
    if nontrivial_only:
        ks = set(k for k in ks if is_nontrivial(k, n, rooted))
    return ks


# -- reference statistics ------------------------------------------------------------------

def ref_mean(v):
    return math.fsum(v) / len(v)


def ref_median(v):
    s = sorted(v)
    n = len(s)
    if n % 2:
        return s[n // 2]
    return (s[n // 2 - 1] + s[n // 2]) / 2.0


def ref_sample_sd(v):
    n = len(v)
    if n < 2:
        return None
    m = ref_mean(v)
    return math.sqrt(math.fsum((x - m) ** 2 for x in v) / (n - 1))
