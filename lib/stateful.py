"""Adapter: an interpreter over plain-data operations driven by a Hypothesis RuleBasedStateMachine.

An interpreter class has  __init__(self, ctx, init)  and  step(self, opname, args) ; it raises runner.Violation.
The machine records the history as {"init": init, "ops": [[opname, args], ...]} (plain JSON data), which is what
gets shrunk (Hypothesis shrinks the whole rule sequence as one value), saved as the replay file, and re-executed by
`replay(interp_cls)` without Hypothesis."""
import time
import traceback

import hypothesis
from hypothesis import strategies as st
from hypothesis.stateful import RuleBasedStateMachine, initialize, rule, run_state_machine_as_test

from lib import runner


def replay(interp_cls):
    def fn(ctx, case):
        it = interp_cls(ctx, case["init"])
        for op in case["ops"]:
            it.step(op[0], op[1])
        fin = getattr(it, "finish", None)
        if fin:
            fin()
    return fn


def run_machine(ctx, name, interp_cls, init_strategy, rules, max_examples, steps):
    """rules: dict opname -> strategy producing the args dict for that op."""
    cur = {}

    class Machine(RuleBasedStateMachine):
        def __init__(self):
            RuleBasedStateMachine.__init__(self)
            self.it = None
            self.trace = None
            self.dead = False

        @initialize(init=init_strategy)
        def _init(self, init):
            self.trace = {"init": init, "ops": []}
            cur["case"] = self.trace
            ctx.evaluations += 1
            if not cur.get("failed") and ctx.out_of_time():
                self.dead = True
                return
            try:
                self.it = interp_cls(ctx, init)
            except runner.KnownSkip:
                self.dead = True

        def _step(self, opname, args):
            if self.dead or self.it is None:
                return
            self.trace["ops"].append([opname, args])
            try:
                self.it.step(opname, args)
            except runner.KnownSkip:
                self.dead = True
            except runner.Violation as v:
                if not cur.get("failed"):
                    cur["failed"] = True
                    cur["first"] = ({"init": self.trace["init"], "ops": list(self.trace["ops"])}, v)
                raise

        def teardown(self):
            if self.it is not None and not self.dead:
                fin = getattr(self.it, "finish", None)
                if fin:
                    try:
                        fin()
                    except runner.KnownSkip:
                        pass

    for opname, strat in rules.items():
        def mk(opname):
            def r(self, args):
                self._step(opname, args)
            r.__name__ = "op_" + opname
            return rule(args=strat)(r)
        setattr(Machine, "op_" + opname, mk(opname))

    Machine.__name__ = "Machine_" + name
    sd = ctx.seed * 1000 + ctx.shard * 37 + (int(runner.sha(name), 16) % 1000) * 100003
    t0 = time.time()
    try:
        run_state_machine_as_test(hypothesis.seed(sd)(Machine),
                                  settings=runner.hyp_settings(max(1, int(max_examples)), stateful_step_count=steps))
    except runner.Violation as v:
        runner.record_violation(ctx, name, cur.get("case"), v)
    except hypothesis.errors.HypothesisException as e:
        if cur.get("first") is not None:
            runner.record_violation(ctx, name, cur["first"][0], cur["first"][1])
        else:
            raise runner.HarnessError("hypothesis error in %s: %r" % (name, e))
    except RecursionError:
        raise runner.HarnessError("RecursionError in %s: %s" % (name, traceback.format_exc()[-1500:]))
    except Exception as e:
        if runner.exc_in_dendropy(e):
            best, _ = runner.innermost_dendropy_frame(e)
            v = runner.Violation("unexpected_exception", "%s:%s@%s" % (name, type(e).__name__, best[0]),
                                 "%s: %s (at %s:%s)" % (type(e).__name__, e, best[1], best[2]))
            runner.record_violation(ctx, name, cur.get("case"), v)
        else:
            raise runner.HarnessError("error in %s: %s" % (name, traceback.format_exc()[-2500:]))
    ctx.notes.setdefault("sub_wall_s", {})[name] = round(time.time() - t0, 2)
