"""Deterministic step budget (hang detection without clocks), see DESIGN.md 1.5.

budget.run(fn, limit) counts PY_START events and backward JUMP events inside code objects whose file is under
.../dendropy/ and raises HangDetected (a BaseException, so the library's bare `except:` clauses cannot swallow it)
once the count exceeds `limit`.  The count is a pure function of code and input."""
import sys

TOOL = 4
mon = sys.monitoring


class HangDetected(BaseException):
    def __init__(self, count, hot):
        BaseException.__init__(self, "step budget exceeded after %d events; hottest function: %s" % (count, hot))
        self.count = count
        self.hot = hot


class _State(object):
    count = 0
    limit = 0
    hot = None
    active = False


def _is_lib(code):
    fn = code.co_filename
    return "/dendropy/" in fn


def _on_start(code, offset):
    if not _is_lib(code):
        return mon.DISABLE
    _State.count += 1
    if _State.count > _State.limit:
        _State.hot[code.co_name] = _State.hot.get(code.co_name, 0) + 1
        if _State.count > _State.limit + 2000:
            raise HangDetected(_State.count, max(_State.hot, key=_State.hot.get))


def _on_jump(code, src, dst):
    if not _is_lib(code):
        return mon.DISABLE
    if dst < src:
        _State.count += 1
        if _State.count > _State.limit:
            _State.hot[code.co_name] = _State.hot.get(code.co_name, 0) + 1
            if _State.count > _State.limit + 2000:
                raise HangDetected(_State.count, max(_State.hot, key=_State.hot.get))


def run(fn, limit):
    """Returns (result, events_used).  Raises HangDetected, or whatever fn raises."""
    if _State.active:
        raise RuntimeError("budget.run is not re-entrant")
    _State.active = True
    _State.count = 0
    _State.limit = limit
    _State.hot = {}
    mon.use_tool_id(TOOL, "verif-budget")
    try:
        mon.register_callback(TOOL, mon.events.PY_START, _on_start)
        mon.register_callback(TOOL, mon.events.JUMP, _on_jump)
        mon.set_events(TOOL, mon.events.PY_START | mon.events.JUMP)
        try:
            res = fn()
        finally:
            mon.set_events(TOOL, 0)
        return res, _State.count
    finally:
        mon.register_callback(TOOL, mon.events.PY_START, None)
        mon.register_callback(TOOL, mon.events.JUMP, None)
        mon.free_tool_id(TOOL)
        mon.restart_events()
        _State.active = False
