"""snapshot(tree): DendroPy tree -> (RefTree, problems) walking raw links only.

Uses only the attributes _seed_node, _child_nodes, _parent_node, _edge, _head_node, taxon, label, edge.length; none of
the iterators / bipartition / distance code under test."""
from lib.refmodel import RefTree


def snapshot(tree, taxon_key=None):
    """Returns (RefTree, problems).  problems is a list of strings; empty means a well-formed arborescence.

    taxon_key: function taxon -> hashable identity used in the RefTree (default: taxon.label)."""
    problems = []
    rt = RefTree()
    rt.is_rooted = getattr(tree, "_is_rooted", None)
    seed = getattr(tree, "_seed_node", None)
    if seed is None:
        return rt, ["tree has no seed node"]
    if getattr(seed, "_parent_node", None) is not None:
        problems.append("seed node has a parent")
    seen_nodes = {}
    seen_edges = {}
    stack = [(seed, None)]
    budget = 2000000
    while stack:
        nd, pidx = stack.pop()
        budget -= 1
        if budget < 0:
            problems.append("walk did not finish (cycle?)")
            break
        if id(nd) in seen_nodes:
            problems.append("node reached twice (shared or cyclic)")
            continue
        taxon = getattr(nd, "taxon", None)
        if taxon is None:
            tk = None
        elif taxon_key is not None:
            tk = taxon_key(taxon)
        else:
            tk = taxon.label
        edge = getattr(nd, "_edge", None)
        length = None
        if edge is None:
            problems.append("node without edge")
        else:
            length = edge.length
            if getattr(edge, "_head_node", None) is not nd:
                problems.append("edge.head_node is not its node")
            if id(edge) in seen_edges:
                problems.append("edge shared by two nodes")
            seen_edges[id(edge)] = edge
            # tail_node is derived from head's parent in this code base; check it when it is stored
            try:
                tail = edge.tail_node
            except Exception as e:  # pragma: no cover
                tail = "ERR"
            want_tail = getattr(nd, "_parent_node", None)
            if tail is not want_tail:
                problems.append("edge.tail_node is not the node's parent")
        i = rt.add(pidx, tk, getattr(nd, "label", None), length, nd)
        seen_nodes[id(nd)] = i
        if pidx is not None:
            if getattr(nd, "_parent_node", None) is not rt.obj[pidx]:
                problems.append("child's parent pointer does not point to the node listing it")
        kids = list(getattr(nd, "_child_nodes", []))
        ids = [id(k) for k in kids]
        if len(set(ids)) != len(ids):
            problems.append("node listed twice among its parent's children")
        for k in reversed(kids):
            stack.append((k, i))
    # children were appended in pop order: because we push reversed and RefTree.add appends to parent's list at pop
    # time, sibling order is preserved left to right.
    return rt, problems


def traversal_problems(tree, rt):
    """Every public traversal must visit exactly the reachable node set once (used by C03/C18/C20)."""
    problems = []
    want = set(id(o) for o in rt.obj)
    leaves = set(id(rt.obj[i]) for i in rt.leaves())
    for name, it, target in (
            ("preorder", tree.preorder_node_iter, want),
            ("postorder", tree.postorder_node_iter, want),
            ("levelorder", tree.levelorder_node_iter, want),
            ("leaf", tree.leaf_node_iter, leaves)):
        try:
            got = [id(n) for n in _bounded(it(), 4 * len(want) + 10)]
        except Exception as e:
            problems.append("%s iterator raised %s: %s" % (name, type(e).__name__, e))
            continue
        if len(got) != len(set(got)):
            problems.append("%s iterator yields a node twice" % name)
        if set(got) != target:
            problems.append("%s iterator does not yield exactly the reachable nodes" % name)
    return problems


def _bounded(it, n):
    for k, x in enumerate(it):
        if k > n:
            break
        yield x
