"""RefTree: an independent pure-Python tree model used by all oracles.

A tree *spec* (plain JSON data, produced by lib/shapes.py) is a nested dict
    {"t": taxon index or None, "lab": node label or None, "len": edge length or None, "ch": [child specs]}
RefTree never touches DendroPy code.
"""
import itertools
import math


def tname(i):
    return "T%d" % i


class RefTree(object):
    def __init__(self):
        self.parent = []
        self.children = []
        self.taxon = []   # hashable leaf/taxon identity (label string) or None
        self.label = []
        self.length = []
        self.obj = []     # originating object (DendroPy node) when built by snapshot
        self.root = 0
        self.is_rooted = None

    # -- construction ------------------------------------------------------
    def add(self, parent, taxon=None, label=None, length=None, obj=None):
        i = len(self.parent)
        self.parent.append(parent)
        self.children.append([])
        self.taxon.append(taxon)
        self.label.append(label)
        self.length.append(length)
        self.obj.append(obj)
        if parent is not None:
            self.children[parent].append(i)
        return i

    @classmethod
    def from_spec(cls, spec, labels=None, is_rooted=None):
        rt = cls()
        rt.is_rooted = is_rooted
        stack = [(spec, None)]
        # explicit stack, children added left to right
        order = []
        def rec(s, parent):
            t = s.get("t")
            if t is not None:
                t = labels[t] if labels is not None else tname(t)
            i = rt.add(parent, t, s.get("lab"), s.get("len"))
            for c in s.get("ch", []):
                rec(c, i)
        rec(spec, None)
        return rt

    def to_spec(self, i=None, taxon_index=None):
        i = self.root if i is None else i
        t = self.taxon[i]
        if t is not None and taxon_index is not None:
            t = taxon_index[t]
        return {"t": t, "lab": self.label[i], "len": self.length[i], "ch": [self.to_spec(c, taxon_index) for c in self.children[i]]}

    def copy(self):
        rt = RefTree()
        rt.parent = list(self.parent)
        rt.children = [list(c) for c in self.children]
        rt.taxon = list(self.taxon)
        rt.label = list(self.label)
        rt.length = list(self.length)
        rt.obj = list(self.obj)
        rt.root = self.root
        rt.is_rooted = self.is_rooted
        return rt

    # -- basic queries -----------------------------------------------------
    def preorder(self, start=None):
        out = []
        stack = [self.root if start is None else start]
        while stack:
            i = stack.pop()
            out.append(i)
            stack.extend(reversed(self.children[i]))
        return out

    def postorder(self, start=None):
        out = []
        def rec(i):
            for c in self.children[i]:
                rec(c)
            out.append(i)
        # iterative to avoid recursion limits
        stack = [(self.root if start is None else start, 0)]
        while stack:
            i, k = stack.pop()
            if k < len(self.children[i]):
                stack.append((i, k + 1))
                stack.append((self.children[i][k], 0))
            else:
                out.append(i)
        return out

    def levelorder(self, start=None):
        out = []
        q = [self.root if start is None else start]
        while q:
            nq = []
            for i in q:
                out.append(i)
                nq.extend(self.children[i])
            q = nq
        return out

    def nodes(self):
        return self.preorder()

    def leaves(self, start=None):
        return [i for i in self.preorder(start) if not self.children[i]]

    def internals(self, start=None):
        return [i for i in self.preorder(start) if self.children[i]]

    def leaf_id(self, i):
        t = self.taxon[i]
        return t if t is not None else "#leaf%d" % i

    def depth_edges(self, i):
        d = 0
        while self.parent[i] is not None:
            i = self.parent[i]
            d += 1
        return d

    def clusters(self):
        """dict node -> frozenset of leaf ids below (a leaf's cluster is itself)."""
        cl = {}
        for i in self.postorder():
            if not self.children[i]:
                cl[i] = frozenset([self.leaf_id(i)])
            else:
                s = set()
                for c in self.children[i]:
                    s |= cl[c]
                cl[i] = frozenset(s)
        return cl

    def leafset(self):
        return frozenset(self.leaf_id(i) for i in self.leaves())

    def leaf_taxa_multiset(self):
        import collections
        return collections.Counter(self.taxon[i] for i in self.leaves())

    def rooted_cluster_set(self, nontrivial_only=False):
        cl = self.clusters()
        full = cl[self.root]
        s = set(cl.values())
        if nontrivial_only:
            s = set(c for c in s if 1 < len(c) < len(full))
        return s

    def rooted_cluster_multiset(self):
        import collections
        return collections.Counter(self.clusters().values())

    def unrooted_split_set(self, nontrivial_only=False):
        """set of frozenset({A, B}) with A|B = all leaves, both non-empty."""
        cl = self.clusters()
        full = cl[self.root]
        out = set()
        for i, a in cl.items():
            b = full - a
            if not a or not b:
                continue
            if nontrivial_only and (len(a) < 2 or len(b) < 2):
                continue
            out.add(frozenset([a, b]))
        return out

    def split_lengths(self, rooted):
        """dict split -> summed length over all edges inducing it (None when every such edge has no length).

        rooted: key is the cluster frozenset (root cluster included, carrying the root edge length);
        unrooted: key is frozenset({A,B}); edges with an empty side (root edge) are skipped."""
        cl = self.clusters()
        full = cl[self.root]
        out = {}
        for i, a in cl.items():
            if rooted:
                k = a
            else:
                b = full - a
                if not a or not b:
                    continue
                k = frozenset([a, b])
            L = self.length[i]
            if k in out:
                if L is not None:
                    out[k] = L if out[k] is None else out[k] + L
            else:
                out[k] = L
        return out

    def total_length(self, include_root=False):
        s = 0.0
        for i in self.nodes():
            if i == self.root and not include_root:
                continue
            if self.length[i] is not None:
                s += self.length[i]
        return s

    def all_lengths_present(self):
        return all(self.length[i] is not None for i in self.nodes() if i != self.root)

    def all_lengths_absent(self):
        return all(self.length[i] is None for i in self.nodes() if i != self.root)

    def dist_to_root(self, i):
        d = 0.0
        while i != self.root:
            if self.length[i] is not None:
                d += self.length[i]
            i = self.parent[i]
        return d

    def ancestors(self, i):
        out = [i]
        while self.parent[i] is not None:
            i = self.parent[i]
            out.append(i)
        return out

    def lca(self, a, b):
        anc = set(self.ancestors(a))
        while b not in anc:
            b = self.parent[b]
        return b

    def lca_of(self, nodes):
        nodes = list(nodes)
        x = nodes[0]
        for y in nodes[1:]:
            x = self.lca(x, y)
        return x

    def path(self, a, b):
        """(sum of lengths with None as 0, number of edges, lca)."""
        m = self.lca(a, b)
        d = 0.0
        e = 0
        for x in (a, b):
            while x != m:
                if self.length[x] is not None:
                    d += self.length[x]
                e += 1
                x = self.parent[x]
        return d, e, m

    def leaf_paths(self):
        """dict (leaf_id_a, leaf_id_b) -> (dist, edges) for all unordered pairs a<b by position."""
        lv = self.leaves()
        out = {}
        for x, y in itertools.combinations(lv, 2):
            d, e, _ = self.path(x, y)
            out[frozenset([self.leaf_id(x), self.leaf_id(y)])] = (d, e)
        return out

    def node_of_taxon(self, t):
        for i in self.nodes():
            if self.taxon[i] == t:
                return i
        return None

    # -- canonical forms ---------------------------------------------------
    def canon(self, ordered=False, lengths=False, labels=False, start=None):
        def rec(i):
            ch = [rec(c) for c in self.children[i]]
            if not ordered:
                ch.sort()
            s = "(" + ",".join(ch) + ")" if ch else ""
            s += str(self.taxon[i]) if self.taxon[i] is not None else ""
            if labels and self.label[i] is not None:
                s += "{%s}" % self.label[i]
            if lengths:
                s += ":" + repr(self.length[i])
            return s
        return rec(self.root if start is None else start)

    # -- transformations (all return new RefTrees) ------------------------
    def suppress_unifurcations(self):
        """Remove outdegree-1 nodes (lengths added to the child); a unifurcating root is replaced by its child."""
        return self.restrict(self.leafset(), True)

    def restrict(self, keep, suppress=True):
        """Induced subtree on the leaf ids in `keep` (must be non-empty).

        suppress=True: nodes left with one child are removed, lengths accumulate on the child (also above the new
        root: the accumulated length stays on the new root's edge).  suppress=False: emptied subtrees are dropped
        but unifurcations stay."""
        keep = frozenset(keep)
        cl = self.clusters()
        rt = RefTree()
        rt.is_rooted = self.is_rooted

        def addlen(a, b):
            if a is None:
                return b
            if b is None:
                return a
            return a + b

        def build(i, parent, extra):
            kids = [c for c in self.children[i] if cl[c] & keep]
            L = addlen(extra, self.length[i])
            if self.children[i] and len(kids) == 1 and suppress:
                return build(kids[0], parent, L)
            j = rt.add(parent, self.taxon[i], self.label[i], L, self.obj[i])
            for c in kids:
                build(c, j, None)
            return j
        if not (cl[self.root] & keep):
            raise ValueError("empty restriction")
        build(self.root, None, None)
        return rt

    def permuted(self, perm_fn):
        """Child order changed: perm_fn(node, children) -> new list."""
        rt = self.copy()
        for i in rt.nodes():
            rt.children[i] = list(perm_fn(i, rt.children[i]))
        return rt

    def rerooted_at(self, v):
        """Same unrooted tree drawn with vertex v as root (edge lengths travel with the edges)."""
        rt = self.copy()
        path = rt.ancestors(v)  # v ... root
        # reverse parent pointers along the path
        lens = [rt.length[x] for x in path]
        for k in range(len(path) - 1, 0, -1):
            child, par = path[k - 1], path[k]
            # par becomes child of `child`
            rt.children[par].remove(child)
            rt.children[child].append(par)
            rt.parent[par] = child
            rt.length[par] = lens[k - 1]
        rt.parent[v] = None
        rt.length[v] = None if len(path) > 1 else rt.length[v]
        rt.root = v
        return rt._renumber()

    def _renumber(self):
        rt = RefTree()
        rt.is_rooted = self.is_rooted
        def build(i, parent):
            j = rt.add(parent, self.taxon[i], self.label[i], self.length[i], self.obj[i])
            for c in self.children[i]:
                build(c, j)
        build(self.root, None)
        return rt

    def n_leaves(self):
        return len(self.leaves())


def approx(a, b, scale=1.0, tol=1e-9):
    if a is None or b is None:
        return a is None and b is None
    return abs(a - b) <= tol * (1.0 + abs(scale))


# -- enumeration of small trees -------------------------------------------

def set_partitions(items):
    items = list(items)
    if not items:
        yield []
        return
    first, rest = items[0], items[1:]
    for p in set_partitions(rest):
        yield [[first]] + p
        for i in range(len(p)):
            yield p[:i] + [[first] + p[i]] + p[i + 1:]


def all_rooted_trees(leaf_ids):
    """All labelled rooted trees (polytomies allowed, no unifurcations) on the given leaf ids, as specs."""
    leaf_ids = list(leaf_ids)
    if len(leaf_ids) == 1:
        yield {"t": leaf_ids[0], "lab": None, "len": None, "ch": []}
        return
    for p in set_partitions(leaf_ids):
        if len(p) < 2:
            continue
        for combo in itertools.product(*[list(all_rooted_trees(b)) for b in p]):
            yield {"t": None, "lab": None, "len": None, "ch": [dict(c) for c in combo]}


def all_ordered_shapes(n):
    """All ordered (plane) tree shapes with n leaves, no unifurcations; leaves numbered left to right."""
    def comp(n, k):
        # compositions of n into k positive parts
        if k == 1:
            yield [n]
            return
        for a in range(1, n - k + 2):
            for r in comp(n - a, k - 1):
                yield [a] + r
    def shapes(n):
        if n == 1:
            yield ("L",)
            return
        for k in range(2, n + 1):
            for c in comp(n, k):
                for combo in itertools.product(*[list(shapes(a)) for a in c]):
                    yield combo
    def tospec(s, counter):
        if s == ("L",):
            i = counter[0]
            counter[0] += 1
            return {"t": i, "lab": None, "len": None, "ch": []}
        return {"t": None, "lab": None, "len": None, "ch": [tospec(x, counter) for x in s]}
    for s in shapes(n):
        yield tospec(s, [0])
