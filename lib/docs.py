"""Document grammars: Hypothesis strategies that write VALID Newick / NEXUS / PHYLIP / FASTA documents together with
the abstract content they denote, plus generic corruptions (edits, token soups) of such documents.  See DESIGN.md 2.3.

Every strategy yields plain JSON data:

    {"text":   str,
     "schema": "newick" | "nexus" | "phylip" | "fasta",
     "kwargs": {...}      reader keyword arguments REQUIRED to read the text through the character-matrix / DataSet
                          routes (e.g. {"data_type": "dna", "strict": True, "interleaved": False} for PHYLIP,
                          {"data_type": "protein"} for FASTA; {} for Newick and NEXUS),
     "matrix_type": "dna" | "rna" | "protein" | "standard" | "continuous" | None
                          which <Type>CharacterMatrix class matches the (first) matrix of the document,
     "content": {
        "taxon_labels": [str]    every taxon label the document denotes (denoted form: unquoted, underscores of
                                 unquoted NEXUS tokens already turned into blanks), in order of first definition,
        "ntax": int | None       number of taxa declared (NEXUS DIMENSIONS NTAX of the TAXA block) when there is one,
        "trees": [{"name": str|None, "rooted": True|False|None, "block": int,
                   "spec": <lib/shapes.py spec: {"t": index into taxon_labels | None, "lab": str|None,
                                                  "len": float|None, "ch": [...]}>}],
        "matrices": [{"data_type": str, "ntax": int, "nchar": int, "title": str|None, "interleaved": bool,
                      "rows": [[label, [cell, ...]], ...],
                      "charsets": {name: [0-based column, ...]}}],
     }}

Cells are upper-case single symbols ("A", "-", "?"), multistate cells in NEXUS notation ("{AG}" ambiguous,
"(AG)" polymorphic) or floats for continuous data.

The grammars are deliberately conservative: they only use syntax the DendroPy schema documentation describes, never
labels that are a single structural character, never purely numeric taxon labels and never labels equal to a NEXUS
keyword, so that every generated document is one a correct reader must accept.

Public API
    newick_docs(), nexus_docs(), phylip_docs(), fasta_docs(), documents(max_len=..)    valid documents
    load_corpus(dir)                                  hand-written valid documents (content=None)
    edits(), apply_edits(text, edits, schema)         1-2 local corruptions of a text (characters, tokens, keywords,
                                                      whole statements / lines deleted, duplicated or moved)
    soups(schema), plain_newick_soups()               token soup over the format's alphabet
    plain_newick_mutants()                            quote/comment-free Newick with structure characters edited
    nexus_statement_soups()                           NEXUS blocks of well-formed statements with arbitrary arguments
    nexus_link_soups()                                valid-syntax NEXUS mixing titled / untitled blocks, LINKs to
                                                      existing / case-variant / missing titles, several TRANSLATEs
    KEYWORDS, ALPHABET                                the token alphabets used by the two above
"""
import json
import os

from hypothesis import strategies as st

from lib import shapes

SCHEMAS = ("newick", "nexus", "phylip", "fasta")

# ---------------------------------------------------------------------------
# labels
# ---------------------------------------------------------------------------

PLAIN_LABELS = ["A", "B", "C", "D", "E", "F", "G", "H", "t1", "t2", "T3", "x9", "Homo", "Pan", "Mus", "Zea", "sp1",
                "a1b2", "g7", "Qx", "Python.regius", "n0"]
SPACED_LABELS = ["Homo sapiens", "a b", "x 1", "P t v", "Mus m"]
QUOTED_LABELS = ["it's", "x(1)", "a,b", "a:b", "[c]", "se;mi", "un_der", "e=mc", "{br}", "h-y", "sl/ash", "q\"d",
                 "'q'",
                 # whole labels that are one structural character: legal when quoted
                 ",", "(", ")", ":", ";", "[", "]", "=", "'", "{", "\\"]
NEXUS_KEYWORDS = ["BEGIN", "END", "ENDBLOCK", "MATRIX", "TREE", "TRANSLATE", "LINK", "TITLE", "DIMENSIONS", "FORMAT",
                  "TAXLABELS", "TAXA", "CHARACTERS", "DATA", "TREES", "SETS", "CHARSET", "NTAX", "NCHAR", "DATATYPE",
                  "INTERLEAVE", "GAP", "MISSING", "MATCHCHAR", "SYMBOLS", "ASSUMPTIONS", "CODONS", "#NEXUS"]

SYMBOLS = {
    "dna": "ACGT",
    "rna": "ACGU",
    "protein": "ACDEFGHIKLMNPQRSTVWY",
    "standard": "01",
}
EXTRA_SYMBOLS = {  # symbols beyond the fundamental ones that every reader of that type accepts
    "dna": "-?NRY",
    "rna": "-?N",
    "protein": "-?X",
    "standard": "-?",
}


def _is_plain(label):
    return all(c.isalnum() or c == "." for c in label)


def _is_spaced(label):
    return all(c.isalnum() or c == " " for c in label) and "  " not in label


def quote_nexus(label):
    return "'" + label.replace("'", "''") + "'"


@st.composite
def nexus_label_text(draw, label):
    """Written NEXUS/Newick token denoting `label`."""
    if _is_plain(label):
        return label if draw(st.integers(0, 7)) else quote_nexus(label)
    if _is_spaced(label):
        return label.replace(" ", "_") if draw(st.booleans()) else quote_nexus(label)
    return quote_nexus(label)


def label_sets(n, pools=(PLAIN_LABELS, SPACED_LABELS, QUOTED_LABELS), weights=(6, 1, 2)):
    """n labels, pairwise distinct ignoring case (DendroPy namespaces are case-insensitive by default)."""
    pool = []
    for p, w in zip(pools, weights):
        pool.extend(p * w)
    return st.lists(st.sampled_from(pool), min_size=n, max_size=n, unique_by=lambda s: s.lower())


# ---------------------------------------------------------------------------
# white space and comments
# ---------------------------------------------------------------------------

COMMENTS = ["[c]", "[a b c]", "[!note]", "[]", "[x [nested] y]", "[&W 1/2]", "[1.5]", "[;]", "[')]"]
META_COMMENTS = ["[&m=1]", "[&a=1,b=2]", "[&r={1,2}]", "[&s=\"x y\"]", "[&&NHX:S=h:E=1.1]", "[&p=0.95,h={0.1,0.2}]",
                 "[&!color=#ff0000]", "[&b=true]"]
WS = [" ", " ", " ", "\n", "\t", "  ", "\r\n", " \n "]

WEIGHT_TEXTS = ["1/2", "0.25", "3", "1/0", "0/0", "0/1", "x/y", "1/y", "", " ", "1/2/3", "1/", "/2", "1e400/1", "-1",
                "nan", "1 / 2", "1/2 x"]
META_KEYS = ["support", "x", "rate", "!color", "height_95%_HPD", "a b", "k", "posterior", ""]
META_VALUES = ["1", "0.95", "-1e-3", "abc", "\"x y\"", "{1,2}", "{0.1,0.2,0.3}", "{a}", "{}", "true", "FALSE", "'q'",
               "#ff0000", "", "", " ", "  ", "\t", "{1,2", "1,2}", "{", "}", "{{1},2}", "{ }", "=", "a=b", "\"", "{,}",
               " {1,2} ", "1 2"]


@st.composite
def meta_comments(draw):
    """A metadata comment '[&key=value,...]' (FigTree style) or '[&&NHX:key=value:...]': 1-3 pairs; values are numbers,
    words, quoted strings, {a,b} lists, and the degenerate forms an interrupted or hand-edited file has - empty,
    blank-only, unbalanced or stray braces, stray '=' and quotes; blanks around '=' and ','.  Comments are free text: a
    reader must accept a document whatever its comments hold."""
    if draw(st.integers(0, 5)) == 0:
        # tree weight comment (honoured under store_tree_weights=True, free text otherwise), also degenerate ones
        return "[&%s %s]" % (draw(st.sampled_from("WWw")), draw(st.sampled_from(WEIGHT_TEXTS)))
    nhx = draw(st.integers(0, 5)) == 0
    pairs = []
    for _ in range(draw(st.sampled_from([1, 1, 1, 2, 2, 3]))):
        key = draw(st.sampled_from(META_KEYS))
        val = draw(st.sampled_from(META_VALUES))
        form = draw(st.sampled_from(["%s=%s", "%s=%s", "%s = %s", "%s= %s", "%s =%s"]))
        pairs.append(form % (key, val) if draw(st.integers(0, 9)) else key)
    sep = ":" if nhx else draw(st.sampled_from([",", ",", ", ", " ,"]))
    return ("[&&NHX:" if nhx else "[&") + sep.join(pairs) + "]"


@st.composite
def _ws(draw, fancy):
    """separator between two tokens: white space, sometimes with a comment"""
    if not fancy:
        return " "
    k = draw(st.integers(0, 19))
    if k < 12:
        return " "
    if k < 17:
        return draw(st.sampled_from(WS))
    return draw(st.sampled_from(WS)) + draw(st.sampled_from(COMMENTS)) + draw(st.sampled_from(WS))


@st.composite
def _opt_ws(draw, fancy):
    """optional separator where none is needed (next to punctuation)"""
    if not fancy:
        return ""
    k = draw(st.integers(0, 19))
    if k < 14:
        return ""
    if k < 18:
        return draw(st.sampled_from(WS))
    return draw(st.sampled_from(COMMENTS))


@st.composite
def _kw(draw, word, fancy=True):
    """a NEXUS keyword in one of the spellings readers must accept (case-insensitive)"""
    if not fancy:
        return word
    k = draw(st.integers(0, 5))
    if k <= 2:
        return word
    if k == 3:
        return word.lower()
    if k == 4:
        return word.capitalize()
    return "".join(c.lower() if i % 2 else c for i, c in enumerate(word))


# ---------------------------------------------------------------------------
# trees
# ---------------------------------------------------------------------------

LENGTH_TEXTS = ["1", "0", "0.5", "2.25", "1e-3", "1.5E2", "3.0e+1", ".5", "10", "0.125", "-0.5", "1.0", "7"]
INTERNAL_LABELS = [("','", ","), ("')'", ")"), ("';'", ";"), ("':'", ":"), ("n1", "n1"), ("X", "X"), ("95", "95"), ("0.87", "0.87"), ("anc_1", "anc 1"), ("'in t'", "in t"),
                   ("100", "100"), ("'a(b)'", "a(b)")]


@st.composite
def tree_specs(draw, taxa, max_leaves=6, fancy=True, blanks=True):
    """A tree over a subset of the taxon indices `taxa` (list of ints): returns the lib/shapes spec with lengths and
    internal labels filled in; the written forms are kept under the private keys "_len" and "_lab"."""
    n = draw(st.integers(1, min(max_leaves, len(taxa))))
    # comments are drawn before the shape (draws late in a big document come out minimal too often)
    extra_comments = draw(st.lists(st.one_of(meta_comments(), meta_comments(), st.sampled_from(COMMENTS + META_COMMENTS)),
                                   max_size=2)) if fancy else []
    comment_spots = [draw(st.integers(0, 63)) for _ in extra_comments]
    spec = draw(shapes.shapes(min_leaves=n, max_leaves=n, max_arity=4, unifurcations=fancy))
    perm = list(draw(st.permutations(list(taxa))))
    lenpat = draw(st.sampled_from(["none", "all", "all", "partial"]))
    labpat = draw(st.sampled_from(["none", "none", "some", "all"])) if fancy else "none"
    nodes = shapes.spec_nodes(spec)
    for k, s in enumerate(nodes):
        if s["t"] is not None:
            s["t"] = perm[s["t"]]
        s["_len"] = None
        s["_lab"] = None
        s["_cm"] = ""
        is_root = k == 0
        want_len = (lenpat == "all" and not is_root) or (lenpat == "partial" and draw(st.booleans())) or \
                   (is_root and lenpat != "none" and draw(st.integers(0, 4)) == 0)
        if want_len:
            s["_len"] = draw(st.sampled_from(LENGTH_TEXTS))
            s["len"] = float(s["_len"])
        if s["ch"] and (labpat == "all" or (labpat == "some" and draw(st.booleans()))):
            s["_lab"], s["lab"] = draw(st.sampled_from(INTERNAL_LABELS))
        if fancy and draw(st.integers(0, 9)) == 0:
            s["_cm"] = draw(st.sampled_from(COMMENTS + META_COMMENTS))
    for cm, spot in zip(extra_comments, comment_spots):
        nodes[spot % len(nodes)]["_cm"] += cm
    if blanks and fancy and n >= 2 and draw(st.integers(0, 11)) == 0:
        # an unlabelled leaf "(A,,B)": legal Newick, read as a node without taxon
        # (never the last child: DendroPy drops "(A,)"'s trailing blank, a Newick round-trip matter, not C20's)
        leaves = [c for s in nodes for c in s["ch"][:-1] if not c["ch"]]
        if leaves:
            victim = leaves[draw(st.integers(0, len(leaves) - 1))]
            victim["t"] = None
    return spec


def clean_spec(spec):
    """copy of the spec without the private writer keys"""
    return {"t": spec["t"], "lab": spec["lab"], "len": spec["len"], "ch": [clean_spec(c) for c in spec["ch"]]}


@st.composite
def newick_text(draw, spec, leaf_text, fancy=True):
    """Newick string (without the terminating semicolon) of a spec from tree_specs; leaf_text: taxon index -> token."""
    def rec(s):
        out = ""
        if s["ch"]:
            sep = "," + draw(_opt_ws(fancy))
            out = "(" + draw(_opt_ws(fancy)) + sep.join(rec(c) for c in s["ch"]) + draw(_opt_ws(fancy)) + ")"
        if s["t"] is not None:
            out += leaf_text[s["t"]]
        elif s["_lab"] is not None:
            out += s["_lab"]
        cm = s["_cm"]
        if cm and draw(st.booleans()):
            out += cm
            cm = ""
        if s["_len"] is not None:
            out += ":" + draw(_opt_ws(fancy)) + s["_len"]
        out += cm
        return out
    return rec(spec)


ROOTING = [("", None), ("", None), ("[&R]", True), ("[&U]", False), ("[&r]", True), ("[&u]", False)]


@st.composite
def newick_docs(draw, max_taxa=6, max_trees=3, fancy=True, plain_labels=False):
    ntax = draw(st.integers(1, max_taxa))
    labels = draw(label_sets(ntax, pools=(PLAIN_LABELS,), weights=(1,)) if plain_labels else label_sets(ntax))
    texts = [draw(nexus_label_text(l)) for l in labels]
    ntrees = draw(st.integers(1, max_trees))
    trees = []
    out = draw(st.sampled_from(["", "", "\n", " ", "[c]"])) if fancy else ""
    for i in range(ntrees):
        spec = draw(tree_specs(list(range(ntax)), max_leaves=max_taxa, fancy=fancy))
        rtext, rooted = draw(st.sampled_from(ROOTING))
        if fancy and draw(st.integers(0, 3)) == 0:
            rtext += draw(meta_comments())     # tree-level metadata
        s = draw(newick_text(spec, texts, fancy))
        if s == "":
            # a single unlabelled node cannot be written; give it its taxon back
            spec["t"] = 0
            s = texts[0]
        out += rtext + (draw(_opt_ws(fancy)) if rtext else "") + s + draw(_opt_ws(fancy)) + ";"
        out += draw(st.sampled_from(["\n", "\n", " ", "", "\n\n", "\r\n"])) if fancy else "\n"
        trees.append({"name": None, "rooted": rooted, "block": 0, "spec": clean_spec(spec)})
    used = _used_labels(labels, trees)
    return {"text": out, "schema": "newick", "kwargs": {}, "matrix_type": None,
            "content": {"taxon_labels": labels, "ntax": None, "trees": trees, "matrices": [], "used": used}}


def _used_labels(labels, trees):
    used = []
    for t in trees:
        for s in shapes.spec_nodes(t["spec"]):
            if s["t"] is not None and labels[s["t"]] not in used:
                used.append(labels[s["t"]])
    return used


# ---------------------------------------------------------------------------
# matrices
# ---------------------------------------------------------------------------

@st.composite
def matrix_cells(draw, data_type, ntax, nchar, multistate=False, case_mix=True):
    """rows of cells (content form) and their written forms: ([[cell]], [[text]])"""
    rows, texts = [], []
    if data_type == "continuous":
        pool = ["0.1", "2", "-1e-3", "4.5", "10", "0.0", "3.25", "1E2"]
        for _ in range(ntax):
            t = [draw(st.sampled_from(pool)) for _ in range(nchar)]
            texts.append(t)
            rows.append([float(x) for x in t])
        return rows, texts
    fund = SYMBOLS[data_type]
    pool = fund * 4 + EXTRA_SYMBOLS[data_type]
    for _ in range(ntax):
        r, t = [], []
        for _ in range(nchar):
            k = draw(st.integers(0, 29)) if multistate else 1
            if k == 0 and len(fund) >= 2:
                members = draw(st.lists(st.sampled_from(fund), min_size=2, max_size=3, unique=True))
                o, c = draw(st.sampled_from(["{}", "()"]))
                cell = o + "".join(members) + c
                r.append(cell)
                t.append(cell)
            else:
                sym = draw(st.sampled_from(pool))
                r.append(sym)
                t.append(sym.lower() if case_mix and draw(st.integers(0, 5)) == 0 else sym)
        rows.append(r)
        texts.append(t)
    return rows, texts


def _chunk(cells, widths):
    out, i = [], 0
    for w in widths:
        out.append(cells[i:i + w])
        i += w
    return out


@st.composite
def _widths(draw, nchar, max_parts=3):
    parts = draw(st.integers(1, min(max_parts, nchar)))
    if parts == 1:
        return [nchar]
    cuts = sorted(draw(st.lists(st.integers(1, nchar - 1), min_size=parts - 1, max_size=parts - 1, unique=True)))
    return [b - a for a, b in zip([0] + cuts, cuts + [nchar])]


@st.composite
def _seq_text(draw, cells, data_type, gaps, breaks=()):
    """written form of consecutive cells; gaps: allow blanks inside; breaks: allowed line breaks inside"""
    if data_type == "continuous":
        out = ""
        for i, c in enumerate(cells):
            if i:
                out += draw(st.sampled_from(list(breaks))) if breaks and gaps and draw(st.integers(0, 3)) == 0 else " "
            out += c
        return out
    out = ""
    for i, c in enumerate(cells):
        if i and gaps:
            k = draw(st.integers(0, 11))
            if k == 0:
                out += " "
            elif k <= 3 and breaks:
                out += draw(st.sampled_from(list(breaks)))     # a row continued on the next line
        out += c
    return out


# ---------------------------------------------------------------------------
# NEXUS
# ---------------------------------------------------------------------------

DATATYPE_WORDS = {"dna": ["DNA", "DNA", "NUCLEOTIDES", "dna"], "rna": ["RNA"], "protein": ["PROTEIN", "Protein"],
                  "standard": ["STANDARD"], "continuous": ["CONTINUOUS", "Continuous"]}
TREE_NAMES = [("t1", "t1"), ("T2", "T2"), ("con_50", "con 50"), ("'my tree'", "my tree"), ("PAUP_1", "PAUP 1"),
              ("best", "best"), ("1", "1")]
TITLES = ["Taxa1", "Taxa2", "chars", "M1", "trees_A", "Tb", "Untitled"]


# FORMAT subcommands beyond DATATYPE / SYMBOLS / GAP / MISSING / MATCHCHAR / INTERLEAVE that leave the meaning of a
# matrix in standard layout unchanged (equates that the matrix does not use, and the NEXUS defaults spelled out); the
# reader accepts and ignores them.  TRANSPOSE, NOLABELS, TOKENS, RESPECTCASE, ITEMS would change the meaning and are
# left to the statement soups.
FORMAT_EXTRAS = [None, None, None, 'EQUATE="R={AG} Y={CT}"', 'EQUATE="x=A"', 'EQUATE = "u=(AC) v={ACG} w=T"',
                 "EQUATE=\"B={CT}\n      K={GT}\"", "LABELS", "LABELS=LEFT", "STATESFORMAT=STATESPRESENT", "NOTOKENS"]
MATRIX_PLANS = st.fixed_dictionaries({
    "data_type": st.sampled_from(["dna", "dna", "dna", "protein", "standard", "standard", "rna", "continuous"]),
    "nchar": st.integers(1, 64), "interleaved": st.booleans(), "wrap": st.integers(0, 2),
    "format_extra": st.sampled_from(range(len(FORMAT_EXTRAS)))})


@st.composite
def _nexus_matrix_block(draw, labels, label_texts, ntax_declared_before, fancy, max_chars, title, link, plan=None):
    """One CHARACTERS/DATA block over all of `labels`.  Returns (text, matrix content).
    plan: the layout decisions (see MATRIX_PLANS), drawn by the caller BEFORE the bulk of the document so that
    Hypothesis explores them evenly also for blocks late in a long document."""
    ntax = len(labels)
    if plan is None:
        plan = draw(MATRIX_PLANS)
    data_type = plan["data_type"]
    nchar = 1 + (plan["nchar"] - 1) % max_chars
    interleaved = data_type != "continuous" and nchar >= 2 and plan["interleaved"]
    matchchar = data_type in ("dna", "protein") and ntax >= 2 and draw(st.integers(0, 3)) == 0
    rows, texts = draw(matrix_cells(data_type, ntax, nchar, multistate=data_type in ("dna", "standard") and fancy))
    kind = draw(st.sampled_from(["DATA", "CHARACTERS"])) if ntax_declared_before else "DATA"
    sp = lambda: draw(_ws(fancy))
    kw = lambda w: draw(_kw(w, fancy))
    eq = lambda: draw(st.sampled_from(["=", "=", " = ", "= "])) if fancy else "="
    out = kw("BEGIN") + sp() + kw(kind) + ";\n"
    if title is not None:
        out += "  " + kw("TITLE") + sp() + title + ";\n"
    if link is not None:
        out += "  " + kw("LINK") + sp() + kw("TAXA") + eq() + link + ";\n"
    dims = []
    if kind == "DATA" or link is not None or draw(st.integers(0, 3)) == 0:
        dims.append(kw("NTAX") + eq() + str(ntax))
    dims.append(kw("NCHAR") + eq() + str(nchar))
    out += "  " + kw("DIMENSIONS") + sp() + sp().join(dims) + draw(_opt_ws(fancy)) + ";\n"
    fmt = []
    symbols_decl = None
    if data_type == "standard":
        k = draw(st.integers(0, 2))
        if k == 0:
            fmt.append(kw("DATATYPE") + eq() + "STANDARD")   # symbols 0-9
        else:
            if k == 1:
                fmt.append(kw("DATATYPE") + eq() + kw("STANDARD"))
            symbols_decl = draw(st.sampled_from(['"01"', '"0 1"', '"012"', '" 0 1 2 3"']))
            fmt.append(kw("SYMBOLS") + eq() + symbols_decl)
    else:
        fmt.append(kw("DATATYPE") + eq() + draw(st.sampled_from(DATATYPE_WORDS[data_type])))
    extra = []
    if draw(st.booleans()):
        extra.append(kw("GAP") + eq() + "-")
    if draw(st.booleans()):
        extra.append(kw("MISSING") + eq() + "?")
    if matchchar:
        extra.append(kw("MATCHCHAR") + eq() + ".")
    if interleaved:
        extra.append(draw(st.sampled_from([kw("INTERLEAVE"), kw("INTERLEAVE") + eq() + "YES",
                                           kw("INTERLEAVE") + eq() + "yes"])))
    elif draw(st.integers(0, 5)) == 0:
        extra.append(kw("INTERLEAVE") + eq() + draw(st.sampled_from(["NO", "no"])))
    fx = FORMAT_EXTRAS[plan.get("format_extra", 0)]
    if fx is not None and not (fx == "NOTOKENS" and data_type == "continuous"):
        extra.append(fx)
    extra = list(draw(st.permutations(extra)))
    out += "  " + kw("FORMAT") + sp() + sp().join(fmt + extra) + draw(_opt_ws(fancy)) + ";\n"
    out += "  " + kw("MATRIX") + "\n"
    order = list(range(ntax))
    if ntax_declared_before and draw(st.booleans()):
        order = list(draw(st.permutations(order)))
    if matchchar:
        # the match character refers to the first sequence WRITTEN
        first = order[0]
        for r in order[1:]:
            for c in range(nchar):
                if rows[r][c] == rows[first][c] and len(rows[first][c]) == 1 and draw(st.booleans()):
                    texts[r][c] = "."
    if interleaved:
        widths = draw(_widths(nchar))
        for b, _ in enumerate(widths):
            for r in order:
                chunk = _chunk(texts[r], widths)[b]
                out += "    " + label_texts[r] + draw(st.sampled_from([" ", "  ", "\t"])) + \
                       draw(_seq_text(chunk, data_type, gaps=fancy)) + "\n"
            if b < len(widths) - 1 and draw(st.booleans()):
                out += "\n"
        if draw(st.integers(0, 3)) == 0:
            out = out[:-1] + draw(st.sampled_from([";\n", " ;\n"]))    # terminator on the last sequence's line
        else:
            out += "  ;\n"
    else:
        # sequential layouts: free (blanks / breaks anywhere) or wrapped (every row continued on further lines after
        # a fixed number of characters, as alignment programs write long sequences)
        wrap = draw(st.integers(1, nchar - 1)) if nchar >= 2 and plan["wrap"] == 0 else None
        for r in order:
            out += "    " + label_texts[r] + draw(st.sampled_from([" ", "  ", "\t", "\n      "]))
            if wrap:
                pieces = [texts[r][k:k + wrap] for k in range(0, nchar, wrap)]
                out += "\n      ".join((" " if data_type == "continuous" else "").join(p) for p in pieces)
            else:
                out += draw(_seq_text(texts[r], data_type, gaps=fancy, breaks=("\n      ", "\n", "\n  ", " [c] ")))
            out += draw(st.sampled_from(["\n", "\n", " ", "\n\n"]))
        out += draw(st.sampled_from(["  ;\n", ";\n", "\n;"]))
    out += draw(st.sampled_from([kw("END"), kw("END"), kw("ENDBLOCK")])) + draw(_opt_ws(fancy)) + ";\n"
    content = {"data_type": data_type, "ntax": ntax, "nchar": nchar, "title": _denote(title), "interleaved": interleaved,
               "rows": [[labels[r], rows[r]] for r in order], "charsets": {}}
    return out, content


def _denote(token):
    """label denoted by a written NEXUS token (only for the tokens this module writes)"""
    if token is None:
        return None
    if token.startswith("'"):
        return token[1:-1].replace("''", "'")
    return token.replace("_", " ")


CHARSET_NAMES = ["c1", "first", "pos_2", "'my set'", "coding"]


@st.composite
def _nexus_sets_block(draw, matrix, fancy, link):
    nchar = matrix["nchar"]
    kw = lambda w: draw(_kw(w, fancy))
    out = kw("BEGIN") + " " + draw(st.sampled_from(["SETS", "SETS", "sets", "ASSUMPTIONS"])) + ";\n"
    if link is not None:
        out += "  " + kw("LINK") + " " + kw("CHARACTERS") + " = " + link + ";\n"
    names = draw(st.lists(st.sampled_from(CHARSET_NAMES), min_size=1, max_size=2, unique=True))
    for name in names:
        pos = set()
        parts = []
        if draw(st.integers(0, 7)) == 0:
            parts.append(draw(st.sampled_from(["all", "ALL"])))
            pos = set(range(1, nchar + 1))
        else:
            for _ in range(draw(st.integers(1, 3))):
                a = draw(st.integers(1, nchar))
                k = draw(st.integers(0, 4))
                if k <= 1:
                    parts.append(str(a))
                    pos.add(a)
                elif k == 2:
                    parts.append("%d-." % a if draw(st.booleans()) else "%d - ." % a)
                    pos.update(range(a, nchar + 1))
                else:
                    b = draw(st.integers(a, nchar))
                    step = draw(st.sampled_from([1, 1, 2, 3]))
                    parts.append("%d-%d" % (a, b) if step == 1 else "%d-%d\\%d" % (a, b, step))
                    pos.update(range(a, b + 1, step))
        out += "  " + kw("CHARSET") + " " + name + draw(st.sampled_from([" = ", "=", " ="])) + " ".join(parts) + ";\n"
        matrix["charsets"][_denote(name)] = sorted(p - 1 for p in pos)
    out += kw("END") + ";\n"
    return out


@st.composite
def _nexus_trees_block(draw, block_index, taxa, labels, label_texts, numbered, fancy, max_trees, max_leaves, title,
                       link):
    """taxa: taxon indices usable in this block; numbered: dict taxon index -> 1-based number or None"""
    sp = lambda: draw(_ws(fancy))
    kw = lambda w: draw(_kw(w, fancy))
    out = kw("BEGIN") + sp() + kw("TREES") + ";\n"
    if title is not None:
        out += "  " + kw("TITLE") + sp() + title + ";\n"
    if link is not None:
        out += "  " + kw("LINK") + sp() + kw("TAXA") + " = " + link + ";\n"
    styles = ["labels", "labels", "translate"] + (["numbers"] if numbered else [])
    style = draw(st.sampled_from(styles))
    leaf_text = dict((i, label_texts[i]) for i in taxa)
    if style == "numbers":
        leaf_text = dict((i, str(numbered[i])) for i in taxa)
    elif style == "translate":
        tokens = draw(st.sampled_from([["%d" % (k + 1) for k in range(len(taxa))],
                                       ["k%d" % k for k in range(len(taxa))],
                                       ["%d" % (k + 11) for k in range(len(taxa))]]))
        order = list(draw(st.permutations(list(taxa))))
        if numbered and tokens[0] == "1":
            # keep number tokens consistent with the TAXA numbering, as every real file does
            order = sorted(taxa, key=lambda i: numbered[i])
            tokens = [str(numbered[i]) for i in order]
        leaf_text = dict((i, tokens[k]) for k, i in enumerate(order))
        items = [tokens[k] + sp() + label_texts[i] for k, i in enumerate(order)]
        out += "  " + kw("TRANSLATE") + "\n    " + ("," + draw(st.sampled_from(["\n    ", " "]))).join(items) + \
               draw(st.sampled_from(["\n  ;\n", ";\n"]))
    trees = []
    for _ in range(draw(st.integers(1, max_trees))):
        spec = draw(tree_specs(list(taxa), max_leaves=max_leaves, fancy=fancy))
        rtext, rooted = draw(st.sampled_from(ROOTING))
        if fancy and draw(st.integers(0, 3)) == 0:
            rtext += draw(meta_comments())     # tree-level metadata
        s = draw(newick_text(spec, leaf_text, fancy))
        if s == "":
            spec["t"] = taxa[0]
            s = leaf_text[taxa[0]]
        name_text, name = draw(st.sampled_from(TREE_NAMES))
        star = draw(st.sampled_from(["", "", "* "])) if fancy else ""   # "*name" is read as one token
        out += "  " + kw("TREE") + " " + star + name_text + draw(st.sampled_from([" = ", "=", " =", "= "])) + \
               rtext + (" " if rtext and draw(st.booleans()) else "") + s + ";\n"
        trees.append({"name": name, "rooted": rooted, "block": block_index, "spec": clean_spec(spec)})
    out += draw(st.sampled_from([kw("END"), kw("END"), kw("ENDBLOCK")])) + ";\n"
    return out, trees


UNKNOWN_BLOCKS = ["BEGIN PAUP;\n  set autoclose=yes;\n  log file=x.log;\nEND;\n",
                  "BEGIN NOTES;\n  TEXT TAXON=1 TEXT='a note; with semicolon';\nEND;\n",
                  "begin mrbayes;\n  lset nst=6 rates=gamma;\nend;\n",
                  "BEGIN MYBLOCK;\nENDBLOCK;\n"]


@st.composite
def nexus_docs(draw, max_taxa=5, max_chars=8, max_trees=2, max_tree_blocks=3, fancy=True, n_matrices=None):
    """n_matrices: force this many CHARACTERS/DATA blocks (default: drawn, mostly one)."""
    ntax = draw(st.integers(1, max_taxa))
    labels = draw(label_sets(ntax))
    label_texts = [draw(nexus_label_text(l)) for l in labels]
    sp = lambda: draw(_ws(fancy))
    kw = lambda w: draw(_kw(w, fancy))
    n_matrix = draw(st.sampled_from([0, 1, 1, 1, 2])) if n_matrices is None else n_matrices
    plans = [draw(MATRIX_PLANS) for _ in range(n_matrix)]
    if n_matrix > 1:
        # one draw for the joint layout of all matrices: every combination (interleaved x wrapped, block by block)
        # is equally likely, independent of how Hypothesis correlates repeated draws
        code = draw(st.sampled_from(range(6 ** n_matrix)))
        for plan in plans:
            plan["interleaved"], plan["wrap"] = bool(code % 2), (code // 2) % 3
            code //= 6
    n_tree_blocks = draw(st.integers(0 if n_matrix else 1, max_tree_blocks))
    taxa_block = draw(st.integers(0, 3)) > 0
    titled = fancy and draw(st.integers(0, 3)) == 0     # TITLE / LINK on every block
    out = draw(st.sampled_from(["#NEXUS", "#NEXUS", "#nexus", "#Nexus"])) + draw(st.sampled_from(["\n", "\n\n", " \n"]))
    if fancy and draw(st.integers(0, 3)) == 0:
        out += draw(st.sampled_from(COMMENTS)) + "\n"
    numbered = None
    taxa_title = None
    if taxa_block:
        if titled:
            taxa_title = draw(st.sampled_from(TITLES[:2]))
        out += kw("BEGIN") + sp() + kw("TAXA") + ";\n"
        if taxa_title:
            out += "  " + kw("TITLE") + sp() + taxa_title + ";\n"
        out += "  " + kw("DIMENSIONS") + sp() + kw("NTAX") + draw(st.sampled_from(["=", " = "])) + str(ntax) + ";\n"
        out += "  " + kw("TAXLABELS") + sp() + sp().join(label_texts) + draw(_opt_ws(fancy)) + ";\n"
        out += draw(st.sampled_from([kw("END"), kw("END"), kw("ENDBLOCK")])) + ";\n"
        numbered = dict((i, i + 1) for i in range(ntax))
    link = taxa_title if (taxa_title and draw(st.booleans())) else None
    blocks = ["M"] * n_matrix + ["T"] * n_tree_blocks
    blocks = list(draw(st.permutations(blocks)))
    matrices, trees = [], []
    tb = 0
    n_unknown = 0
    for kind in blocks:
        if fancy and n_unknown == 0 and draw(st.integers(0, 9)) == 0:
            out += draw(st.sampled_from(UNKNOWN_BLOCKS))
            n_unknown += 1
        if kind == "M":
            # with several matrices every one is titled (a SETS block then names its matrix through LINK)
            title = draw(st.sampled_from(TITLES[2:4])) + str(len(matrices)) if n_matrix > 1 or \
                (titled and draw(st.booleans())) else None
            text, m = draw(_nexus_matrix_block(labels, label_texts, taxa_block or bool(matrices), fancy, max_chars,
                                               title, link, plans[len(matrices)]))
            out += text
            matrices.append(m)
            if draw(st.integers(0, 3)) == 0:
                # a SETS block refers to the only matrix, or names its matrix through LINK
                only = n_matrix == 1
                out += draw(_nexus_sets_block(m, fancy, None if only else title))
        else:
            title = draw(st.sampled_from(TITLES[4:6])) + str(tb) if titled and draw(st.booleans()) else None
            text, ts = draw(_nexus_trees_block(tb, list(range(ntax)), labels, label_texts, numbered, fancy, max_trees,
                                               max_taxa, title, link))
            out += text
            trees.extend(ts)
            tb += 1
    if fancy and draw(st.integers(0, 5)) == 0:
        out += draw(st.sampled_from(["\n", "[trailing comment]\n", "  "]))
    return {"text": out, "schema": "nexus", "kwargs": {},
            "matrix_type": matrices[0]["data_type"] if matrices else None,
            "content": {"taxon_labels": labels, "ntax": ntax if taxa_block else None, "trees": trees,
                        "matrices": matrices, "used": labels if (taxa_block or matrices) else _used_labels(labels, trees)}}


# ---------------------------------------------------------------------------
# PHYLIP and FASTA
# ---------------------------------------------------------------------------

PHYLIP_RELAXED_LABELS = PLAIN_LABELS + ["a_b", "Homo_sapiens", "x(1)", "it's", "h-y", "e=mc", "[c]"]
PHYLIP_STRICT_LABELS = PLAIN_LABELS[:20] + ["a b", "Homo sapie", "x 1", "a_b", "tenletters"]
FASTA_LABELS = PLAIN_LABELS + SPACED_LABELS + ["gi|123|ref", "seq1 Homo sapiens COI", "a_b", "x>y", "it's"]


@st.composite
def phylip_docs(draw, max_taxa=5, max_chars=10, fancy=True):
    strict = draw(st.booleans())
    interleaved = draw(st.booleans())
    data_type = draw(st.sampled_from(["dna", "dna", "protein", "standard", "rna", "continuous", "continuous"]))
    ntax = draw(st.integers(1, max_taxa))
    nchar = draw(st.integers(1, max_chars if data_type != "continuous" else max(1, max_chars // 2)))
    pool = PHYLIP_STRICT_LABELS if strict else PHYLIP_RELAXED_LABELS
    labels = draw(st.lists(st.sampled_from(pool), min_size=ntax, max_size=ntax, unique_by=lambda s: s.lower()))
    rows, texts = draw(matrix_cells(data_type, ntax, nchar, case_mix=True))
    if data_type == "standard":
        # the PHYLIP reader's standard alphabet is 0-9
        pass
    out = draw(st.sampled_from(["%d %d", " %d %d", "%d\t%d", "  %d   %d ", "%d %d  "])) % (ntax, nchar) + "\n"

    def lab(i):
        if strict:
            return labels[i].ljust(10)
        return labels[i] + draw(st.sampled_from([" ", "  ", "\t", "     "]))

    if interleaved:
        widths = draw(_widths(nchar))
        for b, _ in enumerate(widths):
            for r in range(ntax):
                chunk = _chunk(texts[r], widths)[b]
                out += (lab(r) if b == 0 else "") + draw(_seq_text(chunk, data_type, gaps=fancy)) + "\n"
            if b < len(widths) - 1 and draw(st.booleans()):
                out += "\n"
    else:
        for r in range(ntax):
            widths = draw(_widths(nchar))
            for b, chunk in enumerate(_chunk(texts[r], widths)):
                out += (lab(r) if b == 0 else draw(st.sampled_from(["", "  ", "          "]))) + \
                       draw(_seq_text(chunk, data_type, gaps=fancy)) + "\n"
            if fancy and draw(st.integers(0, 5)) == 0:
                out += "\n"
    if fancy and draw(st.integers(0, 5)) == 0:
        out += "\n"
    m = {"data_type": data_type, "ntax": ntax, "nchar": nchar, "title": None, "interleaved": interleaved,
         "rows": [[labels[r], rows[r]] for r in range(ntax)], "charsets": {}}
    return {"text": out, "schema": "phylip",
            "kwargs": {"data_type": data_type, "strict": strict, "interleaved": interleaved},
            "matrix_type": data_type,
            "content": {"taxon_labels": labels, "ntax": ntax, "trees": [], "matrices": [m], "used": labels}}


@st.composite
def fasta_docs(draw, max_taxa=5, max_chars=12, fancy=True):
    data_type = draw(st.sampled_from(["dna", "dna", "protein", "rna", "standard"]))
    ntax = draw(st.integers(1, max_taxa))
    labels = draw(st.lists(st.sampled_from(FASTA_LABELS), min_size=ntax, max_size=ntax, unique_by=lambda s: s.lower()))
    out = draw(st.sampled_from(["", "", "\n"])) if fancy else ""
    rows = []
    for r in range(ntax):
        nchar = draw(st.integers(1, max_chars))
        cells, texts = draw(matrix_cells(data_type, 1, nchar))
        out += ">" + draw(st.sampled_from(["", "", " "])) + labels[r] + draw(st.sampled_from(["\n", "\n", " \n", "\r\n"]))
        for chunk in _chunk(texts[0], draw(_widths(nchar))):
            out += draw(_seq_text(chunk, data_type, gaps=fancy)) + "\n"
        if fancy and draw(st.integers(0, 4)) == 0:
            out += "\n"
        rows.append([labels[r], cells[0]])
    m = {"data_type": data_type, "ntax": ntax, "nchar": None, "title": None, "interleaved": False, "rows": rows,
         "charsets": {}}
    return {"text": out, "schema": "fasta", "kwargs": {"data_type": data_type}, "matrix_type": data_type,
            "content": {"taxon_labels": labels, "ntax": None, "trees": [], "matrices": [m], "used": labels}}


def documents(max_len=400, schemas=SCHEMAS, large=False):
    """Valid documents of every schema (NEXUS weighted up: it has by far the largest grammar) no longer than max_len."""
    k = 2 if large else 1
    parts = []
    if "newick" in schemas:
        parts.append(newick_docs(max_taxa=5 * k, max_trees=2 * k))
    if "nexus" in schemas:
        parts.extend([nexus_docs(max_taxa=4 * k, max_chars=6 * k, max_trees=2 * k)] * 3)
        # several small matrices in one file (per-block FORMAT / DIMENSIONS state of the reader)
        # (one copy in plain spelling, which keeps more of them under max_len)
        parts.append(nexus_docs(max_taxa=3 * k, max_chars=4 * k, max_trees=1, max_tree_blocks=1, n_matrices=2))
        parts.append(nexus_docs(max_taxa=3 * k, max_chars=4 * k, max_trees=1, max_tree_blocks=0, n_matrices=2,
                                fancy=False))
    if "phylip" in schemas:
        parts.append(phylip_docs(max_taxa=4 * k, max_chars=8 * k))
    if "fasta" in schemas:
        parts.append(fasta_docs(max_taxa=4 * k, max_chars=10 * k))
    return st.one_of(*parts).filter(lambda d: len(d["text"]) <= max_len)


# ---------------------------------------------------------------------------
# fixed corpus
# ---------------------------------------------------------------------------

def load_corpus(directory=None):
    """Hand-written valid documents listed in <directory>/index.json: [{"file", "schema", "kwargs", "matrix_type"}].

    "single_namespace_routes_may_reject": true marks documents with several TAXA blocks: Tree.get / TreeList.get /
    <Type>CharacterMatrix.get read everything into ONE taxon namespace (documented) and may refuse them."""
    if directory is None:
        directory = os.path.join(os.path.dirname(os.path.dirname(os.path.abspath(__file__))), "corpus")
    index = json.load(open(os.path.join(directory, "index.json")))
    out = []
    for e in index:
        with open(os.path.join(directory, e["file"]), newline="") as f:
            text = f.read()
        out.append({"text": text, "schema": e["schema"], "kwargs": e.get("kwargs", {}),
                    "matrix_type": e.get("matrix_type"), "content": None, "file": e["file"],
                    "single_namespace_routes_may_reject": bool(e.get("single_namespace_routes_may_reject"))})
    return out


# ---------------------------------------------------------------------------
# corruptions
# ---------------------------------------------------------------------------

KEYWORDS = {
    "newick": [";", "(", ")", ",", ":", "[&R]", "[&U]", "[", "]", "'", "()", "(,)", ":1", ";;", "{1}", "{x}", "{", "}",
               "{1.5}", "{}", "{2", "[&W 1/0]", "[&W x]", "','", "';'", "')'"],
    "nexus": ["BEGIN", "END", "ENDBLOCK", "MATRIX", ";", "TREE", "TRANSLATE", "LINK", "TITLE", "DIMENSIONS", "FORMAT",
              "TAXLABELS", "CHARSET", "BEGIN TAXA;", "BEGIN TREES;", "BEGIN DATA;", "BEGIN CHARACTERS;", "BEGIN SETS;",
              "END;", "NTAX=2", "NCHAR=3", "NTAX", "NCHAR", "INTERLEAVE", "DATATYPE=DNA", "DATATYPE", "SYMBOLS=\"01\"",
              "GAP=-", "MISSING=?", "MATCHCHAR=.", "#NEXUS", "=", ",", "(", ")", "[", "]", "'", "\"", "{", "}", "*",
              "TAXA", "CHARACTERS", "LINK TAXA = x;", "LINK CHARACTERS = x;", "TITLE x;", "TREE t = (a,b);", "-", "\\",
              ".", "ALL", "[&R]"],
    "phylip": ["\n", " ", "2 3", "1", "\t", "A", "-", "?", "          ", "\n\n", "0 0", "99 99"],
    "fasta": [">", "\n", ">x", " ", "A", "-", "?", "\n\n", ">\n", "*"],
}

ALPHABET = {
    "newick": list("();,:'[]&=_ \n\t.-+eE0123456789aAbBRU{}\"*/\\#"),
    "nexus": list("();,:'[]&=_ \n\t.-+eE0123456789aAbBRUNCTGX?{}\"*/\\#"),
    "phylip": list(" \n\t\r0123456789ACGTUacgtNXZ-?.,;()[]'_*"),
    "fasta": list(" \n\t\r>0123456789ACGTUacgtNXZ-?.,;()[]'_*"),
}

SOUP_TOKENS = {
    "newick": ["(", ")", ",", ":", ";", "(", ")", ",", "A", "B", "C", "a", "'q r'", "'", "[", "]", "[&R]", "[&U]",
               "[c]", "[&m=1]", "[&=]", "[&x={1,2}]", "1", "0.5", "1e-3", "-", "e", "_", "x_y", "''", "'it''s'",
               "{", "}", "{1}", "=", "\"", "*", "#", "&", "[&&NHX:a=b]", "[&W 1/2]", "[&W x]", "[&x= ]", "[&k=]", "[&a={1,2]", "[&a= ,b=2]", "[&={}]"],
    "nexus": ["#NEXUS", "BEGIN", "END", "ENDBLOCK", ";", ";", ";", "TAXA", "CHARACTERS", "DATA", "TREES", "SETS",
              "ASSUMPTIONS", "CODONS", "FOO", "TITLE", "LINK", "DIMENSIONS", "NTAX", "NCHAR", "=", "=", "1", "2", "3",
              "10", "FORMAT", "DATATYPE", "DNA", "STANDARD", "CONTINUOUS", "PROTEIN", "SYMBOLS", "\"", "01", "GAP",
              "MISSING", "MATCHCHAR", "INTERLEAVE", "YES", "NO", "MATRIX", "TAXLABELS", "TREE", "UTREE", "*",
              "TRANSLATE", "CHARSET", "ALL", "-", ".", "\\", "/", ",", "(", ")", ":", "{", "}", "A", "B", "a", "b",
              "ACGT", "AC", "?-", "'q r'", "'", "[", "]", "[c]", "[&R]", "[&m=1]", "0.5", "x_y", "\n", "\n", "t1"],
    "phylip": ["1", "2", "3", "4", "10", "0", " ", " ", "  ", "\n", "\n", "\n", "\t", "\r\n", "A", "B", "taxon1",
               "ACGT", "AC", "acg", "-", "?", "N", "X", "01", "1.5", "Homo sapie", "          ", "!", "*", ";"],
    "fasta": [">", ">", ">a", ">b", ">a b", "\n", "\n", "\n", " ", "\r\n", "ACGT", "AC", "acg", "-", "?", "N", "X",
              "!", "*", "1", ";", ">>", "> "],
}


EDIT_OPS = ("del", "delspan", "deltok", "ins", "rep", "kw", "dupspan", "delunit", "dupunit", "moveunit")


def edits(max_edits=2):
    """1..max_edits local edits {"op", "pos", "n", "c", "to"}; positions are reduced modulo the text length when
    applied; ops: delete char / span / token, insert or replace a char of the format's alphabet, insert a keyword,
    duplicate a span, delete / duplicate / move a whole unit (statement up to ';' for NEXUS and Newick, line for
    PHYLIP and FASTA)."""
    pos = st.integers(0, 4000)
    one = st.fixed_dictionaries({"op": st.sampled_from(EDIT_OPS), "pos": pos, "n": st.integers(1, 40),
                                 "c": st.integers(0, 200), "to": pos})
    return st.lists(one, min_size=1, max_size=max_edits)


def apply_edits(text, edit_list, schema):
    """Apply edits (as drawn by edits()) to text.  Pure function of its arguments."""
    alpha = ALPHABET[schema]
    kws = KEYWORDS[schema]
    for e in edit_list:
        n = len(text)
        op = e["op"]
        if op in ("ins", "kw"):
            p = e["pos"] % (n + 1)
        elif n == 0:
            continue
        else:
            p = e["pos"] % n
        if op == "del":
            text = text[:p] + text[p + 1:]
        elif op == "delspan":
            text = text[:p] + text[p + e["n"]:]
        elif op == "ins":
            text = text[:p] + alpha[e["c"] % len(alpha)] + text[p:]
        elif op == "rep":
            text = text[:p] + alpha[e["c"] % len(alpha)] + text[p + 1:]
        elif op == "kw":
            k = kws[e["c"] % len(kws)]
            if schema == "nexus" and k[0].isalnum():
                k = " " + k + " "
            text = text[:p] + k + text[p:]
        elif op == "deltok":
            # delete the maximal run of non-blank characters around p (a whole word / number / punctuation run)
            a = p
            while a > 0 and not text[a - 1].isspace():
                a -= 1
            b = p
            while b < n and not text[b].isspace():
                b += 1
            text = text[:a] + text[b:]
        elif op == "dupspan":
            text = text[:p] + text[p:p + e["n"]] + text[p:]
        elif op in ("delunit", "dupunit", "moveunit"):
            # unit = statement (up to and including ';') for NEXUS / Newick, line for PHYLIP / FASTA
            a, b = _unit_around(text, p, ";" if schema in ("nexus", "newick") else "\n")
            unit = text[a:b]
            if op == "delunit":
                text = text[:a] + text[b:]
            elif op == "dupunit":
                text = text[:b] + unit + text[b:]
            else:
                rest = text[:a] + text[b:]
                q, _ = _unit_around(rest, e["to"] % (len(rest) + 1), ";" if schema in ("nexus", "newick") else "\n")
                text = rest[:q] + unit + rest[q:]
    return text


def _unit_around(text, p, terminator):
    a = text.rfind(terminator, 0, p) + 1
    b = text.find(terminator, p)
    b = len(text) if b < 0 else b + 1
    return a, b


@st.composite
def plain_newick_soups(draw, max_tokens=30):
    """Newick-like text over structure characters, plain labels and numbers only (no quotes, no comments): mostly
    almost-balanced, so that readers get far into it."""
    toks = draw(st.lists(st.sampled_from(["(", "(", ")", ")", ",", ",", ";", ":", "a", "b", "c", "d", "e", "1", "0.5",
                                          "(a,b)", "(c,d)", ",(e,f)", ");", "(a,b);", " ", "\n", "{1}", "{x}", "{"]),
                         min_size=1, max_size=max_tokens))
    return "".join(toks) + draw(st.sampled_from([";", ";", "", ");", "\n"]))


@st.composite
def plain_newick_mutants(draw, max_edits=2):
    """A valid Newick document without quotes and comments, with 1..max_edits structure characters inserted, deleted
    or replaced: the unbalanced / prematurely terminated statements a reader must refuse."""
    text = draw(newick_docs(max_taxa=5, max_trees=2, fancy=False, plain_labels=True))["text"]
    for _ in range(draw(st.integers(1, max_edits))):
        spots = [i for i, c in enumerate(text) if c in "(),;:"]
        op = draw(st.sampled_from(["ins", "ins_at", "ins_at", "del", "rep", "semi", "semi"]))
        c = draw(st.sampled_from("((()));;;,:"))
        if op == "semi":
            # a statement terminator inside the parentheses: "(a,(b,c);d);"
            inner = [i for i in spots if text[i] in ",)"]
            if inner:
                p = inner[draw(st.integers(0, len(inner) - 1))]
                text = text[:p] + ";" + text[p:]
            continue
        if op == "ins" or not spots:
            p = draw(st.integers(0, len(text)))
            text = text[:p] + c + text[p:]
        else:
            p = spots[draw(st.integers(0, len(spots) - 1))]
            if op == "ins_at":
                text = text[:p] + c + text[p:]      # before a structure character, i.e. at a token boundary
            else:
                text = text[:p] + (c if op == "rep" else "") + text[p + 1:]
    return text


@st.composite
def soups(draw, schema, max_tokens=40):
    """Random token sequence over the format's alphabet, for NEXUS usually behind a #NEXUS header and a BEGIN."""
    toks = draw(st.lists(st.sampled_from(SOUP_TOKENS[schema]), min_size=0, max_size=max_tokens))
    if schema in ("phylip", "fasta"):
        text = "".join(toks)
        if schema == "phylip" and draw(st.integers(0, 3)) > 0:
            text = "%d %d\n" % (draw(st.integers(0, 4)), draw(st.integers(0, 6))) + text
        return text
    glue = draw(st.sampled_from([" ", " ", "", "\n"]))
    text = glue.join(toks)
    if schema == "nexus":
        k = draw(st.integers(0, 9))
        if k > 0:
            head = "#NEXUS\n"
            if k > 2:
                head += "BEGIN " + draw(st.sampled_from(["TAXA", "DATA", "CHARACTERS", "TREES", "TREES", "SETS", "FOO"])) + ";\n"
            if k > 7:
                head = "#NEXUS\nBEGIN DATA; DIMENSIONS NTAX=2 NCHAR=3; FORMAT DATATYPE=DNA; MATRIX a ACG b ACG; END;\n" + \
                       "BEGIN " + draw(st.sampled_from(["SETS", "TREES", "CHARACTERS"])) + ";\n"
            text = head + text
    return text


# ---------------------------------------------------------------------------
# NEXUS statement soup: syntactically plausible blocks made of well-formed statements with arbitrary arguments
# ---------------------------------------------------------------------------

_W = ["a", "b", "c", "x", "M1", "Taxa1", "'q r'", "t1", "1", "2", "c1"]
_N = ["0", "1", "2", "3", "4", "10", "x", "-1", "2.5"]
_FORMAT_ITEMS = ["DATATYPE=DNA", "DATATYPE=RNA", "DATATYPE=PROTEIN", "DATATYPE=STANDARD", "DATATYPE=CONTINUOUS",
                 "DATATYPE=NUCLEOTIDE", "DATATYPE=FOO", "DATATYPE", "SYMBOLS=\"01\"", "SYMBOLS=\"0 1 2\"", "SYMBOLS=\"?\"",
                 "SYMBOLS=\"-\"", "SYMBOLS=\"\"", "SYMBOLS=\"AB\"", "SYMBOLS=01", "SYMBOLS", "GAP=-", "GAP=0", "GAP=?",
                 "GAP", "MISSING=?", "MISSING=0", "MISSING=-", "MISSING=N", "MATCHCHAR=.", "MATCHCHAR=A", "MATCHCHAR=0",
                 "INTERLEAVE", "INTERLEAVE=YES", "INTERLEAVE=NO", "INTERLEAVE=", "RESPECTCASE", "TRANSPOSE",
                 "ITEMS=MEAN", "NOLABELS", "EQUATE=\"R=(AG)\""]
_ROW_SEQS = ["ACG", "AC", "ACGT", "A C G", "010", "01", "0{01}1", "0(01)1", "{AG}CG", "A{}G", "A(G", "A{Z}G", "...",
             ".CG", "?-N", "1.5 2 3", "1 2", "x y z", "ACG\n", "AC\n", "0 1 0"]
_POSITIONS = ["1-99999999999", "99999999999", "2-99999999999\\3", "1-3\\99999999999", "0-2", "0", "3-1", "1-0", "1", "1-2", "1-3", "2-.", "1-3\\2", "1-3\\0", "1-3/2", "all", "ALL", "0", "4", "9-10", "3-1", "1 2 3",
              "1,2", "-", "1-", "1-x", "foo", ".", "1-3\\", "1 - 2", "", "2-2"]
_NEWICKS = ["(a,b)", "(a,(b,c))", "(1,2)", "((1,2),3)", "(1,(2,zz))", "(a,zz)", "(1,2)", "(a,b)", "(a:1,b:2):0", "a", "(a,a)", "(a,b", "a,b)", "()", "(,)",
            "[&R] (a,b)", "[&U](a,b,c)", "(a,b)[&x=1]", "(a[&x={1,2}],b)", "('q r',b)", "(a,b);(c,d)", ""]


@st.composite
def _nexus_statement(draw, block):
    w = lambda: draw(st.sampled_from(_W))
    n = lambda: draw(st.sampled_from(_N))
    common = ["TITLE %s" % w(), "LINK TAXA = %s" % w(), "LINK CHARACTERS = %s" % w(), "LINK %s = %s" % (w(), w()),
              "LINK TAXA", "TITLE", "%s %s" % (w(), w()), "", "DIMENSIONS NTAX=%s" % n()]
    if block == "TAXA":
        specific = ["DIMENSIONS NTAX=%s" % n(), "DIMENSIONS NTAX=2", "DIMENSIONS", "TAXLABELS %s" % " ".join(
            draw(st.lists(st.sampled_from(_W), max_size=4))), "TAXLABELS a b"]
    elif block in ("CHARACTERS", "DATA"):
        rows = draw(st.lists(st.tuples(st.sampled_from(_W[:6]), st.sampled_from(_ROW_SEQS)), max_size=4))
        specific = ["DIMENSIONS NTAX=%s NCHAR=%s" % (n(), n()), "DIMENSIONS NCHAR=%s" % n(), "DIMENSIONS NTAX=2 NCHAR=3",
                    "DIMENSIONS NTAX=2 NCHAR=3", "DIMENSIONS NEWTAXA NTAX=2 NCHAR=3",
                    "FORMAT " + " ".join(draw(st.lists(st.sampled_from(_FORMAT_ITEMS), max_size=4))),
                    "FORMAT " + " ".join(draw(st.lists(st.sampled_from(_FORMAT_ITEMS), max_size=4))),
                    "MATRIX\n" + "".join("  %s %s\n" % r for r in rows),
                    "MATRIX\n" + "".join("  %s %s\n" % r for r in rows),
                    "MATRIX a ACG b ACG", "CHARSTATELABELS 1 x / a b", "OPTIONS GAPMODE=MISSING"]
    elif block == "TREES":
        pairs = draw(st.lists(st.tuples(st.sampled_from(_W), st.sampled_from(_W)), max_size=3))
        specific = ["TRANSLATE " + ", ".join("%s %s" % p for p in pairs), "TRANSLATE 1 a, 2 b", "TRANSLATE 1 a, 2 b",
                    "TRANSLATE 1 a", "TRANSLATE",
                    "TRANSLATE 1 a 2 b", "TREE %s = %s" % (w(), draw(st.sampled_from(_NEWICKS))),
                    "TREE %s = %s" % (w(), draw(st.sampled_from(_NEWICKS))),
                    "TREE * %s = %s" % (w(), draw(st.sampled_from(_NEWICKS))), "TREE %s %s" % (w(), w()), "TREE",
                    "UTREE t = (a,b)", "TREE = (a,b)"]
    else:
        specific = ["CHARSET %s = %s" % (w(), draw(st.sampled_from(_POSITIONS))),
                    "CHARSET %s = %s" % (w(), draw(st.sampled_from(_POSITIONS))),
                    "CHARSET %s = %s %s" % (w(), draw(st.sampled_from(_POSITIONS)), draw(st.sampled_from(_POSITIONS))),
                    "CHARSET %s" % w(), "CHARSET", "CHARSET c1 = 1-2", "CHARSET c1 = 1-2", "CHARSET c1 = 3",
                    "LINK CHARACTERS = %s" % w(), "LINK CHARACTERS = M1", "TAXSET x = 1-2",
                    "CHARPARTITION p = a: 1-2, b: 3"]
    pool = specific * 3 + common
    return draw(st.sampled_from(pool))


@st.composite
def nexus_statement_soups(draw, max_statements=3):
    """'#NEXUS' + a plausible block sequence (TAXA, DATA/CHARACTERS, SETS, TREES) made of well-formed statements whose
    keywords are right but whose arguments, order and repetition are arbitrary (duplicate TITLEs, FORMAT items in any
    combination, matrix rows of any content, charsets over any positions, LINKs to anything ...).  Every statement
    is short and most are acceptable, so that a reader usually gets as far as the odd one."""
    stmts = lambda block, lo=0: ["  " + draw(_nexus_statement(block)) + ";\n"
                                 for _ in range(draw(st.integers(lo, max_statements)))]
    end = lambda: draw(st.sampled_from(["END;\n"] * 6 + ["ENDBLOCK;\n", "", "END\n"]))
    out = "#NEXUS\n"
    k = draw(st.integers(0, 9))
    if k < 5:
        out += "BEGIN TAXA;\n  DIMENSIONS NTAX=2;\n  TAXLABELS a b;\nEND;\n"
    elif k < 7:
        out += "BEGIN TAXA;\n" + "".join(stmts("TAXA", 1)) + end()
    blocks = draw(st.lists(st.sampled_from(["M", "M", "S", "S", "T", "T", "X"]), min_size=1, max_size=4))
    if draw(st.integers(0, 3)) > 0:
        # usually a matrix first: SETS statements need one
        blocks = sorted(blocks, key=lambda b: b != "M")
        if "S" in blocks and "M" not in blocks:
            blocks = ["M"] + blocks
    for b in blocks:
        if b == "M":
            kind = draw(st.sampled_from(["DATA", "CHARACTERS"]))
            out += "BEGIN %s;\n" % kind
            if draw(st.integers(0, 3)) == 0:
                out += "  TITLE %s;\n" % draw(st.sampled_from(_W))
            out += "".join(stmts(kind)[:1]) if draw(st.integers(0, 3)) == 0 else ""
            out += "  DIMENSIONS NTAX=2 NCHAR=3;\n"
            mode = draw(st.sampled_from(["dna", "dna", "dna", "std", "any"]))
            items = draw(st.lists(st.sampled_from(_FORMAT_ITEMS), min_size=0, max_size=4)) if mode == "any" else \
                draw(st.sampled_from([[], [], [], ["GAP=-"], ["MISSING=?"]] + [[i] for i in _FORMAT_ITEMS]))
            if mode != "any" and draw(st.integers(0, 2)) > 0:
                items = [i for i in items if not i.startswith(("DATATYPE", "INTERLEAVE"))]
            if mode == "dna":
                items = ["DATATYPE=DNA"] + items
                seqs = ["ACG"] * 150 + _ROW_SEQS
            elif mode == "std":
                items = draw(st.sampled_from([["DATATYPE=STANDARD"], ["SYMBOLS=\"01\""], []])) + items
                seqs = ["010"] * 150 + _ROW_SEQS
            else:
                seqs = _ROW_SEQS
            out += "  FORMAT %s;\n" % " ".join(items)
            rows = [(l, draw(st.sampled_from(seqs))) for l in
                    draw(st.sampled_from([["a", "b"]] * 16 + [["a", "a"], ["a"], ["a", "b", "c"], ["a", "b", "a", "b"]]))]
            out += "  MATRIX\n" + "".join("    %s %s\n" % r for r in rows) + "  ;\n"
            out += "".join(stmts(kind)[:1]) if draw(st.integers(0, 3)) == 0 else ""
            out += end()
        elif b == "S":
            out += "BEGIN %s;\n" % draw(st.sampled_from(["SETS", "SETS", "ASSUMPTIONS", "CODONS"]))
            out += "".join(stmts("SETS", 1)) + end()
        elif b == "T":
            out += "BEGIN TREES;\n" + "".join(stmts("TREES", 1) + stmts("TREES")[:2]) + end()
        else:
            out += "BEGIN %s;\n" % draw(st.sampled_from(["TAXA", "PAUP", "FOO"])) + "".join(stmts("TAXA")) + end()
    return out


# ---------------------------------------------------------------------------
# NEXUS link soup: syntactically valid documents that mix titled and untitled blocks, refer to them through LINK
# statements (existing, case-variant and missing titles) and use TREES blocks with any number of TRANSLATE statements
# ---------------------------------------------------------------------------

def _title_ref(draw, existing):
    """a title to LINK to: one that exists, a case variant of one, or one that does not exist"""
    pool = ["Nope"] if existing else ["Nope", "M1", "Taxa1"]
    for t in existing:
        pool.extend([t, t, t, t.upper(), t.lower(), t.swapcase()])
    return draw(st.sampled_from(pool))


@st.composite
def nexus_link_soups(draw):
    """'#NEXUS' + 0-2 TAXA blocks, 1-2 matrices, SETS and TREES blocks, every statement well formed.  Blocks are titled
    or untitled at random; CHARACTERS / SETS / TREES blocks may carry LINK TAXA / LINK CHARACTERS / LINK TREES naming an
    existing title, a case variant of it or a missing one; a TREES block holds 0-3 TRANSLATE statements (complete,
    partial, overlapping) followed by trees over declared tokens, taxon labels, taxon numbers and undeclared labels.
    What a reader must do with each (accept, or refuse with a parse error) is left to the oracle of the caller."""
    labels = ["a", "b", "c", "d"][:draw(st.integers(2, 4))]
    ntax = len(labels)
    out = "#NEXUS\n"
    taxa_titles, matrix_titles, tree_titles = [], [], []
    n_taxa_blocks = draw(st.sampled_from([0, 1, 1, 1, 1, 1, 1, 2]))
    for i in range(n_taxa_blocks):
        title = draw(st.sampled_from([None, "Taxa%d" % (i + 1), "Taxa%d" % (i + 1)]))
        out += "BEGIN TAXA;\n"
        if title:
            out += "  TITLE %s;\n" % title
            taxa_titles.append(title)
        out += "  DIMENSIONS NTAX=%d;\n  TAXLABELS %s;\nEND;\n" % (ntax, " ".join(labels))
    have_taxa = "BEGIN TAXA" in out
    blocks = draw(st.lists(st.sampled_from(["M", "S", "T", "T"]), min_size=1, max_size=4))
    if draw(st.integers(0, 3)) > 0 and "S" in blocks:
        blocks = ["M"] + [b for b in blocks if b != "M"] + (["M"] if blocks.count("M") > 1 else [])
    n_m = 0
    for b in blocks:
        if b == "M":
            n_m += 1
            kind = draw(st.sampled_from(["DATA", "CHARACTERS"])) if have_taxa else "DATA"
            out += "BEGIN %s;\n" % kind
            if draw(st.booleans()):
                t = "M%d" % n_m
                out += "  TITLE %s;\n" % t
                matrix_titles.append(t)
            if (n_taxa_blocks > 1 and taxa_titles) or draw(st.integers(0, 5 if taxa_titles else 11)) == 0:
                out += "  LINK TAXA = %s;\n" % _title_ref(draw, taxa_titles)
            out += "  DIMENSIONS %sNCHAR=3;\n" % ("NTAX=%d " % ntax if kind == "DATA" or draw(st.booleans()) else "")
            out += "  FORMAT DATATYPE=DNA;\n  MATRIX\n" + "".join("    %s ACG\n" % l for l in labels) + "  ;\nEND;\n"
        elif b == "S":
            out += "BEGIN %s;\n" % draw(st.sampled_from(["SETS", "SETS", "ASSUMPTIONS"]))
            for _ in range(draw(st.sampled_from([0, 1, 1, 1, 2]))):
                kind = draw(st.sampled_from(["CHARACTERS", "CHARACTERS", "CHARACTERS", "TAXA", "TREES"]))
                existing = {"CHARACTERS": matrix_titles, "TAXA": taxa_titles, "TREES": tree_titles}[kind]
                out += "  LINK %s = %s;\n" % (kind, _title_ref(draw, existing))
            for k in range(draw(st.integers(1, 2))):
                out += "  CHARSET cs%d = %s;\n" % (k + 1, draw(st.sampled_from(["1-2", "1", "2-3", "1-3\\2", "all"] * 3 + _POSITIONS)))
            out += "END;\n"
        else:
            out += "BEGIN TREES;\n"
            if draw(st.integers(0, 2)) == 0:
                t = "Tr%d" % (len(tree_titles) + 1)
                out += "  TITLE %s;\n" % t
                tree_titles.append(t)
            if (n_taxa_blocks > 1 and taxa_titles) or draw(st.integers(0, 5 if taxa_titles else 11)) == 0:
                out += "  LINK TAXA = %s;\n" % _title_ref(draw, taxa_titles)
            families = [list(labels), [str(k + 1) for k in range(ntax)]]
            odd = list(labels) + ["zz", "Yy", "9"] + [str(k + 1) for k in range(ntax)]
            for _ in range(draw(st.sampled_from([0, 1, 1, 2, 2, 3]))):
                toks = draw(st.sampled_from([[str(k + 1) for k in range(ntax)], ["t%d" % k for k in range(ntax)],
                                             [str(k + 1) for k in range(ntax)][:ntax - 1], ["1"]]))
                targets = draw(st.sampled_from([labels] * 5 + [list(reversed(labels))] * 2 + [labels[:1] * ntax]))
                out += "  TRANSLATE %s;\n" % ", ".join("%s %s" % p for p in zip(toks, targets))
                families.append(toks)
                odd.extend(toks)
            for k in range(draw(st.integers(1, 3))):
                # leaves from one way of naming taxa (labels, numbers or one TRANSLATE's tokens) ...
                family = draw(st.sampled_from(families[-2:] + families))
                leaves = list(draw(st.permutations(family)))[:draw(st.integers(2, 4))]
                if len(leaves) < 2:
                    leaves.append("zz")
                if draw(st.integers(0, 2)) == 0:
                    # ... and now and then one symbol of another kind: undeclared label, number, label next to tokens
                    leaves[draw(st.integers(0, len(leaves) - 1))] = draw(st.sampled_from(odd))
                newick = "(%s)" % ",".join(leaves) if len(leaves) < 4 or draw(st.booleans()) else \
                    "((%s,%s),%s)" % (leaves[0], leaves[1], ",".join(leaves[2:]))
                out += "  TREE t%d = %s%s;\n" % (k + 1, draw(st.sampled_from(["", "", "[&R] ", "[&U] "])), newick)
            out += draw(st.sampled_from(["END;\n", "END;\n", "ENDBLOCK;\n"]))
    return out
