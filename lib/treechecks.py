"""Oracle pieces shared by the tree checks (C03, C07, C08, ...)."""
from lib.snapshot import snapshot, traversal_problems


def mask_of(cluster, bits):
    """cluster: iterable of taxon labels 'T<i>'; bits: dict taxon index -> bit number (our own accession model)."""
    m = 0
    for lab in cluster:
        m |= 1 << bits[int(lab[1:])]
    return m


def norm(mask, full):
    low = full & -full
    if mask & low:
        return ~mask & full
    return mask & full


def wellformed(ctx, tree, clause, key, tag="", traversals=True, taxon_key=None):
    """snapshot + well-formedness verdict; returns the RefTree."""
    rt, problems = snapshot(tree, taxon_key=taxon_key)
    if not problems and traversals:
        problems = traversal_problems(tree, rt)
    ctx.check(not problems, clause, key, lambda: "%s %r" % (tag, problems))
    return rt


def encoding_current(ctx, tree, post, bits, clause, key, tag=""):
    """Every edge of the tree carries exactly the masks a fresh encoding would give, and the encoding list holds
    exactly one entry per edge, each being that edge's object.  Leaves without taxa contribute no bits."""
    rooted = bool(tree.is_rooted)
    cl = post.clusters()
    full = 0
    for i in post.leaves():
        if post.taxon[i] is not None:
            full |= 1 << bits[int(post.taxon[i][1:])]
    if full == 0:
        return  # no taxon on any leaf: nothing to encode
    edge_bips = []
    for i in post.nodes():
        b = post.obj[i]._edge._bipartition
        if not ctx.check(b is not None, clause, key, lambda: "%s edge without bipartition over %s" % (tag, sorted(cl[i]))):
            return
        edge_bips.append(b)
        want = 0
        for lab in cl[i]:
            if not lab.startswith("#"):
                want |= 1 << bits[int(lab[1:])]
        ws = want if rooted else norm(want, full)
        ok = b._leafset_bitmask == want and b._split_bitmask == ws and b._tree_leafset_bitmask == full
        if not ctx.check(ok, clause, key,
                         lambda: "%s node over %s: leafset %s split %s treemask %s; want leafset %s split %s treemask %s" % (
                             tag, sorted(cl[i]), bin(b._leafset_bitmask or 0), bin(b._split_bitmask or 0),
                             bin(b._tree_leafset_bitmask or 0), bin(want), bin(ws), bin(full))):
            return
    enc = tree.bipartition_encoding
    ctx.check(enc is not None and sorted(id(b) for b in enc) == sorted(id(b) for b in edge_bips), clause, key,
              lambda: "%s encoding list has %s entries, tree has %d edges (or entries are not the edges' objects)" % (
                  tag, None if enc is None else len(enc), len(edge_bips)))
