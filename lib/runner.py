"""Shared runner: sharding, seeds, evidence, replay files, known findings, exit codes.

Contract (see DESIGN.md section 1):
  exit 0  property held on everything explored (KNOWN-FINDING lines allowed)
  exit 1  a line `VIOLATION property=<id> replay=<path>` was printed
  exit 2  harness problem (`HARNESS-ERROR ...`), never a violation
"""
import collections
import hashlib
import importlib
import json
import os
import subprocess
import sys
import tempfile
import time
import traceback

VERIF = os.path.dirname(os.path.dirname(os.path.abspath(__file__)))
REPO_SRC = os.environ.get("VERIF_REPO_SRC", "/repo/src")  # override only for development / mutant runs
PY = "/venv/bin/python"

TIERS = ("quick", "thorough")


USER_RECURSION_LIMIT = 1000   # CPython's default


class Violation(Exception):
    """Raised by an oracle when the property is broken on the current case."""

    def __init__(self, clause, key, detail=""):
        Exception.__init__(self, "%s [%s] %s" % (clause, key, detail))
        self.clause = clause
        self.key = key
        self.detail = detail


class HarnessError(Exception):
    pass


def sha(obj):
    try:
        text = json.dumps(obj, sort_keys=True, default=str)
    except RecursionError:
        text = _flat_dump(obj)     # nesting deeper than the C encoder's limit (specs of very deep trees)
    return hashlib.sha1(text.encode("utf8", "surrogatepass")).hexdigest()[:16]


def _flat_dump(obj):
    """Iterative, order-preserving serialisation for hashing only (dict keys sorted)."""
    out = []
    stack = [obj]
    while stack:
        o = stack.pop()
        if isinstance(o, dict):
            out.append("{")
            stack.append("}")
            for k in sorted(o, key=str, reverse=True):
                stack.append(o[k])
                stack.append("%s:" % (k,))
        elif isinstance(o, (list, tuple)):
            out.append("[")
            stack.append("]")
            stack.extend(reversed(o))
        else:
            out.append(o if isinstance(o, str) else repr(o))
    return ",".join(out)


def load_known(prop):
    path = os.path.join(VERIF, "known_findings.json")
    if not os.path.exists(path):
        return []
    data = json.load(open(path))
    out = []
    for e in data.get("findings", []):
        if e.get("property") == prop and e.get("status", "open") == "open":
            out.append(e)
    return out


def innermost_dendropy_frame(exc):
    """(function name, file basename, lineno) of the innermost traceback frame inside dendropy, or None."""
    tb = exc.__traceback__
    best = None
    last = None
    while tb is not None:
        fn = tb.tb_frame.f_code.co_filename
        last = fn
        if os.sep + "dendropy" + os.sep in fn:
            best = (tb.tb_frame.f_code.co_name, os.path.basename(fn), tb.tb_lineno)
        tb = tb.tb_next
    return best, last


def exc_in_dendropy(exc):
    """True when the innermost frame of the traceback is library code (or code called by it, e.g. stdlib re/xml)."""
    best, last = innermost_dendropy_frame(exc)
    if best is None:
        return False
    # innermost frame in /verif means our own code raised
    return not (last or "").startswith(VERIF)


class Ctx(object):
    """Per-shard collector handed to every sub-check."""

    MAX_SAMPLES = 6

    def __init__(self, prop, tier, seed, shard, nshards, deadline=None):
        self.prop = prop
        self.tier = tier
        self.seed = seed
        self.shard = shard
        self.nshards = nshards
        self.evaluations = 0
        self.nt = set()
        self.classes = collections.Counter()
        self.samples = []
        self.sample_keys = set()
        self.known = load_known(prop)
        self.known_hits = collections.Counter()
        self.violations = []
        self.notes = {}
        self.deadline = deadline
        self.skipped_by_time = 0
        self.replay_mode = False

    # -- bookkeeping -------------------------------------------------------
    def nontrivial(self, canon):
        self.nt.add(sha(canon))

    def cls(self, name, n=1):
        self.classes[name] += n

    def sample(self, kind, obj):
        """Keep the first literal case of each kind (up to MAX_SAMPLES kinds per shard)."""
        if kind in self.sample_keys or len(self.samples) >= self.MAX_SAMPLES:
            return
        self.sample_keys.add(kind)
        try:
            s = json.loads(json.dumps(obj, default=str))
        except Exception:
            s = repr(obj)
        self.samples.append({"kind": kind, "case": s})

    def out_of_time(self):
        if self.deadline is not None and time.time() > self.deadline:
            self.skipped_by_time += 1
            return True
        return False

    # -- verdicts ----------------------------------------------------------
    def is_known(self, key):
        for e in self.known:
            if e["key"] == key:
                return e
        return None

    def fail(self, clause, key, detail=""):
        """Report a broken clause.  Returns (after counting) when `key` is a listed known finding, else raises."""
        e = self.is_known(key)
        if e is not None:
            self.known_hits[key] += 1
            return
        raise Violation(clause, key, detail)

    def check(self, cond, clause, key, detail=""):
        if not cond:
            if callable(detail):
                try:
                    detail = detail()
                except Exception as e:  # a broken message must never turn a violation into a harness error
                    detail = "(detail unavailable: %s: %s)" % (type(e).__name__, e)
            self.fail(clause, key, detail)
            return False
        return True

    def call(self, clause, fn, *args, **kwargs):
        """Call library code; any exception not listed in `allowed` whose innermost frame is library code is a violation.

        kwargs `_allowed` (tuple of exception classes) are re-raised to the caller untouched."""
        allowed = kwargs.pop("_allowed", ())
        # the harness runs with a raised recursion limit for its own recursive helpers; library code gets what a user's
        # interpreter gives it: the default 1000 frames counted from a shallow caller
        old_limit = sys.getrecursionlimit()
        depth = 0
        f = sys._getframe()
        while f is not None:
            depth += 1
            f = f.f_back
        lowered = depth + USER_RECURSION_LIMIT < old_limit
        if lowered:
            sys.setrecursionlimit(depth + USER_RECURSION_LIMIT)
        try:
            return fn(*args, **kwargs)
        except allowed:
            raise
        except Violation:
            raise
        except RecursionError as e:
            self.fail(clause, "%s:RecursionError" % clause, "RecursionError")
            raise KnownSkip()
        except Exception as e:
            if exc_in_dendropy(e):
                best, _ = innermost_dendropy_frame(e)
                key = "%s:%s@%s" % (clause, type(e).__name__, best[0])
                self.fail(clause, key, "%s: %s (at %s:%s)" % (type(e).__name__, e, best[1], best[2]))
                raise KnownSkip()
            raise
        finally:
            if lowered:
                sys.setrecursionlimit(old_limit)


class KnownSkip(Exception):
    """Raised after a *known* finding made the rest of the current case meaningless; the case is abandoned quietly."""


# ---------------------------------------------------------------------------
# Hypothesis drivers
# ---------------------------------------------------------------------------

def hyp_settings(max_examples, shrink=True, stateful_step_count=None):
    from hypothesis import settings, HealthCheck, Phase
    phases = [Phase.explicit, Phase.generate] + ([Phase.shrink] if shrink else [])
    kw = dict(max_examples=max_examples, deadline=None, database=None, derandomize=False,
              report_multiple_bugs=False, suppress_health_check=list(HealthCheck), phases=phases,
              print_blob=False)
    if stateful_step_count is not None:
        kw["stateful_step_count"] = stateful_step_count
    return settings(**kw)


def run_given(ctx, name, strategy, fn, max_examples, shrink=True):
    """Drive fn(ctx, case) with Hypothesis.  `case` must be JSON-serialisable plain data.

    Stops at the first (shrunk) unknown violation and records it; known findings are counted and skipped."""
    import hypothesis
    from hypothesis import given
    cur = {}
    max_examples = max(1, int(max_examples))

    def test(case):
        # once a failure has been seen the time budget no longer short-circuits cases (shrinking must see a
        # deterministic test); before that, cases beyond the budget are skipped and counted
        if not cur.get("failed") and ctx.out_of_time():
            return
        cur["case"] = case
        ctx.evaluations += 1
        try:
            fn(ctx, case)
        except KnownSkip:
            return
        except Violation as v:
            if not cur.get("failed"):
                cur["failed"] = True
                cur["first"] = (case, v)
            raise

    test = given(strategy)(test)
    test = hyp_settings(max_examples, shrink=shrink)(test)
    test = hypothesis.seed(ctx.seed * 1000 + ctx.shard * 37 + (int(sha(name), 16) % 1000) * 100003)(test)
    t0 = time.time()
    try:
        test()
    except Violation as v:
        record_violation(ctx, name, cur.get("case"), v)
    except hypothesis.errors.HypothesisException as e:
        if cur.get("first") is not None:
            # a violation was observed but did not reproduce while shrinking (non-deterministic behaviour of the code
            # under test): report the first observed failing case
            record_violation(ctx, name, cur["first"][0], cur["first"][1])
        else:
            raise HarnessError("hypothesis error in %s: %r" % (name, e))
    except RecursionError as e:
        raise HarnessError("RecursionError in %s: %s" % (name, traceback.format_exc()[-1500:]))
    except Exception as e:
        if exc_in_dendropy(e):
            best, _ = innermost_dendropy_frame(e)
            v = Violation("unexpected_exception", "%s:%s@%s" % (name, type(e).__name__, best[0]),
                          "%s: %s (at %s:%s)" % (type(e).__name__, e, best[1], best[2]))
            record_violation(ctx, name, cur.get("case"), v)
        else:
            raise HarnessError("error in %s: %s" % (name, traceback.format_exc()[-2500:]))
    ctx.notes.setdefault("sub_wall_s", {})[name] = round(time.time() - t0, 2)


def run_items(ctx, name, items, fn):
    """Exhaustive driver: the shard handles items[shard::nshards]; first unknown violation per sub-check is recorded."""
    t0 = time.time()
    n = 0
    for i, case in enumerate(items):
        if i % ctx.nshards != ctx.shard:
            continue
        if ctx.out_of_time():
            continue
        n += 1
        ctx.evaluations += 1
        try:
            fn(ctx, case)
        except KnownSkip:
            continue
        except Violation as v:
            record_violation(ctx, name, case, v)
            break
        except Exception as e:
            if exc_in_dendropy(e):
                best, _ = innermost_dendropy_frame(e)
                v = Violation("unexpected_exception", "%s:%s@%s" % (name, type(e).__name__, best[0]),
                              "%s: %s (at %s:%s)" % (type(e).__name__, e, best[1], best[2]))
                record_violation(ctx, name, case, v)
                break
            raise HarnessError("error in %s: %s" % (name, traceback.format_exc()[-2500:]))
    ctx.notes.setdefault("sub_wall_s", {})[name] = round(time.time() - t0, 2)
    ctx.notes.setdefault("exhaustive_items", {})[name] = n


def record_violation(ctx, name, case, v):
    rec = {"property": ctx.prop, "sub": name, "clause": v.clause, "key": v.key, "detail": str(v.detail)[:2000],
           "case": case}
    if ctx.replay_mode:
        ctx.violations.append(dict(rec, path=None))
        return
    d = os.path.join(VERIF, "replays", ctx.prop)
    os.makedirs(d, exist_ok=True)
    path = os.path.join(d, "%s.json" % sha([name, case]))
    with open(path, "w") as f:
        json.dump(rec, f, indent=1, default=str)
    ctx.violations.append(dict(rec, path=os.path.relpath(path, VERIF)))


# ---------------------------------------------------------------------------
# Entry points
# ---------------------------------------------------------------------------

def assert_repo_tree():
    if REPO_SRC not in sys.path[:2]:
        sys.path.insert(0, REPO_SRC)
    import dendropy
    f = os.path.realpath(dendropy.__file__)
    if not f.startswith(os.path.realpath(REPO_SRC) + os.sep):
        raise HarnessError("dendropy imported from %s, not from %s" % (f, REPO_SRC))


def load_check(prop):
    sys.path.insert(0, VERIF)
    for fn in sorted(os.listdir(os.path.join(VERIF, "checks"))):
        if fn.lower().startswith(prop.lower() + "_") and fn.endswith(".py"):
            return importlib.import_module("checks." + fn[:-3])
    raise HarnessError("no check module for %s" % prop)


def shard_main(prop, tier, seed, shard, nshards, out, budget_s):
    """Run one shard in this process and write its partial result to `out`."""
    t0 = time.time()
    res = {"shard": shard, "status": "ok"}
    try:
        assert_repo_tree()
        mod = load_check(prop)
        ctx = Ctx(prop, tier, seed, shard, nshards, deadline=t0 + budget_s)
        if shard == 0:
            replay_corpus(ctx, mod)
        mod.run(ctx)
        res.update(evaluations=ctx.evaluations, nt=sorted(ctx.nt), classes=dict(ctx.classes), samples=ctx.samples,
                   known_hits=dict(ctx.known_hits), violations=ctx.violations, notes=ctx.notes,
                   skipped_by_time=ctx.skipped_by_time)
    except HarnessError as e:
        res.update(status="harness_error", error=str(e))
    except BaseException as e:  # noqa
        res.update(status="harness_error", error=traceback.format_exc()[-3000:])
    res["wall_s"] = round(time.time() - t0, 2)
    with open(out, "w") as f:
        json.dump(res, f, default=str)
    return 0


def replay_corpus(ctx, mod):
    """Regression tier: re-execute the saved failing inputs of repaired defects and of the seeded changes
    (corpus/replays/<prop>_*.json, written by tools/fix_regress.py and tools/seed_regress.py) before any generated
    case, bypassing Hypothesis.  They pass on the tree they were saved from; one that fails is reported with the
    corpus file itself as the replay file.  A file the current check can no longer interpret is counted as stale
    (tools/selftest.py reports those), never as a violation."""
    d = os.path.join(VERIF, "corpus", "replays")
    if not os.path.isdir(d):
        return
    stats = ctx.notes.setdefault("regression_inputs", {"replayed": 0, "stale": 0})
    for fn_ in sorted(os.listdir(d)):
        if not (fn_.startswith(ctx.prop + "_") and fn_.endswith(".json")):
            continue
        path = os.path.join(d, fn_)
        try:
            rec = json.load(open(path))
            fn = mod.SUBCHECKS[rec["sub"]]
            case = rec["case"]
        except Exception:
            stats["stale"] += 1
            continue
        stats["replayed"] += 1
        ctx.evaluations += 1
        ctx.cls("regression_input")
        v = None
        try:
            fn(ctx, case)
        except KnownSkip:
            pass
        except Violation as e:
            v = e
        except RecursionError:
            stats["stale"] += 1
        except Exception as e:
            if exc_in_dendropy(e):
                best, _ = innermost_dendropy_frame(e)
                v = Violation("unexpected_exception", "%s:%s@%s" % (rec["sub"], type(e).__name__, best[0]),
                              "%s: %s (at %s:%s)" % (type(e).__name__, e, best[1], best[2]))
            else:
                stats["stale"] += 1
        if v is not None:
            ctx.violations.append({"property": ctx.prop, "sub": rec["sub"], "clause": v.clause, "key": v.key,
                                   "detail": str(v.detail)[:2000], "case": case,
                                   "path": os.path.relpath(path, VERIF)})


def merge_notes(dst, src):
    for k, v in src.items():
        if isinstance(v, dict):
            d = dst.setdefault(k, {})
            for kk, vv in v.items():
                if isinstance(vv, (int, float)) and not isinstance(vv, bool):
                    if k in ("sub_wall_s", "max"):
                        d[kk] = max(d.get(kk, 0), vv)
                    else:
                        d[kk] = d.get(kk, 0) + vv
                else:
                    d.setdefault(kk, vv)
        elif isinstance(v, (int, float)) and not isinstance(v, bool):
            dst[k] = dst.get(k, 0) + v
        else:
            dst.setdefault(k, v)


def main(argv=None):
    import argparse
    ap = argparse.ArgumentParser()
    ap.add_argument("prop")
    ap.add_argument("--tier", default=os.environ.get("VERIF_TIER", "quick"), choices=TIERS)
    ap.add_argument("--replay")
    ap.add_argument("--shard")
    ap.add_argument("--out")
    ap.add_argument("--shards", type=int)
    ap.add_argument("--budget", type=float)
    ap.add_argument("--no-evidence", action="store_true")
    a = ap.parse_args(argv)
    prop = a.prop.upper()
    try:
        seed = int(os.environ.get("VERIF_SEED", "1") or "1")
    except ValueError:
        seed = 1
    os.environ.setdefault("PYTHONHASHSEED", "0")

    if a.replay:
        return replay_main(prop, a.replay)

    mod_budget = {"quick": 150.0, "thorough": 2400.0}
    if a.shard:
        i, n = a.shard.split("/")
        return shard_main(prop, a.tier, seed, int(i), int(n), a.out, a.budget or mod_budget[a.tier])

    t0 = time.time()
    try:
        assert_repo_tree()
        mod = load_check(prop)
    except HarnessError as e:
        print("HARNESS-ERROR property=%s %s" % (prop, e))
        return 2
    except Exception:
        print("HARNESS-ERROR property=%s import failed: %s" % (prop, traceback.format_exc()[-2000:]))
        return 2
    cfg = getattr(mod, "CONFIG", {})
    nshards = a.shards or cfg.get("shards", {}).get(a.tier, 8 if a.tier == "quick" else 16)
    budget = a.budget or cfg.get("budget_s", {}).get(a.tier, mod_budget[a.tier])
    tmp = tempfile.mkdtemp(prefix="vp_%s_" % prop)
    procs = []
    env = dict(os.environ)
    env["PYTHONHASHSEED"] = "0"
    env["PYTHONPATH"] = REPO_SRC + os.pathsep + VERIF + os.pathsep + os.path.join(VERIF, ".deps")
    env["DENDROPY_VERIF"] = "1"
    try:
        for i in range(nshards):
            out = os.path.join(tmp, "shard_%d.json" % i)
            log = open(os.path.join(tmp, "shard_%d.log" % i), "w")
            p = subprocess.Popen([PY, os.path.join(VERIF, "vp_check.py"), prop, "--tier", a.tier, "--shard",
                                  "%d/%d" % (i, nshards), "--out", out, "--budget", str(budget)],
                                 env=env, stdout=log, stderr=subprocess.STDOUT, cwd=VERIF)
            procs.append((p, out, log))
        results = []
        hard = budget * 3 + 120
        for p, out, log in procs:
            try:
                p.wait(timeout=max(5, hard - (time.time() - t0)))
            except subprocess.TimeoutExpired:
                p.kill()
                p.wait()
            log.close()
            if os.path.exists(out):
                results.append(json.load(open(out)))
            else:
                tail = open(log.name).read()[-1500:]
                results.append({"status": "harness_error", "error": "shard produced no result (rc=%s): %s" % (p.returncode, tail)})
    finally:
        for p, _, _ in procs:
            if p.poll() is None:
                p.kill()
    import shutil
    shutil.rmtree(tmp, ignore_errors=True)
    return finish(prop, a.tier, seed, mod, results, time.time() - t0, nshards, write_evidence=not a.no_evidence)


def finish(prop, tier, seed, mod, results, wall, nshards, write_evidence=True):
    errs = [r for r in results if r.get("status") != "ok"]
    evaluations = sum(r.get("evaluations", 0) for r in results)
    nt = set()
    classes = collections.Counter()
    samples = []
    known_hits = collections.Counter()
    violations = []
    notes = {}
    skipped = 0
    for r in results:
        nt.update(r.get("nt", []))
        classes.update(r.get("classes", {}))
        known_hits.update(r.get("known_hits", {}))
        violations.extend(r.get("violations", []))
        merge_notes(notes, r.get("notes", {}))
        skipped += r.get("skipped_by_time", 0)
    seen_kinds = set()
    for r in results:
        for s in r.get("samples", []):
            if s["kind"] not in seen_kinds and len(samples) < 12:
                seen_kinds.add(s["kind"])
                samples.append(s)
    cfg = getattr(mod, "CONFIG", {})
    # de-duplicate violations by key, keep first
    byk = collections.OrderedDict()
    for v in violations:
        byk.setdefault(v["key"], v)
    ev = {
        "property_id": prop, "tier": tier, "seed": seed, "level": "exploration",
        "coverage": {
            "evaluations": evaluations,
            "distinct_nontrivial": len(nt),
            "rule": cfg.get("rule", ""),
            "samples": samples if samples else ["(no sample recorded)"],
            "class_histogram": dict(sorted(classes.items())),
            "exhaustive": bool(cfg.get("exhaustive", {}).get(tier, False)) if isinstance(cfg.get("exhaustive"), dict) else False,
            "exhaustive_part": cfg.get("exhaustive_note", {}).get(tier, "") if isinstance(cfg.get("exhaustive_note"), dict) else "",
            "shards": nshards,
            "known_findings_hit": dict(known_hits),
            "cases_skipped_by_time_budget": skipped,
            "notes": notes,
        },
        "assumptions": cfg.get("assumptions", []),
        "wall_s": round(wall, 2),
        "violations": len(byk),
    }
    if write_evidence:
        os.makedirs(os.path.join(VERIF, "evidence"), exist_ok=True)
        with open(os.path.join(VERIF, "evidence", "%s.json" % prop), "w") as f:
            json.dump(ev, f, indent=1, default=str)
    known = load_known(prop)
    for e in known:
        n = known_hits.get(e["key"], 0)
        print("KNOWN-FINDING: property=%s %s (key=%s, hit %d times this run)" % (prop, e["what"], e["key"], n))
    print("%s tier=%s seed=%d evaluations=%d distinct_nontrivial=%d wall=%.1fs skipped_by_time=%d" % (
        prop, tier, seed, evaluations, len(nt), wall, skipped))
    if errs:
        for r in errs:
            print("HARNESS-ERROR property=%s %s" % (prop, (r.get("error") or "")[-1500:]))
        return 2
    if byk:
        for v in byk.values():
            print("  clause=%s key=%s detail=%s" % (v["clause"], v["key"], str(v["detail"])[:400]))
            print("VIOLATION property=%s replay=%s" % (prop, v["path"]))
        return 1
    if evaluations == 0 or len(nt) < 2:
        print("HARNESS-ERROR property=%s vacuous run: evaluations=%d distinct_nontrivial=%d" % (prop, evaluations, len(nt)))
        return 2
    return 0


def replay_main(prop, path):
    try:
        assert_repo_tree()
        mod = load_check(prop)
        rec = json.load(open(path))
        ctx = Ctx(prop, "quick", 0, 0, 1)
        ctx.replay_mode = True
        fn = mod.SUBCHECKS[rec["sub"]]
    except Exception:
        print("HARNESS-ERROR property=%s replay setup failed: %s" % (prop, traceback.format_exc()[-2000:]))
        return 2
    try:
        try:
            fn(ctx, rec["case"])
        except KnownSkip:
            pass
    except Violation as v:
        print("  clause=%s key=%s detail=%s" % (v.clause, v.key, str(v.detail)[:1000]))
        print("VIOLATION property=%s replay=%s" % (prop, path))
        return 1
    except Exception as e:
        if exc_in_dendropy(e):
            best, _ = innermost_dendropy_frame(e)
            print("  clause=unexpected_exception %s: %s at %s" % (type(e).__name__, e, best))
            print("VIOLATION property=%s replay=%s" % (prop, path))
            return 1
        print("HARNESS-ERROR property=%s %s" % (prop, traceback.format_exc()[-2000:]))
        return 2
    for k, n in ctx.known_hits.items():
        print("KNOWN-FINDING: property=%s key=%s (replayed case hits a listed finding)" % (prop, k))
    print("replay OK: property holds on %s" % path)
    return 0
