"""Construction-based Hypothesis strategies producing plain-data tree specs, plus builders of DendroPy objects.

spec node = {"t": taxon index | None, "lab": label | None, "len": length | None, "ch": [specs]}
"""
from hypothesis import strategies as st

LENGTH_PATTERNS = ("none", "unit", "smallint", "dyadic", "float", "partial")


def leaf(t):
    return {"t": t, "lab": None, "len": None, "ch": []}


def internal(ch):
    return {"t": None, "lab": None, "len": None, "ch": ch}


@st.composite
def shapes(draw, min_leaves=1, max_leaves=8, max_arity=4, family=None, unifurcations=False, permute=True,
           binary=False):
    """A tree shape with n leaves carrying taxon indices 0..n-1 (in drawn order)."""
    n = draw(st.integers(min_leaves, max_leaves))
    fam = family or draw(st.sampled_from(["random", "random", "random", "caterpillar", "balanced", "star"]))
    if binary:
        max_arity = 2
        if fam == "star":
            fam = "random"
    ids = list(range(n))
    if permute and n > 1:
        ids = draw(st.permutations(ids))
    nodes = [leaf(i) for i in ids]
    if n == 1:
        root = nodes[0]
    elif fam == "star" and n >= 2:
        root = internal(nodes)
    elif fam == "caterpillar":
        cur = nodes[0]
        for x in nodes[1:]:
            cur = internal([cur, x] if draw(st.booleans()) else [x, cur])
        root = cur
    elif fam == "balanced":
        level = nodes
        while len(level) > 1:
            nxt = []
            for k in range(0, len(level) - 1, 2):
                nxt.append(internal([level[k], level[k + 1]]))
            if len(level) % 2:
                nxt.append(level[-1])
            level = nxt
        root = level[0]
    else:
        while len(nodes) > 1:
            k = 2 if max_arity == 2 else draw(st.integers(2, min(max_arity, len(nodes))))
            # bias to binary
            if max_arity > 2 and k > 2 and draw(st.booleans()):
                k = 2
            i = draw(st.integers(0, len(nodes) - k))
            nodes[i:i + k] = [internal(nodes[i:i + k])]
        root = nodes[0]
    if unifurcations and draw(st.booleans()):
        root = _insert_unifurcations(draw, root)
    return root


def _insert_unifurcations(draw, root):
    allnodes = []
    def walk(s):
        allnodes.append(s)
        for c in s["ch"]:
            walk(c)
    walk(root)
    k = draw(st.integers(1, min(3, len(allnodes))))
    picks = draw(st.lists(st.integers(0, len(allnodes) - 1), min_size=k, max_size=k))
    for p in picks:
        nd = allnodes[p]
        # replace nd's content by a unifurcation above a copy of nd
        inner = {"t": nd["t"], "lab": nd["lab"], "len": nd["len"], "ch": nd["ch"]}
        nd["t"] = None
        nd["lab"] = None
        nd["len"] = None
        nd["ch"] = [inner]
        allnodes.append(inner)
    return root


def spec_nodes(spec):
    out = []
    stack = [spec]
    while stack:
        s = stack.pop()
        out.append(s)
        stack.extend(reversed(s["ch"]))
    return out


def n_leaves(spec):
    return sum(1 for s in spec_nodes(spec) if not s["ch"])


def length_value(pattern):
    if pattern == "unit":
        return st.just(1.0)
    if pattern == "smallint":
        return st.integers(0, 4).map(float)
    if pattern == "dyadic":
        return st.integers(0, 64).map(lambda k: k / 8.0)
    if pattern == "posdyadic":
        return st.integers(1, 64).map(lambda k: k / 8.0)
    if pattern == "zeroish":
        # many zero-length edges next to a few long ones
        return st.sampled_from([0.0, 0.0, 0.0, 1.0, 2.0, 5.0])
    if pattern == "decimal":
        # multiples of 0.05: sums along different paths coincide often, but only up to rounding
        return st.sampled_from([0.05, 0.1, 0.1, 0.15, 0.2, 0.2, 0.25, 0.3, 0.3, 0.4, 0.7])
    if pattern == "float":
        return st.one_of(st.floats(min_value=0.0, max_value=100.0, allow_nan=False, allow_infinity=False),
                         st.sampled_from([1e-12, 1e-6, 0.1, 0.2, 0.3, 1e6, 1e12, 3.141592653589793]))
    raise ValueError(pattern)


@st.composite
def with_lengths(draw, spec_strategy, patterns=LENGTH_PATTERNS, root_length=False):
    spec = draw(spec_strategy)
    pat = draw(st.sampled_from(list(patterns)))
    nodes = spec_nodes(spec)
    for k, s in enumerate(nodes):
        if k == 0:
            if root_length and pat != "none" and draw(st.booleans()):
                s["len"] = draw(length_value("dyadic" if pat == "partial" else pat))
            continue
        if pat == "none":
            s["len"] = None
        elif pat == "partial":
            s["len"] = draw(st.one_of(st.none(), length_value("dyadic")))
        else:
            s["len"] = draw(length_value(pat))
    return {"spec": spec, "lenpat": pat}


@st.composite
def namespace_history(draw, n, max_extra=3):
    """How the namespace the tree will use comes about.

    {"order": permutation of range(n+extra) giving the accession order of taxon indices (indices >= n are extra,
      unused taxa), "removed": extra indices removed after creation, "sort": None|"fwd"|"rev"|"reverse",
      "readd": optional indices whose bit is queried, which are removed and then added back as the same object}"""
    extra = draw(st.integers(0, max_extra))
    order = list(draw(st.permutations(list(range(n + extra)))))
    removed = []
    if extra:
        removed = sorted(draw(st.sets(st.integers(n, n + extra - 1))))
        if draw(st.booleans()):
            # an unused taxon joins first: the lowest bit of the namespace is then not on the tree
            order.remove(n)
            order.insert(0, n)
    sort = draw(st.sampled_from([None, None, "fwd", "rev", "reverse"]))
    hist = {"extra": extra, "order": order, "removed": removed, "sort": sort}
    if draw(st.integers(0, 3)) == 0:
        # taxa whose bit is looked up, that are then removed from the namespace and later added back (the SAME Taxon
        # object): they are accessioned again and own a new bit
        alive = [i for i in order if i not in removed]
        if alive:
            hist["readd"] = list(draw(st.lists(st.sampled_from(alive), min_size=1, max_size=2, unique=True)))
    if draw(st.integers(0, 3)) == 0:
        # every bit is looked up before the removals, and the namespace finally used is a shallow copy of the one built
        # (TaxonNamespace(other) / copy.copy: same Taxon objects, same bits)
        hist["copy"] = draw(st.sampled_from(["ctor", "copy"]))
    return hist


def plain_history(n):
    return {"extra": 0, "order": list(range(n)), "removed": [], "sort": None}


# ---------------------------------------------------------------------------
# builders (the only place DendroPy objects are constructed from specs)
# ---------------------------------------------------------------------------

def label_of(i, labels=None):
    return labels[i] if labels is not None else "T%d" % i


def build_namespace(hist, labels=None, **kw):
    """Returns (ns, taxa_by_index, expected_bit_by_index).  Expected bits come from our own accession counter."""
    import dendropy
    ns = dendropy.TaxonNamespace(**kw)
    taxa = {}
    bits = {}
    for acc, idx in enumerate(hist["order"]):
        t = dendropy.Taxon(label=label_of(idx, labels))
        ns.add_taxon(t)
        taxa[idx] = t
        bits[idx] = acc
    if hist.get("copy"):
        for t in list(ns):
            ns.taxon_bitmask(t)
    for idx in hist["removed"]:
        ns.remove_taxon(taxa[idx])
        del taxa[idx]
        del bits[idx]
    acc = len(hist["order"])
    for idx in hist.get("readd", ()):
        ns.taxon_bitmask(taxa[idx])
        ns.remove_taxon(taxa[idx])
    for idx in hist.get("readd", ()):
        ns.add_taxon(taxa[idx])
        bits[idx] = acc
        acc += 1
    if hist["sort"] == "fwd":
        ns.sort()
    elif hist["sort"] == "rev":
        ns.sort(reverse=True)
    elif hist["sort"] == "reverse":
        ns.reverse()
    if hist.get("copy") == "ctor":
        ns = dendropy.TaxonNamespace(ns)
    elif hist.get("copy") == "copy":
        import copy as _copy
        ns = _copy.copy(ns)
    return ns, taxa, bits


def inner_taxa_picks(max_picks=3):
    """Strategy: which internal nodes (index into the preorder list of internal nodes, 0 = seed) get a taxon of their
    own.  Empty in two thirds of the draws."""
    return st.one_of(st.just([]), st.just([]), st.lists(st.integers(0, 40), min_size=1, max_size=max_picks, unique=True))


def add_inner_taxa(tree, ns, picks):
    """Give drawn INTERNAL nodes (0 = the seed) taxa of their own, labelled I<k>, members of `ns` accessioned after
    everything else (as reading '((A,B)I1,C)I0;' with suppress_internal_node_taxa=False would).  Leaf-based oracles are
    unaffected: bipartitions, distances, path lengths speak about leaf taxa.  Returns the nodes touched."""
    if not picks:
        return []
    internals = []
    stack = [tree._seed_node]
    while stack:
        nd = stack.pop()
        if nd._child_nodes:
            internals.append(nd)
            stack.extend(reversed(nd._child_nodes))
    out = []
    for k, p in enumerate(picks):
        if not internals:
            break
        nd = internals[p % len(internals)]
        if nd.taxon is None:
            nd.taxon = ns.require_taxon(label="I%d" % k)
            out.append(nd)
    return out


def build_tree(spec, ns=None, taxa=None, is_rooted=None, labels=None):
    """Build a DendroPy tree from a spec using only constructors and add_child."""
    import dendropy
    if ns is None:
        n = 1 + max([s["t"] for s in spec_nodes(spec) if s["t"] is not None] + [-1])
        ns, taxa, _ = build_namespace(plain_history(n), labels)
    def mk(s):
        nd = dendropy.Node(edge_length=s["len"])
        if s["t"] is not None:
            nd.taxon = taxa[s["t"]]
        if s["lab"] is not None:
            nd.label = s["lab"]
        return nd
    root = mk(spec)
    stack = [(spec, root)]
    while stack:
        s, nd = stack.pop()
        for c in s["ch"]:
            cn = mk(c)
            nd.add_child(cn)
            stack.append((c, cn))
    tree = dendropy.Tree(seed_node=root, taxon_namespace=ns)
    tree.is_rooted = is_rooted
    return tree


def spec_to_newick(spec, labels=None):
    def rec(s):
        out = ""
        if s["ch"]:
            out = "(" + ",".join(rec(c) for c in s["ch"]) + ")"
        if s["t"] is not None:
            out += label_of(s["t"], labels)
        elif s["lab"] is not None:
            out += s["lab"]
        if s["len"] is not None:
            out += ":" + repr(s["len"])
        return out
    return rec(spec) + ";"


def permute_children(draw, spec):
    """A deep copy of spec with every child list permuted (drawn)."""
    def rec(s):
        ch = [rec(c) for c in s["ch"]]
        if len(ch) > 1:
            ch = list(draw(st.permutations(ch)))
        return {"t": s["t"], "lab": s["lab"], "len": s["len"], "ch": ch}
    return rec(spec)


def copy_spec(s):
    return {"t": s["t"], "lab": s["lab"], "len": s["len"], "ch": [copy_spec(c) for c in s["ch"]]}
