"""C12 helpers: identity walker over object graphs and full-state observations of trees, tree lists, matrices, namespaces.

Nothing here calls DendroPy's copy machinery or iterators under test; state is read through vars() and the raw links
used by lib/snapshot.py.  Observations are nested plain lists/dicts compared with ==; scalars are recorded as
[type name, repr] so that "equal" means bit-identical (1 != 1.0, True != 1)."""
import types

from lib.snapshot import snapshot

ATOMS = (str, bytes, int, float, complex, bool, type(None))
OPAQUE = (type, types.FunctionType, types.BuiltinFunctionType, types.MethodType, types.ModuleType)

# lazily filled caches that reads of a *shared* namespace may legitimately populate
NS_INTERNAL = ("_taxa", "_accession_index_taxon_map", "_taxon_accession_index_map", "_taxon_bitmask_map", "_annotations")
TAXON_LAZY = ("_lower_cased_label", "_annotations")


def _shared_by_design():
    from dendropy.datamodel import charstatemodel
    return (charstatemodel.StateAlphabet, charstatemodel.StateIdentity)


def _slots(x):
    out = []
    for cls in type(x).__mro__:
        for s in getattr(cls, "__slots__", ()) or ():
            if isinstance(s, str) and hasattr(x, s):
                out.append(s)
    return out


def reach(root, skip_attrs=()):
    """dict id -> (object, access path) of every *mutable* object reachable from root.

    Tuples / frozensets are descended into but not counted; strings, numbers, None, classes, functions and the
    state alphabets / state identities (shared singletons by design) are neither counted nor entered."""
    shared = _shared_by_design()
    seen = {}
    seen_immut = {}
    stack = [(root, "<root>")]
    while stack:
        x, path = stack.pop()
        if isinstance(x, ATOMS) or isinstance(x, OPAQUE) or isinstance(x, shared):
            continue
        if isinstance(x, (tuple, frozenset)):
            if id(x) in seen_immut:
                continue
            seen_immut[id(x)] = x
            for k, e in enumerate(x):
                stack.append((e, "%s(%d)" % (path, k)))
            continue
        if id(x) in seen:
            continue
        seen[id(x)] = (x, path)
        if isinstance(x, dict):
            for k, (kk, vv) in enumerate(list(dict.items(x))):
                stack.append((kk, "%s{key%d}" % (path, k)))
                stack.append((vv, "%s{%s}" % (path, kk if isinstance(kk, (str, int)) else "val%d" % k)))
        elif isinstance(x, (list, set)):
            for k, e in enumerate(list(x)):
                stack.append((e, "%s[%d]" % (path, k)))
        d = getattr(x, "__dict__", None)
        if isinstance(d, dict):
            for k in list(d):
                if k in skip_attrs:
                    continue
                stack.append((d[k], "%s.%s" % (path, k)))
        for s in _slots(x):
            if s not in skip_attrs:
                stack.append((getattr(x, s), "%s.%s" % (path, s)))
    return seen


def describe_shared(common, S, C, limit=4):
    out = []
    for i in sorted(common, key=lambda i: (len(C[i][1]), C[i][1]))[:limit]:
        out.append("%s reachable as copy%s and as source%s" % (type(C[i][0]).__name__, C[i][1][6:], S[i][1][6:]))
    return "; ".join(out) + (" (+%d more)" % (len(common) - limit) if len(common) > limit else "")


class Observer(object):
    """Turns object state into plain data.  Known objects (taxa, nodes, edges, trees, ...) are replaced by positional
    tags so that two isomorphic object graphs give equal observations exactly when they hold equal state."""

    MAXDEPTH = 14

    def __init__(self, roster, taxon_by="index", skip_attrs=()):
        from dendropy.datamodel import basemodel, charstatemodel, taxonmodel
        from dendropy.datamodel.treemodel import _bipartition
        self.basemodel = basemodel
        self.charstatemodel = charstatemodel
        self.taxonmodel = taxonmodel
        self.Bipartition = _bipartition.Bipartition
        self.tags = {}
        self.keep = []
        self.active = set()
        self.skip_attrs = set(skip_attrs)
        self.roster = list(roster)
        self.taxon_by = taxon_by
        for i, t in enumerate(self.roster):
            self.tag(t, ["taxon", i if taxon_by == "index" else ("label", t._label)])

    def tag(self, x, tag):
        if id(x) not in self.tags:
            self.tags[id(x)] = tag
            self.keep.append(x)

    # -- values ----------------------------------------------------------------
    def val(self, x, depth=0):
        if x is None:
            return None
        if isinstance(x, bool):
            return ["bool", repr(x)]
        if isinstance(x, (int, float, complex)):
            return [type(x).__name__, repr(x)]
        if isinstance(x, (str, bytes)):
            return [type(x).__name__, x if isinstance(x, str) else repr(x)]
        t = self.tags.get(id(x))
        if t is not None:
            return t
        if isinstance(x, OPAQUE):
            return ["opaque", getattr(x, "__name__", type(x).__name__)]
        cs = self.charstatemodel
        if isinstance(x, cs.StateIdentity):
            return ["state", str(x)]
        if isinstance(x, cs.StateAlphabet):
            return ["alphabet", getattr(x, "label", None), "".join(sorted(str(s) for s in x))]
        if depth > self.MAXDEPTH:
            return ["too-deep", type(x).__name__]
        if id(x) in self.active:
            return ["cycle", type(x).__name__]
        self.active.add(id(x))
        try:
            if isinstance(x, self.basemodel.AnnotationSet):
                return ["annset", self.val(x.target, depth + 1), [self.annotation(a, depth + 1) for a in x._item_list]]
            if isinstance(x, self.basemodel.Annotation):
                return ["annotation", self.annotation(x, depth + 1)]
            if isinstance(x, self.taxonmodel.Taxon):
                return ["taxon-not-in-roster", self.val(x._label), self.taxon_state(x)]
            if isinstance(x, dict):
                items = [[self.val(k, depth + 1), self.val(v, depth + 1)] for k, v in list(x.items())]
                if type(x) is dict:
                    return ["dict", items]
                return ["dict:" + type(x).__name__, items, self.attrs(x, depth + 1)]
            if isinstance(x, (list, tuple)):
                items = [self.val(e, depth + 1) for e in x]
                if type(x) in (list, tuple):
                    return [type(x).__name__, items]
                return ["list:" + type(x).__name__, items, self.attrs(x, depth + 1)]
            if isinstance(x, (set, frozenset)):
                import json
                items = sorted((self.val(e, depth + 1) for e in x), key=lambda o: json.dumps(o, sort_keys=True, default=str))
                return [type(x).__name__, items]
            if hasattr(x, "__dict__"):
                return ["obj:" + type(x).__name__, self.state(x, depth + 1)]
            return ["repr:" + type(x).__name__, repr(x)]
        finally:
            self.active.discard(id(x))

    def attrs(self, x, depth=0, skip=()):
        d = getattr(x, "__dict__", None) or {}
        out = []
        for k in sorted(d):
            if k == "_annotations" or k in skip or k in self.skip_attrs:
                continue
            out.append([k, self.val(d[k], depth + 1)])
        return out

    def state(self, x, depth=0, skip=()):
        return {"attrs": self.attrs(x, depth, skip), "ann": self.annotations(x, depth)}

    # -- annotations -----------------------------------------------------------
    def annotations(self, x, depth=0):
        d = getattr(x, "__dict__", None) or {}
        aset = d.get("_annotations")
        if aset is None:
            return {"target": "owner", "items": []}
        target = "owner" if aset.target is x else self.val(aset.target, depth + 1)
        return {"target": target, "items": [self.annotation(a, depth + 1) for a in aset._item_list]}

    def annotation(self, a, depth=0):
        try:
            value = self.val(a.value, depth + 1)
        except AttributeError as e:
            value = ["value-raises", "AttributeError"]
        bound = None
        if a.is_attribute:
            raw = a._value
            bound = [self.val(raw[0], depth + 1), self.val(raw[1], depth + 1)] if isinstance(raw, tuple) and len(raw) == 2 else ["?"]
        return {"name": self.val(a.name), "value": value, "is_attribute": self.val(a.is_attribute), "bound": bound,
                "hint": self.val(a.datatype_hint), "prefix": self.val(a.name_prefix), "namespace": self.val(a.namespace),
                "ref": self.val(a.annotate_as_reference), "hidden": self.val(a.is_hidden),
                "fmt": self.val(a.real_value_format_specifier), "sub": self.annotations(a, depth + 1)["items"]}

    # -- namespaces --------------------------------------------------------------
    def taxon_state(self, t):
        return {"attrs": self.attrs(t, 1, skip=TAXON_LAZY), "ann": self.annotations(t, 1)}

    def ns_container(self, ns):
        """State of the namespace object itself: order, accession numbers, own attributes and annotations; members are
        referred to by roster position, so a change *inside* a shared Taxon does not show here."""
        self.tag(ns, ["ns"])
        taxa = list(ns._taxa)
        acc = ns._taxon_accession_index_map
        inv = ns._accession_index_taxon_map
        return {"attrs": self.attrs(ns, 1, skip=NS_INTERNAL), "ann": self.annotations(ns, 1),
                "order": [self.val(t) for t in taxa],
                "accession": [[self.val(t), acc.get(t)] for t in taxa],
                "accession_inverse": [[k, self.val(inv[k])] for k in sorted(inv)]}

    def ns_taxa(self, ns):
        seen = set(id(t) for t in self.roster)
        extra = [t for t in ns._taxa if id(t) not in seen]
        return {"roster": [self.taxon_state(t) for t in self.roster], "later": [[self.val(t._label), self.taxon_state(t)] for t in extra]}

    # -- trees ------------------------------------------------------------------
    def register_tree(self, tree, j=0):
        rt, problems = snapshot(tree)
        nodes = list(rt.obj)
        self.tag(tree, ["tree", j])
        for i, nd in enumerate(nodes):
            self.tag(nd, ["node", j, i])
        for i, nd in enumerate(nodes):
            e = getattr(nd, "_edge", None)
            if e is not None:
                self.tag(e, ["edge", j, i])
                b = getattr(e, "_bipartition", None)
                if b is not None:
                    self.tag(b, ["bip", j, i])
        return rt, problems, nodes

    def register_origins(self, nodes, j):
        """Nodes reached through `extraction_source` back-references (set by extract_tree* on the nodes of an extracted
        tree) and everything hanging on them: the whole source-tree node graph, tagged positionally."""
        if "extraction_source" in self.skip_attrs:
            return []
        roots = []
        for nd in nodes:
            x = getattr(nd, "__dict__", {}).get("extraction_source")
            guard = 0
            while x is not None and getattr(x, "_parent_node", None) is not None and guard < 100000:
                x = x._parent_node
                guard += 1
            if x is not None and hasattr(x, "_child_nodes") and not any(x is r for r in roots):
                roots.append(x)
        found = []
        for r, root in enumerate(roots):
            stack = [root]
            seen = set()
            while stack:
                x = stack.pop()
                if id(x) in seen:
                    continue
                seen.add(id(x))
                i = len(found)
                found.append(x)
                self.tag(x, ["origin-node", j, i])
                e = getattr(x, "_edge", None)
                if e is not None:
                    self.tag(e, ["origin-edge", j, i])
                    b = getattr(e, "_bipartition", None)
                    if b is not None:
                        self.tag(b, ["origin-bip", j, i])
                stack.extend(reversed(list(getattr(x, "_child_nodes", []))))
        return found

    def tree_full(self, tree, j=0):
        rt, problems, nodes = self.register_tree(tree, j)
        origins = self.register_origins(nodes, j)
        out = {"problems": list(problems), "tree": self.state(tree), "nodes": [],
               "origin": [[self.val(x), self.state(x), None if getattr(x, "_edge", None) is None else self.state(x._edge)] for x in origins]}
        for nd in nodes:
            e = getattr(nd, "_edge", None)
            b = getattr(e, "_bipartition", None) if e is not None else None
            out["nodes"].append({"node": self.state(nd), "edge": None if e is None else self.state(e),
                                 "bip": None if b is None else self.attrs(b, 1)})
        return out

    def tree_thin(self, tree, j=0):
        """What extract_tree documents as copied: structure, edge lengths, node labels, taxon associations (+ edge labels,
        rooting, weight, length type, tree label, which its code carries over)."""
        rt, problems, nodes = self.register_tree(tree, j)
        out = {"problems": list(problems),
               "tree": [self.val(tree._label), self.val(tree._is_rooted), self.val(tree.weight), self.val(tree.length_type)],
               "nodes": []}
        for nd in nodes:
            e = nd._edge
            out["nodes"].append([self.val(nd._parent_node), [self.val(c) for c in nd._child_nodes], self.val(nd._label),
                                 self.val(nd.taxon), self.val(e.length), self.val(e._label)])
        return out

    # -- matrices ---------------------------------------------------------------
    def matrix_full(self, m):
        self.tag(m, ["matrix"])
        tsm = m._taxon_sequence_map
        ctypes = []
        def reg_ct(ct):
            if ct is not None and id(ct) not in self.tags and not isinstance(ct, ATOMS):
                self.tag(ct, ["ctype", len(ctypes)])
                ctypes.append(ct)
        for ct in list(getattr(m, "character_types", []) or []):
            reg_ct(ct)
        in_roster = set(id(r) for r in self.roster)
        ordered = [t for t in self.roster if t in tsm] + [t for t in tsm if id(t) not in in_roster]
        if self.taxon_by != "index":
            # rows compared across namespaces: an order that does not depend on either namespace
            ordered.sort(key=lambda t: str(t._label))
        for t in ordered:
            self.tag(tsm[t], ["seq", self.val(t)])
            for ct in tsm[t]._character_types:
                reg_ct(ct)
        rows = []
        for t in ordered:
            s = tsm[t]
            rows.append({"taxon": self.val(t), "symbols": [str(v) if not isinstance(v, ATOMS) else self.val(v) for v in s._character_values],
                         "seq": self.state(s)})
        return {"type": type(m).__name__, "matrix": self.state(m, skip=("_taxon_sequence_map",)), "rows": rows,
                "map_order": [self.val(t) for t in tsm], "ctypes": [self.state(ct) for ct in ctypes]}
