"""Atheris campaign for C20 (thorough tier only; started by checks/c20_readers.py, one process per shard).

Input bytes: byte 0 selects the (schema, reader kwargs, matrix class) variant, the rest is the text (UTF-8, undecodable
bytes replaced).  Every input goes through checks.c20_readers.run_text, i.e. exactly the oracle of the Hypothesis
sub-checks.  A violation does not stop the campaign: it is appended as one JSON line to --out (the parent replays each
line through the ordinary `soup` sub-check, so a replay file never depends on Atheris), and the search continues.

usage: c20_atheris.py --out FILE --corpus DIR [--known KEY ...] -- <libFuzzer flags, e.g. -runs=20000 -seed=7>
"""
import json
import os
import sys
import warnings

VERIF = os.path.dirname(os.path.dirname(os.path.abspath(__file__)))
REPO_SRC = os.environ.get("VERIF_REPO_SRC", "/repo/src")
sys.path.insert(0, REPO_SRC)
sys.path.insert(1, VERIF)
sys.path.insert(2, os.path.join(VERIF, ".deps"))
sys.setrecursionlimit(3000)
warnings.simplefilter("ignore")

import atheris  # noqa: E402

with atheris.instrument_imports(include=["dendropy"]):
    import dendropy  # noqa: E402,F401
    import dendropy.dataio.nexusreader  # noqa: E402,F401
    import dendropy.dataio.newickreader  # noqa: E402,F401
    import dendropy.dataio.phylipreader  # noqa: E402,F401
    import dendropy.dataio.fastareader  # noqa: E402,F401
    import dendropy.dataio.nexusyielder  # noqa: E402,F401
    import dendropy.dataio.newickyielder  # noqa: E402,F401

from lib import runner  # noqa: E402
from checks import c20_readers as C  # noqa: E402

VARIANTS = [
    ("newick", {}, None),
    ("nexus", {}, "dna"),
    ("nexus", {}, "standard"),
    ("phylip", {"data_type": "dna", "strict": False, "interleaved": False}, "dna"),
    ("phylip", {"data_type": "dna", "strict": True, "interleaved": False}, "dna"),
    ("phylip", {"data_type": "dna", "strict": False, "interleaved": True}, "dna"),
    ("phylip", {"data_type": "standard", "strict": True, "interleaved": True}, "standard"),
    ("fasta", {"data_type": "dna"}, "dna"),
    ("fasta", {"data_type": "protein"}, "protein"),
    ("phylip", {"data_type": "continuous", "strict": False, "interleaved": False}, "continuous"),
    ("phylip", {"data_type": "continuous", "strict": False, "interleaved": True}, "continuous"),
    ("phylip", {"data_type": "protein", "strict": False, "interleaved": False}, "protein"),
    ("nexus", {}, "continuous"), ("fasta", {"data_type": "standard"}, "standard"),
]


def variant_of(schema, kwargs):
    for i, (s, kw, _) in enumerate(VARIANTS):
        if s == schema and all(kwargs.get(k) == v for k, v in kw.items()):
            return i
    for i, (s, _, _) in enumerate(VARIANTS):
        if s == schema:
            return i
    return 0


def decode(data):
    if not data:
        return VARIANTS[0], ""
    v = VARIANTS[data[0] % len(VARIANTS)]
    return v, data[1:].decode("utf-8", "replace")


class FuzzCtx(runner.Ctx):
    """Collects instead of stopping: unknown violations are written to the out file once per key."""

    def __init__(self, out):
        runner.Ctx.__init__(self, "C20", "thorough", 0, 0, 1)
        self.out = out
        self.seen = set()
        self.current = None

    def fail(self, clause, key, detail=""):
        if self.is_known(key) is not None:
            self.known_hits[key] += 1
            return
        if key in self.seen:
            return
        self.seen.add(key)
        with open(self.out, "a") as f:
            f.write(json.dumps({"key": key, "clause": clause, "detail": str(detail)[:500], "case": self.current}) + "\n")


def main():
    argv = sys.argv[1:]
    split = argv.index("--") if "--" in argv else len(argv)
    mine, fuzz_args = argv[:split], argv[split + 1:]
    out = mine[mine.index("--out") + 1]
    corpus = mine[mine.index("--corpus") + 1]
    ctx = FuzzCtx(out)
    stats = {"execs": 0}

    def test_one_input(data):
        (schema, kwargs, mt), text = decode(data)
        if len(text) > 1500:
            return
        stats["execs"] += 1
        ctx.current = {"text": text, "schema": schema, "kwargs": kwargs, "matrix_type": mt}
        C.run_text(ctx, text, schema, kwargs, mt)
        if stats["execs"] % 500 == 0:
            with open(out + ".stats", "w") as f:
                json.dump({"execs": stats["execs"], "classes": dict(ctx.classes), "known_hits": dict(ctx.known_hits)}, f)

    atheris.Setup([sys.argv[0]] + fuzz_args + [corpus], test_one_input)
    atheris.Fuzz()


if __name__ == "__main__":
    main()
