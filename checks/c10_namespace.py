"""C10 - taxon namespaces keep a stable one-to-one taxon/bit map and exact label lookups.

Stateful, model-based: every operation is applied to a real TaxonNamespace and to a list model
[(taxon object, bit fixed at the time of joining)].  After every step the full invariant is evaluated."""
import copy

from hypothesis import strategies as st

from lib import runner, stateful

POOL = ["a", "A", "b", "B", "ab", "Ab", "aB", "c", "x y", "x_y", "Z9", "z9", "é", "É", "t1", "T1",
        # letters whose casefold() differs from lower(): the documented rule is str.lower() on both sides
        "Straße", "STRASSE", "strasse", "ſ", "s", "ς", "σ", "Σ",
        # the empty string is a label like any other (falsy: a truthiness test instead of 'is None' loses it)
        ""]
PLAIN = [i for i, l in enumerate(POOL) if l.isascii() and l.isalnum()]

CONFIG = {
    "shards": {"quick": 8, "thorough": 16},
    "budget_s": {"quick": 120, "thorough": 1500},
    "rule": ("Hypothesis rule-based state machine over TaxonNamespace operations (add/new/require/remove/discard/"
             "del/sort/reverse/clear/relabel/toggle-mutable/copy routes) with labels from a 24-label pool containing "
             "duplicates and case variants; after every step the list/bit reference model is compared (bits, bitmask "
             "<-> taxa, bitstring, newick rendering, all lookup functions under the three case settings). "
             "Non-trivial = history in which a removal, sort, reverse, clear or copy that changed/depended on state is "
             "followed by at least one further checked step; distinct = (case flag, op-name+argument sequence)."),
    "assumptions": ["labels are drawn from a fixed pool of 16 strings (collisions are the point)",
                    "bit values are not prescribed, only single-bit, stable while a member, pairwise distinct"],
}

LBL = st.integers(0, len(POOL) - 1)
CS = st.sampled_from([None, True, False])
PROBE = st.fixed_dictionaries({"pl": LBL, "pcs": CS, "sel": st.integers(0, 2 ** 12 - 1), "pl2": LBL})


def with_probe(d):
    d = dict(d)
    d.update({"pl": LBL, "pcs": CS, "sel": st.integers(0, 2 ** 12 - 1), "pl2": LBL})
    return st.fixed_dictionaries(d)


RULES = {
    "add_new": with_probe({"l": LBL}),
    "add_existing": with_probe({"i": st.integers(0, 30)}),
    "add_removed": with_probe({"i": st.integers(0, 30)}),
    # bulk entry point: new Taxon objects (possibly the same object twice), current members and removed ones mixed
    "add_taxa": with_probe({"items": st.lists(st.tuples(st.sampled_from(["new", "same_new", "member", "removed"]), st.integers(0, 30)),
                                              min_size=1, max_size=5)}),
    "new_taxon": with_probe({"l": LBL}),
    "new_taxa": with_probe({"ls": st.lists(LBL, max_size=3)}),
    "require": with_probe({"l": LBL, "cs": CS}),
    "remove": with_probe({"i": st.integers(0, 30)}),
    "remove_foreign": with_probe({"l": LBL}),
    "remove_label": with_probe({"l": LBL, "cs": CS, "first": st.booleans()}),
    "discard_label": with_probe({"l": LBL, "cs": CS, "first": st.booleans()}),
    "delitem": with_probe({"i": st.integers(0, 30)}),
    "sort": with_probe({"rev": st.booleans()}),
    "reverse": with_probe({}),
    "clear": with_probe({"really": st.integers(0, 3)}),
    "relabel": with_probe({"i": st.integers(0, 30), "l": LBL}),
    "toggle_mutable": with_probe({}),
    "read_tree": with_probe({"ls": st.lists(st.sampled_from(PLAIN), min_size=2, max_size=4, unique=True),
                             "how": st.sampled_from(["Tree.get", "TreeList.get", "yield_from_files"])}),
    "copy": with_probe({"route": st.sampled_from(["copy", "deepcopy", "ctor", "clone0", "clone2"]),
                        "switch": st.booleans()}),
}

INIT = st.fixed_dictionaries({"cs": st.booleans(), "start": st.lists(LBL, max_size=5)})


def parse_groups(s):
    """Parse the fixed output shape of bitmask_as_newick_string: '((a, b), (c));' or '(a,b,c);' -> list of label lists."""
    s = s.strip()
    if not s.endswith(";"):
        raise ValueError(s)
    s = s[:-1]
    if s.startswith("((") or s.startswith("(()"):
        inner = s[1:-1]
        # split at '), (' at depth 0
        depth = 0
        parts = []
        curp = ""
        for ch in inner:
            if ch == "(":
                depth += 1
                if depth == 1:
                    curp = ""
                    continue
            if ch == ")":
                depth -= 1
                if depth == 0:
                    parts.append(curp)
                    continue
            if depth >= 1:
                curp += ch
        return [[x.strip() for x in p.split(",") if x.strip()] for p in parts]
    return [[x.strip() for x in s[1:-1].split(",") if x.strip()]]


def esc(label):
    """Rendering of a pool label by the NEXUS token escaper with default arguments (spaces -> underscores,
    labels containing underscores are quoted)."""
    if "_" in label:
        return "'%s'" % label
    return label.replace(" ", "_")


class Interp(object):
    def __init__(self, ctx, init):
        import dendropy
        self.d = dendropy
        self.ctx = ctx
        self.cs = bool(init["cs"])
        self.ns = dendropy.TaxonNamespace(is_case_sensitive=self.cs)
        self.model = []  # [taxon, bit]
        self.graveyard = []  # taxon objects that were members once and were removed
        self.interesting = False
        self.after_interesting = 0
        self.sig = [self.cs]
        for l in init["start"]:
            t = self.ns.new_taxon(POOL[l])
            self._joined(t)
        self.check_all({"pl": 0, "pcs": None, "sel": 5, "pl2": 1})

    # -- model helpers -----------------------------------------------------
    def _joined(self, t):
        bm = self.ns.taxon_bitmask(t)
        self.model.append([t, bm])

    def matches(self, label, cs):
        eff = self.cs if cs is None else cs
        if eff:
            return [m[0] for m in self.model if m[0].label == label]
        return [m[0] for m in self.model if str(m[0].label).lower() == str(label).lower()]

    def V(self, cond, clause, detail=""):
        if not cond:
            self.ctx.fail(clause, "C10." + clause, detail() if callable(detail) else detail)

    # -- ops ---------------------------------------------------------------
    def step(self, op, a):
        d = self.d
        ns = self.ns
        ctx = self.ctx
        ctx.cls("op:" + op)
        Imm = d.utility.error.ImmutableTaxonNamespaceError
        n0 = len(self.model)
        self.sig.append([op, dict((k, a[k]) for k in sorted(a) if k not in ("pl", "pcs", "sel", "pl2"))])
        if op == "add_new":
            t = d.Taxon(label=POOL[a["l"]])
            try:
                ns.add_taxon(t)
                self.V(ns.is_mutable, "immutable_never_grows", "add_taxon succeeded on immutable namespace")
                self._joined(t)
            except Imm:
                self.V(not ns.is_mutable, "unexpected_immutable_error")
        elif op == "add_taxa":
            fresh = []
            seq = []
            for kind, k in a["items"]:
                if kind == "new" or (kind == "same_new" and not fresh):
                    t = d.Taxon(label=POOL[k % len(POOL)])
                    fresh.append(t)
                    seq.append(t)
                elif kind == "same_new":
                    seq.append(fresh[k % len(fresh)])      # the same new object once more
                elif kind == "member" and self.model:
                    seq.append(self.model[k % len(self.model)][0])
                elif kind == "removed":
                    cand = [t for t in self.graveyard if all(t is not m[0] for m in self.model) and all(t is not x for x in seq)]
                    if cand:
                        seq.append(cand[k % len(cand)])
            if not seq:
                return
            newcomers = []
            for t in seq:
                if all(t is not m[0] for m in self.model) and all(t is not x for x in newcomers):
                    newcomers.append(t)
            try:
                ns.add_taxa(seq)
                self.V(ns.is_mutable or not newcomers, "immutable_never_grows", "add_taxa succeeded on immutable namespace")
                for t in newcomers:
                    self._joined(t)
                if len(newcomers) < len([t for t in seq if all(t is not m[0] for m in self.model[:len(self.model) - len(newcomers)])]):
                    ctx.cls("add_taxa:same_new_object_repeated")
            except Imm:
                self.V(not ns.is_mutable, "unexpected_immutable_error")
                # nothing may have joined before the refusal... the documented behaviour says nothing: adopt what is there
                for t in newcomers:
                    if any(t is x for x in ns):
                        self._joined(t)
        elif op == "add_removed":
            # a Taxon object that was a member before joins again: it must get a bit of its own like any newcomer
            cand = [t for t in self.graveyard if all(t is not m[0] for m in self.model)]
            if not cand:
                return
            t = cand[a["i"] % len(cand)]
            try:
                ns.add_taxon(t)
                self.V(ns.is_mutable, "immutable_never_grows", "add_taxon succeeded on immutable namespace")
                self._joined(t)
                ctx.cls("readded_removed_taxon")
                self.interesting = True
            except Imm:
                self.V(not ns.is_mutable, "unexpected_immutable_error")
        elif op == "add_existing":
            if not self.model:
                return
            t = self.model[a["i"] % len(self.model)][0]
            ns.add_taxon(t)  # no-op also on immutable namespaces
        elif op == "new_taxon":
            try:
                t = ns.new_taxon(POOL[a["l"]])
                self.V(ns.is_mutable, "immutable_never_grows", "new_taxon succeeded on immutable namespace")
                self.V(t.label == POOL[a["l"]], "new_taxon_label")
                self._joined(t)
            except Imm:
                self.V(not ns.is_mutable, "unexpected_immutable_error")
        elif op == "new_taxa":
            try:
                ts = ns.new_taxa([POOL[l] for l in a["ls"]])
                self.V(ns.is_mutable, "immutable_never_grows", "new_taxa succeeded on immutable namespace")
                self.V([t.label for t in ts] == [POOL[l] for l in a["ls"]], "new_taxa_labels")
                for t in ts:
                    self._joined(t)
            except Imm:
                self.V(not ns.is_mutable, "unexpected_immutable_error")
        elif op == "require":
            label = POOL[a["l"]]
            want = self.matches(label, a["cs"])
            try:
                t = ns.require_taxon(label, is_case_sensitive=a["cs"])
                if want:
                    self.V(t is want[0], "require_returns_first_match",
                           lambda: "label=%r cs=%r got %r want %r" % (label, a["cs"], t, want[0]))
                else:
                    self.V(ns.is_mutable, "immutable_never_grows", "require_taxon created on immutable namespace")
                    self.V(all(t is not m[0] for m in self.model) and t.label == label, "require_creates_new")
                    self._joined(t)
            except Imm:
                self.V((not ns.is_mutable) and not want, "unexpected_immutable_error")
        elif op == "remove":
            if not self.model:
                return
            i = a["i"] % len(self.model)
            t = self.model[i][0]
            ns.remove_taxon(t)
            del self.model[i]
            self.graveyard.append(t)
            self.interesting = True
        elif op == "remove_foreign":
            t = d.Taxon(label=POOL[a["l"]])
            try:
                ns.remove_taxon(t)
                self.V(False, "remove_nonmember_raises", "remove_taxon(non-member) did not raise")
            except ValueError:
                pass
        elif op in ("remove_label", "discard_label"):
            label = POOL[a["l"]]
            want = self.matches(label, a["cs"])
            if a["first"]:
                want = want[:1]
            try:
                if op == "remove_label":
                    ns.remove_taxon_label(label, is_case_sensitive=a["cs"], first_match_only=a["first"])
                    self.V(bool(want), "remove_label_missing_raises", "no LookupError for absent label %r" % label)
                else:
                    ns.discard_taxon_label(label, is_case_sensitive=a["cs"], first_match_only=a["first"])
            except LookupError:
                self.V(op == "remove_label" and not want, "unexpected_lookup_error")
                want = []
            if want:
                ids = set(id(t) for t in want)
                self.graveyard.extend(want)
                self.model = [m for m in self.model if id(m[0]) not in ids]
                self.interesting = True
        elif op == "delitem":
            if not self.model:
                return
            i = a["i"] % len(self.model)
            del ns[i]
            self.graveyard.append(self.model[i][0])
            del self.model[i]
            self.interesting = True
        elif op == "sort":
            ns.sort(reverse=a["rev"])
            before = [id(m[0]) for m in self.model]
            self.model.sort(key=lambda m: m[0].label, reverse=a["rev"])
            if before != [id(m[0]) for m in self.model]:
                self.interesting = True
        elif op == "reverse":
            ns.reverse()
            self.model.reverse()
            if len(self.model) > 1:
                self.interesting = True
        elif op == "clear":
            if a.get("really", 0) != 0:
                return
            ns.clear()
            if self.model:
                self.interesting = True
            self.graveyard.extend(m[0] for m in self.model)
            self.model = []
        elif op == "relabel":
            if not self.model:
                return
            t = self.model[a["i"] % len(self.model)][0]
            t.label = POOL[a["l"]]
        elif op == "toggle_mutable":
            ns.is_mutable = not ns.is_mutable
        elif op == "read_tree":
            # a reader is handed the namespace: known labels resolve to members, unknown ones join (only if mutable)
            if self.cs:
                return  # readers default to case-insensitive label matching; only exercised on such namespaces
            labels = []
            for l in a["ls"]:
                if POOL[l].lower() not in [x.lower() for x in labels]:
                    labels.append(POOL[l])   # one occurrence per taxon in a tree
            if len(labels) < 2:
                return
            unknown = []
            for l in labels:
                if not self.matches(l, None) and l.lower() not in [u.lower() for u in unknown]:
                    unknown.append(l)
            text = "(" + ",".join(labels) + ");"
            import io
            try:
                if a["how"] == "Tree.get":
                    d.Tree.get(data=text, schema="newick", taxon_namespace=ns)
                elif a["how"] == "TreeList.get":
                    d.TreeList.get(data=text, schema="newick", taxon_namespace=ns)
                else:
                    list(d.Tree.yield_from_files([io.StringIO(text)], schema="newick", taxon_namespace=ns))
                self.V(ns.is_mutable or not unknown, "immutable_never_grows",
                       lambda: "reading %r into an immutable namespace added members: now %r" % (text, [t.label for t in ns]))
            except Imm:
                self.V((not ns.is_mutable) and bool(unknown), "unexpected_immutable_error")
            known_ids = set(id(m[0]) for m in self.model)
            newcomers = [t for t in ns if id(t) not in known_ids]
            if ns.is_mutable:
                self.V(sorted(t.label.lower() for t in newcomers) == sorted(u.lower() for u in unknown), "read_adds_exactly_unknown_labels",
                       lambda: "text %r: new members %r, unknown labels %r" % (text, [t.label for t in newcomers], unknown))
            else:
                self.V(not newcomers, "immutable_never_grows",
                       lambda: "immutable namespace gained %r by reading %r" % ([t.label for t in newcomers], text))
            for t in newcomers:
                self._joined(t)
            if newcomers:
                ctx.cls("read_tree:added_members")
            if not ns.is_mutable:
                ctx.cls("read_tree:immutable_namespace")
        elif op == "copy":
            route = a["route"]
            if route == "copy":
                c = copy.copy(ns)
            elif route == "deepcopy":
                c = copy.deepcopy(ns)
            elif route == "ctor":
                c = d.TaxonNamespace(ns)
            else:
                c = ns.clone(int(route[-1]))
            self.V(c is not ns, "copy_is_new_object")
            self.V(len(c) == len(self.model), "copy_same_size", lambda: "%d vs %d" % (len(c), len(self.model)))
            deep = route in ("deepcopy", "clone2")
            newmodel = []
            for k, m in enumerate(self.model):
                if k >= len(c):
                    break
                ct = c[k]
                if deep:
                    self.V(ct is not m[0], "deepcopy_taxa_are_new")
                else:
                    self.V(ct is m[0], "shallow_copy_shares_taxa")
                self.V(ct.label == m[0].label, "copy_labels_equal")
                bm = c.taxon_bitmask(ct)
                self.V(bm == m[1], "copy_keeps_bits",
                       lambda: "route=%s taxon %r: copy bit %s original bit %s" % (route, ct.label, bin(bm), bin(m[1])))
                newmodel.append([ct, m[1]])
            self.V(c.is_case_sensitive == ns.is_case_sensitive, "copy_keeps_case_flag")
            if self.interesting:
                self.ctx.cls("copy_after_removal_or_sort")
            if a["switch"]:
                self.ns = c
                self.model = newmodel
                if deep:
                    self.graveyard = []
                self.interesting = True
        else:
            raise runner.HarnessError("unknown op " + op)
        self.check_all(a)
        self.ctx.cls("steps_checked")
        self.ctx.cls("members_at_check:%s" % ("0" if not self.model else "1-3" if len(self.model) <= 3 else "4-7" if len(self.model) <= 7 else "8+"))
        if self.interesting:
            self.after_interesting += 1
        if len(self.sig) == 6:
            self.ctx.sample("history", {"case_sensitive": self.cs, "ops": self.sig[1:]})

    def finish(self):
        if self.after_interesting >= 2:
            self.ctx.nontrivial(self.sig)

    # -- invariant ---------------------------------------------------------
    def check_all(self, a):
        ns = self.ns
        model = self.model
        V = self.V
        V(len(ns) == len(model), "membership_size", lambda: "len(ns)=%d model=%d" % (len(ns), len(model)))
        V(all(x is m[0] for x, m in zip(list(ns), model)), "membership_order",
          lambda: "ns=%r model=%r" % ([t.label for t in ns], [m[0].label for m in model]))
        seen = {}
        for t, bit in model:
            V(t in ns, "member_contained")
            bm = ns.taxon_bitmask(t)
            V(bm > 0 and bm & (bm - 1) == 0, "single_bit", lambda: "mask %s" % bin(bm))
            V(bm == bit, "bit_stable", lambda: "taxon %r had %s now %s" % (t.label, bin(bit), bin(bm)))
            V(bm == 1 << ns.accession_index(t), "bit_matches_accession_index",
              lambda: "taxon %r: mask %s but accession index %r" % (t.label, bin(bm), ns.accession_index(t)))
            V(bm not in seen, "bit_unique", lambda: "taxa %r and %r share %s" % (t.label, seen[bm].label, bin(bm)))
            seen[bm] = t
        # subset <-> bitmask
        subset = [m for k, m in enumerate(model) if (a["sel"] >> k) & 1]
        rest = [m for k, m in enumerate(model) if not (a["sel"] >> k) & 1]
        want_mask = 0
        for t, bit in subset:
            want_mask |= bit
        got = ns.taxa_bitmask(taxa=[m[0] for m in subset])
        V(got == want_mask, "taxa_bitmask_is_or", lambda: "got %s want %s" % (bin(got), bin(want_mask)))
        if subset:
            # a set of taxa given with repetitions is still that set
            rep = [m[0] for m in subset] + [subset[a["pl"] % len(subset)][0], subset[0][0]]
            got2 = ns.taxa_bitmask(taxa=rep)
            V(got2 == want_mask, "taxa_bitmask_is_or", lambda: "taxa given with repetitions: got %s want %s" % (bin(got2), bin(want_mask)))
            labs = [m[0].label for m in subset]
            got3 = ns.taxa_bitmask(labels=labs + labs[:1], is_case_sensitive=True)
            want3 = 0
            for m in model:
                if m[0].label in labs:
                    want3 |= m[1]
            V(got3 == want3, "taxa_bitmask_by_labels", lambda: "labels %r: got %s want %s" % (labs + labs[:1], bin(got3), bin(want3)))
        back = ns.bitmask_taxa_list(want_mask)
        V(len(back) == len(subset) and set(id(t) for t in back) == set(id(m[0]) for m in subset), "bitmask_taxa_list",
          lambda: "got %r want %r" % ([t.label for t in back], [m[0].label for m in subset]))
        bs = ns.bitmask_as_bitstring(want_mask)
        ones = set(i for i, ch in enumerate(reversed(bs)) if ch == "1")
        V(set(bs) <= set("01") and ones == set(i for i in range(want_mask.bit_length()) if (want_mask >> i) & 1),
          "bitstring", lambda: "mask %s rendered %r" % (bin(want_mask), bs))
        if model and all(m[0].label != "" for m in model):
            # (an empty label renders as an empty token, which names nothing: the textual clause needs non-empty labels)
            self.check_newick(want_mask, subset, rest)
        # lookups
        label = POOL[a["pl"]]
        cs = a["pcs"]
        want = self.matches(label, cs)
        g = ns.get_taxon(label, is_case_sensitive=cs)
        V((g is None and not want) or (want and g is want[0]), "get_taxon",
          lambda: "label=%r cs=%r got=%r want=%r" % (label, cs, g, [t.label for t in want]))
        f = ns.findall(label, is_case_sensitive=cs)
        V(len(f) == len(want) and all(x is y for x, y in zip(f, want)), "findall",
          lambda: "label=%r cs=%r got=%r want=%r" % (label, cs, [t.label for t in f], [t.label for t in want]))
        V(ns.has_taxon_label(label, is_case_sensitive=cs) == bool(want), "has_taxon_label")
        label2 = POOL[a["pl2"]]
        want2 = self.matches(label2, cs)
        V(ns.has_taxa_labels([label, label2], is_case_sensitive=cs) == (bool(want) and bool(want2)), "has_taxa_labels")
        gt = ns.get_taxa([label], is_case_sensitive=cs)
        V(len(gt) == len(want) and all(x is y for x, y in zip(gt, want)), "get_taxa_single")
        gt2 = ns.get_taxa([label, label2], is_case_sensitive=cs)
        wantset = set(id(t) for t in want) | set(id(t) for t in want2)
        V(len(gt2) == len(wantset) and set(id(t) for t in gt2) == wantset, "get_taxa_pair",
          lambda: "labels=%r cs=%r got=%r" % ([label, label2], cs, [t.label for t in gt2]))
        # first_match_only: for each label the first member that matches under the CALL's case rule, in label order
        gf = ns.get_taxa([label, label2], is_case_sensitive=cs, first_match_only=True)
        wantf = [w[0] for w in (want, want2) if w]
        V(len(gf) == len(wantf) and all(x is y for x, y in zip(gf, wantf)), "get_taxa_first_match_only",
          lambda: "labels=%r cs=%r got=%r want=%r" % ([label, label2], cs, [t.label for t in gf], [t.label for t in wantf]))
        bit_of = dict((id(m[0]), m[1]) for m in model)
        for fm in (False, True):
            wantm = 0
            for w in (want, want2):
                for t in (w[:1] if fm else w):
                    wantm |= bit_of[id(t)]
            gm = ns.taxa_bitmask(labels=[label, label2], is_case_sensitive=cs, first_match_only=fm)
            V(gm == wantm, "taxa_bitmask_by_labels_with_case_rule",
              lambda: "labels=%r cs=%r first_match_only=%r got %s want %s" % ([label, label2], cs, fm, bin(gm), bin(wantm)))
            if model:
                bp = ns.taxa_bipartition(labels=[label, label2], is_case_sensitive=cs, first_match_only=fm)
                V(bp.leafset_bitmask == wantm, "taxa_bipartition_by_labels_with_case_rule",
                  lambda: "labels=%r cs=%r first_match_only=%r got %s want %s" % ([label, label2], cs, fm, bin(bp.leafset_bitmask), bin(wantm)))
        if want or want2:
            self.ctx.cls("lookup_hit")
        else:
            self.ctx.cls("lookup_miss")

    def check_newick(self, mask, subset, rest):
        ns = self.ns
        for fn in (ns.bitmask_as_newick_string, ns.split_as_newick_string):
            s = fn(mask)
            try:
                groups = parse_groups(s)
            except Exception:
                self.V(False, "newick_rendering_shape", "unparseable rendering %r" % s)
                return
            sub = sorted(esc(m[0].label) for m in subset)
            oth = sorted(esc(m[0].label) for m in rest)
            if len(groups) == 1:
                # the undivided form is used for the empty set and for the full set
                ok = sorted(groups[0]) == sorted(sub + oth) and (not sub or not oth or False)
                if sub and oth:
                    ok = False
            else:
                g0, g1 = sorted(groups[0]), sorted(groups[1])
                ok = (g0 == sub and g1 == oth) or (g0 == oth and g1 == sub)
            self.V(ok, "newick_rendering",
                   lambda: "mask %s over members %r (bits %r) rendered %r; subset=%r rest=%r" % (
                       bin(mask), [m[0].label for m in self.model], [m[1].bit_length() - 1 for m in self.model], s, sub, oth))


SUBCHECKS = {"machine": stateful.replay(Interp)}


def run(ctx):
    quick = ctx.tier == "quick"
    total = 2400 if quick else 32000
    steps = 40 if quick else 80
    stateful.run_machine(ctx, "machine", Interp, INIT, RULES, total // ctx.nshards, steps)
