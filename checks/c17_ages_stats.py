"""C17 - node ages, the ultrametricity check and tree statistics match their definitions.

Oracle: our own recursions on the RefTree snapshot (distance to descendant tips, distance from the root, explicit
root-to-tip sums, edge-crossing counts) and our own implementations of the published statistics (N-bar, Sackin,
Colless, B1, treeness, Pybus-Harvey gamma).  Nothing is compared with itself: the only library values used by a
verdict are the ones under test."""
import math
import warnings

from hypothesis import strategies as st

from lib import runner, shapes
from lib.snapshot import snapshot

CONFIG = {
    "shards": {"quick": 8, "thorough": 16},
    "budget_s": {"quick": 120, "thorough": 1500},
    "rule": ("ages: exactly-ultrametric trees from dyadic node heights (1-10 leaves quick / <= 40 thorough; polytomies, "
             "unifurcations, zero-length edges, optional root-edge length; a minority with general-float heights = "
             "ultrametric up to rounding) x ultrametricity_precision {default, 1e-9, 1e-7, 1e-5, 1e-3, 1e-2, 0.25, 1.0, 0, 0.0, "
             "None, False, -1, -1e-9} x forcing {none, max, min} x whole-case length SCALE {1, 2^-30, 2^-20, 2^-10, 2^10, 2^20, 1e-9, 1e-6, 1e-3, 1e3, 1e6} (lengths, "
             "shifts, tip ages, minimum_edge_length and numeric precision all multiplied; tolerances relative to the tree "
             "height) x perturbation {none; ONE edge (tip or clade) shifted by p/4, p/2, p "
             "(dyadic p only), 2p or 10p; TWO edges shifted in opposite directions by 0.6p..1.5p each} x route "
             "{calc_node_ages (all / internal only), node_ages (all / internal only), internal_node_ages, "
             "calc_node_ages with set_node_age_fn giving non-contemporaneous dyadic tip ages} followed by "
             "set_edge_lengths_from_node_ages on scrambled lengths (minimum_edge_length default/0/None/0.25/1). "
             "Accept/reject is decided from explicit root-to-tip sums (spread = max - min); the comparison is exact "
             "for dyadic trees and skipped inside a rounding band around p otherwise. "
             "depths: general trees (none of the lengths missing; unit/small int/dyadic/float) -> "
             "calc_node_root_distances, max_distance_from_root, minmax_leaf_distance_from_root, resolve_node_depths, "
             "resolve_node_ages, treemeasure.node_ages/node_depths/coalescence_ages/divergence_times, forced max/min "
             "ages and disabled check on non-ultrametric trees, num_lineages_at at every midpoint between consecutive "
             "node depths and beyond the deepest tip (any tree) and at node depths themselves (positive dyadic lengths: "
             "value must be the left or right limit; at the deepest tip the left limit, as in the documented LTT "
             "example). stats: general trees (all shapes; strictly binary ones also get Colless) x every "
             "normalisation of Sackin/Colless + N_bar, B1, treeness, Tree.length x a child-order permutation x the "
             "deprecated Tree.<stat>() aliases. gamma: strictly binary trees with >= 3 leaves (dyadic or float heights) x prec {default, "
             "1e-9 .. 1.0} x spelling {function keyword, function positional, Tree method} x deviation {none; one edge "
             "shifted by 0.25/0.5 x the CALLER'S prec = must return a value; by 2/4/10 x prec = must raise "
             "UltrametricityError}: Pybus-Harvey formula from inter-node intervals (exact trees; perturbation bound "
             "otherwise), child-order permutation, and the documented ValueError for non-binary / 2-leaf trees. "
             "history: ONE tree object (general or ultrametric lengths) is queried (num_lineages_at, root-distance "
             "functions, forced / disabled / checked calc_node_ages, node_ages, resolve_node_depths/ages), modified "
             "through public calls (scale_edges, edge.length assignment, remove_child of a leaf, new_child, "
             "reroot_at_node) and queried again for 1-3 rounds; every answer is compared with the oracle on a fresh "
             "snapshot of the current state (pybus_harvey_gamma, which documents reuse of existing ages, is left out). "
             "namespace: in every Hypothesis sub-check the tree's TaxonNamespace is, by a drawn mode, exactly the tip "
             "taxa, or also holds 1-4 unused taxa (accessioned before or after the tip taxa), or the taxa of extra tips "
             "that were attached and removed again with prune_taxa_with_labels, or the taxa of a second live tree on a "
             "different subset; the tree and therefore every reference value is the same in all modes. "
             "explicit: hand-written boundary cases incl. DESIGN.md's ((a:1.9,b:1):1,c:3.8) at precision 1.0. "
             "Non-trivial = >= 2 leaves (ages/depths) or >= 3 leaves (stats/gamma); distinct = (sub-check, ordered "
             "tree with lengths, options)."),
    "assumptions": ["all non-root edge lengths are present and non-negative for age/depth/treeness clauses",
                    "ultrametricity_precision None, False or negative disables the check (docstring + type line)",
                    "calc_node_ages with the check disabled and no forcing on a non-ultrametric tree: only 'age is "
                    "between the nearest and farthest descendant tip' is asserted (no definition is documented)",
                    "num_lineages_at boundary convention is undocumented: at a node depth only 'left or right limit' is "
                    "asserted, except at the deepest tip where the documented LTT example fixes the left limit; d = 0 "
                    "is not generated",
                    "Colless and gamma only on strictly bifurcating trees; Colless 'max' and gamma need >= 3 leaves",
                    "treeness only on trees whose total non-root length is positive; when the root edge has a length the value must "
                    "equal one of the two consistent readings (root edge left out of internal sum and total, or counted as "
                    "internal in both) - the docstring does not choose",
                    "gamma, ages, depths and lineage counts never involve the root edge (generated with and without a root length)",
                    "Tree.length counts every edge with a length, including the root edge (docstring: sum of edge lengths)",
                    "yule/pda normalisations are the published formulas (Blum, Francois & Janson 2006)"],
}

EULER = 0.57721566490153286060651209
PRECS = ["default", 1e-9, 1e-7, 1e-5, 1e-3, 1e-2, 0.25, 1.0, 0, 0.0, None, False, -1, -1e-9]
GAMMA_PRECS = ["default", 1e-9, 1e-7, 1e-5, 1e-3, 1e-2, 0.25, 1.0]   # prec of pybus_harvey_gamma (numeric only: documented)
MIN_LEAVES = [1, 2, 2, 3, 3, 3, 4]   # lower bound of the drawn leaf count (single-node and two-leaf trees stay in)
DEFAULT_PRECISION = 1e-5   # documented value of constants.DEFAULT_ULTRAMETRICITY_PRECISION


# ---------------------------------------------------------------------------
# plain-data helpers
# ---------------------------------------------------------------------------

def all_exact(values):
    """All values are integer multiples of one power of two q and sum(|v|)/q < 2**52: every sum or difference the tree
    can produce from them is then exact in a double, whatever the overall scale."""
    vals = [float(v) for v in values if v]
    if not vals:
        return True
    lowest = None
    for v in vals:
        if v != v or abs(v) == float("inf"):
            return False
        num, den = abs(v).as_integer_ratio()
        e = (num & -num).bit_length() - 1 - (den.bit_length() - 1)     # exponent of the lowest set bit
        lowest = e if lowest is None or e < lowest else lowest
    total = sum(abs(v) for v in vals)
    return total != float("inf") and math.frexp(total)[1] - lowest <= 52    # total < 2**(lowest + 52), no overflow


def is_exact(x):
    """Single value on the unit scale (kept for values that are not part of a scaled tree)."""
    return x == 0 or (abs(x) < 4096.0 and float(x * 1099511627776.0).is_integer())


def prec_info(prec):
    """-> (kwargs for the library, effective precision or None when the check is disabled)."""
    if prec == "default":
        return {}, DEFAULT_PRECISION
    kw = {"ultrametricity_precision": prec}
    if prec is None or prec is False:
        return kw, None
    if prec < 0:
        return kw, None
    return kw, float(prec)


def rclose(a, b, scale, tol=1e-12):
    """Purely relative closeness (no absolute floor): for trees whose whole scale may be 1e-9 or 1e6."""
    return a == b or abs(a - b) <= tol * (abs(a) + abs(b) + abs(scale))


def close(a, b, scale=0.0, tol=1e-10):
    return abs(a - b) <= tol * (1.0 + abs(a) + abs(b) + abs(scale))


def L(t, length):
    return {"t": t, "lab": None, "len": length, "ch": []}


def N(length, *ch):
    return {"t": None, "lab": None, "len": length, "ch": list(ch)}


def set_ultrametric_lengths(draw, spec, heights, unit, zero_ok=True, tip_heights=False):
    """Assign node heights bottom-up (leaves at 0 unless tip_heights) and edge length = parent height - child height."""
    inc_choices = [1, 1, 2, 3, 4, 8] + ([0] if zero_ok else [])

    def rec(s):
        if not s["ch"]:
            if tip_heights:
                s["h"] = draw(st.sampled_from([0, 0, 1, 2, 5])) * unit
            else:
                s["h"] = 0.0
            return s["h"]
        hs = [rec(c) for c in s["ch"]]
        if heights == "float":
            inc = draw(st.floats(min_value=0.001, max_value=10.0, allow_nan=False, allow_infinity=False))
        else:
            inc = draw(st.sampled_from(inc_choices)) * unit
        h = max(hs) + inc
        for c, hc in zip(s["ch"], hs):
            c["len"] = h - hc
        s["h"] = h
        return h
    rec(spec)
    spec["len"] = None
    return spec


def strip_heights(spec):
    hs = []
    for s in shapes.spec_nodes(spec):
        hs.append(s.pop("h", None))
    return hs


@st.composite
def ultra_specs(draw, min_leaves, max_leaves, heights="dyadic", binary=False, unif=True, tip_heights=False,
                zero_ok=True):
    spec = draw(shapes.shapes(min_leaves=min_leaves, max_leaves=max_leaves, max_arity=4, unifurcations=unif,
                              binary=binary))
    unit = draw(st.sampled_from([0.125, 0.5, 1.0]))
    set_ultrametric_lengths(draw, spec, heights, unit, zero_ok=zero_ok, tip_heights=tip_heights)
    tips = strip_heights(spec)
    return spec, tips


@st.composite
def age_cases(draw, max_leaves):
    heights = draw(st.sampled_from(["dyadic", "dyadic", "dyadic", "dyadic", "float"]))
    route = draw(st.sampled_from(["calc", "calc", "calc_internal", "node_ages", "node_ages_internal", "internal",
                                  "tipfn"]))
    spec, hs = draw(ultra_specs(draw(st.sampled_from(MIN_LEAVES)), max_leaves, heights=heights,
                                tip_heights=(route == "tipfn")))
    precs = list(PRECS)
    if heights == "float":
        precs = [p for p in precs if not (p == 0 and p is not False)]   # exactness is needed for precision 0
    prec = draw(st.sampled_from(precs))
    _, p = prec_info(prec)
    force = draw(st.sampled_from([None, None, None, "max", "min"]))
    family = draw(st.sampled_from(["exact", "exact", "one", "one", "one", "two", "two"]))
    m = len(shapes.spec_nodes(spec)) - 1
    shifts = []
    if m >= 1 and family != "exact":
        dyadic_p = p in (0.25, 1.0) and heights == "dyadic"
        if p is None:
            mags = [0.5, 3.0, 0.001]
        elif p == 0:
            mags = [2.0 ** -20, 2.0 ** -40, 1.0]
        elif family == "one":
            mags = [0.25 * p, 0.5 * p, 2.0 * p, 2.0 * p, 10.0 * p] + ([p] if dyadic_p else [])
        elif dyadic_p and draw(st.booleans()):
            mags = [p, p, 0.5 * p, 1.5 * p]          # everything stays a binary fraction: exact comparisons
        else:
            mags = [0.9 * p, 0.9 * p, 1.5 * p, 0.6 * p]
        if family == "one" or m < 2 or p is None or p == 0:
            shifts = [[draw(st.integers(0, m - 1)), draw(st.sampled_from([1, -1])) * draw(st.sampled_from(mags))]]
        else:
            i = draw(st.integers(0, m - 1))
            j = draw(st.integers(0, m - 2))
            if j >= i:
                j += 1
            shifts = [[i, draw(st.sampled_from(mags))], [j, -draw(st.sampled_from(mags))]]
    if draw(st.booleans()):
        spec["len"] = draw(st.sampled_from([0.5, 2.0, 0.0]))
    case = {"spec": spec, "heights": heights, "prec": prec, "force": force, "shifts": shifts, "route": route,
            "scramble": draw(st.sampled_from([None, 77.0, 0.0])),
            "min_len": draw(st.sampled_from(["default", "default", 0.0, None, 0.25, 1.0])),
            "dsel": draw(st.lists(st.integers(0, 400), min_size=10, max_size=10))}
    if route == "tipfn":
        # ages handed in for the leaves (documented use of set_node_age_fn); node order = spec_nodes order
        case["tip_ages"] = [h for h, s in zip(hs, shapes.spec_nodes(spec)) if not s["ch"]]
        case["shifts"] = []
        case["force"] = None
    return scale_age_case(case, draw(st.sampled_from(SCALES)))


SCALES = [1.0, 1.0, 1.0, 2.0 ** -30, 2.0 ** -20, 2.0 ** -10, 2.0 ** 10, 2.0 ** 20, 1e-9, 1e-6, 1e-3, 1e3, 1e6]


def scale_age_case(case, k):
    """The whole case multiplied by k: every length, shift, handed-in tip age, minimum_edge_length and the (numeric,
    positive) precision, so the precision keeps its position relative to the tree.  Powers of two keep every sum exact."""
    case["scale"] = k
    if k == 1.0:
        return case
    for x in shapes.spec_nodes(case["spec"]):
        if x["len"] is not None:
            x["len"] = x["len"] * k
    case["shifts"] = [[i, d * k] for i, d in case["shifts"]]
    if "tip_ages" in case:
        case["tip_ages"] = [a * k for a in case["tip_ages"]]
    pr = case["prec"]
    if isinstance(pr, float) and pr > 0:
        case["prec"] = pr * k
    if isinstance(case["min_len"], float) and case["min_len"] > 0:
        case["min_len"] = case["min_len"] * k
    if case["scramble"]:
        case["scramble"] = case["scramble"] * k
    return case


@st.composite
def depth_cases(draw, max_leaves):
    sl = draw(shapes.with_lengths(shapes.shapes(min_leaves=draw(st.sampled_from(MIN_LEAVES)), max_leaves=max_leaves,
                                                max_arity=4, unifurcations=True),
                                  patterns=("unit", "smallint", "dyadic", "posdyadic", "posdyadic", "float"),
                                  root_length=True))
    return {"spec": sl["spec"], "lenpat": sl["lenpat"], "leafonly": draw(st.sampled_from(["default", True, False])),
            "prec": draw(st.sampled_from([None, False, -1, "default", 1e-3])),
            "attr": draw(st.sampled_from(["default", "xdepth"])),
            "dsel": draw(st.lists(st.integers(0, 400), min_size=12, max_size=12))}


@st.composite
def stat_cases(draw, max_leaves):
    binary = draw(st.booleans())
    sl = draw(shapes.with_lengths(shapes.shapes(min_leaves=draw(st.sampled_from(MIN_LEAVES)), max_leaves=max_leaves,
                                                max_arity=4, unifurcations=not binary, binary=binary),
                                  patterns=("none", "unit", "smallint", "dyadic", "float", "float", "partial"),
                                  root_length=True))
    perm = shapes.permute_children(draw, sl["spec"])
    return {"spec": sl["spec"], "lenpat": sl["lenpat"], "perm": perm, "alias": draw(st.booleans())}


@st.composite
def gamma_cases(draw, max_leaves):
    """kind: ok = exactly ultrametric; within / beyond = ONE edge shifted by a multiple of the CALLER'S precision that is
    clearly below (x0.25, x0.5) / clearly above (x2, x4, x10) it, so the verdict depends on the precision passed in."""
    kind = draw(st.sampled_from(["ok", "ok", "within", "within", "beyond", "beyond", "nonbinary", "two_leaves"]))
    heights = draw(st.sampled_from(["dyadic", "dyadic", "float"]))
    if kind == "nonbinary":
        spec, _ = draw(ultra_specs(3, max_leaves, heights=heights, binary=False, unif=True, zero_ok=False))
    elif kind == "two_leaves":
        spec, _ = draw(ultra_specs(2, 2, heights=heights, binary=True, unif=False, zero_ok=False))
    else:
        spec, _ = draw(ultra_specs(3, max_leaves, heights=heights, binary=True, unif=False, zero_ok=(kind == "ok")))
    prec = draw(st.sampled_from(GAMMA_PRECS))
    if draw(st.booleans()):
        spec["len"] = draw(st.sampled_from([0.5, 2.0, 0.0, 3.25]))     # root edge: plays no part in gamma
    case = {"kind": kind, "spec": spec, "heights": heights, "prec": prec,
            "spelling": draw(st.sampled_from(["function_keyword", "function_positional", "tree_method"])),
            "perm": shapes.permute_children(draw, spec), "shift": None}
    if kind in ("within", "beyond"):
        m = len(shapes.spec_nodes(spec)) - 1
        p = DEFAULT_PRECISION if prec == "default" else prec
        f = draw(st.sampled_from([0.25, 0.5] if kind == "within" else [2.0, 4.0, 10.0]))
        case["shift"] = [draw(st.integers(0, m - 1)), draw(st.sampled_from([1, -1])) * f * p]
    return case


@st.composite
def ns_modes(draw):
    """What else lives in the namespace of the tree(s) of a case."""
    mode = draw(st.sampled_from(["exact", "extra", "pruned", "shared", "extra", "pruned"]))
    if mode == "exact":
        return {"mode": "exact"}
    return {"mode": mode, "k": draw(st.integers(1, 4)), "extras_first": draw(st.booleans()),
            "targets": draw(st.lists(st.integers(0, 50), min_size=1, max_size=4))}


@st.composite
def with_ns(draw, cases):
    case = draw(cases)
    case["ns"] = draw(ns_modes())
    return case


HISTORY_QUERIES = ["lineages", "lineages", "lineages", "depthfns", "max_distance", "minmax", "forced_max", "forced_min",
                   "ages_disabled", "ages_checked", "node_ages", "resolve"]
HISTORY_MUTATIONS = ["scale", "scale", "set_length", "add_length", "remove_leaf", "add_leaf", "reroot"]


@st.composite
def history_cases(draw, max_leaves):
    """One tree object queried, modified through public calls, and queried again (2-4 rounds)."""
    if draw(st.booleans()):
        spec, _ = draw(ultra_specs(draw(st.sampled_from([2, 3, 3, 4])), max_leaves, heights="dyadic", zero_ok=False))
        lenpat = "ultrametric"
    else:
        sl = draw(shapes.with_lengths(shapes.shapes(min_leaves=draw(st.sampled_from([2, 3, 3, 4])), max_leaves=max_leaves,
                                                    max_arity=4, unifurcations=True),
                                      patterns=("unit", "posdyadic", "posdyadic", "dyadic", "float")))
        spec, lenpat = sl["spec"], sl["lenpat"]
    queries = st.lists(st.sampled_from(HISTORY_QUERIES), min_size=1, max_size=3)
    steps = []
    for _ in range(draw(st.integers(1, 3))):
        mut = draw(st.sampled_from(HISTORY_MUTATIONS))
        if mut == "scale":
            val = draw(st.sampled_from([0.5, 0.5, 2.0, 0.25, 3.0]))
        else:
            val = draw(st.integers(1, 24)) / 8.0
        steps.append({"mut": mut, "target": draw(st.integers(0, 400)), "val": val, "flag": draw(st.booleans()),
                      "queries": draw(queries)})
    return {"spec": spec, "lenpat": lenpat, "first": draw(queries), "steps": steps,
            "dsel": draw(st.lists(st.integers(0, 400), min_size=12, max_size=12))}


# ---------------------------------------------------------------------------
# reference recursions (RefTree only)
# ---------------------------------------------------------------------------

def apply_shifts(spec, shifts):
    spec = shapes.copy_spec(spec)
    nodes = shapes.spec_nodes(spec)[1:]
    for idx, delta in shifts:
        s = nodes[idx % len(nodes)]
        new = s["len"] + delta
        if new < 0:
            new = s["len"] - delta
        s["len"] = new
    return spec


def ref_depths(rt):
    d = {}
    for i in rt.preorder():
        p = rt.parent[i]
        d[i] = 0.0 if p is None else d[p] + rt.length[i]
    return d


def ref_tip_ranges(rt, leaf_age=None):
    """per node: (nearest, farthest) descendant-tip distance (+ the tip's own age when leaf_age is given)."""
    lo, hi = {}, {}
    for i in rt.postorder():
        ch = rt.children[i]
        if not ch:
            lo[i] = hi[i] = 0.0 if leaf_age is None else leaf_age[i]
        else:
            lo[i] = min(lo[c] + rt.length[c] for c in ch)
            hi[i] = max(hi[c] + rt.length[c] for c in ch)
    return lo, hi


def local_first_child_deviation(rt, leaf_age=None):
    """Input predicate of the known finding: the largest |first-child path - sibling path| over all nodes when every
    node's age is taken along first children only."""
    age = {}
    worst = 0.0
    for i in rt.postorder():
        ch = rt.children[i]
        if not ch:
            age[i] = 0.0 if leaf_age is None else leaf_age[i]
            continue
        age[i] = age[ch[0]] + rt.length[ch[0]]
        for c in ch[1:]:
            worst = max(worst, abs(age[i] - (age[c] + rt.length[c])))
    return worst


def route_rejection_miss(ctx, case, worst, p, band, detail):
    """The library accepted a tree whose root-to-tip spread exceeds the precision.  Known finding only for inputs on
    which every first-child-vs-sibling comparison is within the precision; anything else alarms."""
    if worst <= p - band:
        ctx.cls("ages:known:global_spread_beyond_precision_but_local_comparisons_pass")
        ctx.sample("accepted_beyond_precision", case)
        ctx.fail("tree_beyond_precision_is_rejected", "C17.ultrametric_reject:local_comparisons_pass", detail)
    elif worst > p + band:
        ctx.fail("tree_beyond_precision_is_rejected", "C17.ultrametric_reject:other", detail)
    else:
        ctx.cls("ages:inside_rounding_band_no_verdict")


def rounding_band(rt, H):
    """Bound on the disagreement between two float evaluations of a root-to-tip spread: each side accumulates at most
    (depth) additions of magnitude <= H, each off by <= 2**-53 relative; 8x margin."""
    depth = max(rt.depth_edges(i) for i in rt.leaves())
    return 8 * 2.2e-16 * H * (1 + depth)


def tree_is_exact(rt, extra=()):
    vals = [rt.length[i] for i in rt.nodes() if i != rt.root] + list(extra)
    return all_exact(vals)


def ns_class(ctx, case, prefix):
    ctx.cls("%s:namespace:%s" % (prefix, (case.get("ns") or {}).get("mode", "exact")))


def shape_classes(ctx, rt, prefix):
    n = rt.n_leaves()
    ctx.cls("%s:leaves:%s" % (prefix, "1" if n == 1 else "2" if n == 2 else "3-5" if n <= 5 else "6-10" if n <= 10 else ">10"))
    arities = [len(rt.children[i]) for i in rt.internals()]
    if any(a > 2 for a in arities):
        ctx.cls(prefix + ":has_polytomy")
    if any(a == 1 for a in arities):
        ctx.cls(prefix + ":has_unifurcation")
    if any(rt.length[i] == 0 for i in rt.nodes() if i != rt.root and rt.length[i] is not None):
        ctx.cls(prefix + ":has_zero_length_edge")


def build(spec, ns=None):
    """DendroPy tree + snapshot.  `ns` (plain data, see ns_modes) decides what ELSE lives in the tree's namespace:
    nothing (exact), unused taxa (extra), taxa of tips that were attached and pruned again with
    prune_taxa_with_labels (pruned), or the taxa of a second tree on a different subset (shared).  The tree itself is
    the same in every mode, so all reference values stay functions of the tree alone."""
    mode = (ns or {}).get("mode", "exact")
    if mode == "exact":
        tree = shapes.build_tree(spec, is_rooted=True)
    else:
        import dendropy
        n = 1 + max([x["t"] for x in shapes.spec_nodes(spec) if x["t"] is not None] + [-1])
        k = ns["k"]
        order = list(range(n + k))
        if ns.get("extras_first"):
            order = order[n:] + order[:n]
        nsobj, taxa, _ = shapes.build_namespace({"extra": k, "order": order, "removed": [], "sort": None})
        tree = shapes.build_tree(spec, nsobj, taxa, is_rooted=True)
        extras = [taxa[n + j] for j in range(k)]
        if mode == "pruned":
            before, _ = snapshot(tree)
            hosts = [i for i in before.nodes() if len(before.children[i]) >= 2]
            if hosts:
                for j, t in enumerate(extras):
                    host = before.obj[hosts[ns["targets"][j % len(ns["targets"])] % len(hosts)]]
                    host.new_child(taxon=t, edge_length=1.0)
                tree.prune_taxa_with_labels([t.label for t in extras], suppress_unifurcations=False)
                after, _ = snapshot(tree)
                if after.canon(ordered=True, lengths=True) != before.canon(ordered=True, lengths=True):
                    raise runner.HarnessError("attach + prune_taxa_with_labels did not restore the tree: %s -> %s" % (
                        before.canon(ordered=True, lengths=True), after.canon(ordered=True, lengths=True)))
        elif mode == "shared":
            other = dendropy.Tree(taxon_namespace=nsobj)
            for t in extras + ([taxa[0]] if n else []):
                other.seed_node.new_child(taxon=t, edge_length=1.0)
            tree._c17_other_tree = other      # keep the second tree alive next to the first
        if len(tree.taxon_namespace) != n + k:
            raise runner.HarnessError("namespace does not hold the extra taxa")
    rt, problems = snapshot(tree)
    if problems:
        raise runner.HarnessError("built tree not well formed: %r" % problems)
    return tree, rt


def lengths_now(rt):
    return [rt.obj[i]._edge.length for i in rt.nodes()]


# ---------------------------------------------------------------------------
# sub-check: ages
# ---------------------------------------------------------------------------

def check_ages(ctx, case):
    from dendropy.utility import error
    spec = apply_shifts(case["spec"], case["shifts"]) if case["shifts"] else case["spec"]
    tree, pre = build(spec, case.get("ns"))
    nodes = pre.nodes()
    nonroot = [i for i in nodes if i != pre.root]
    leaves = pre.leaves()
    internals = pre.internals()
    n = len(leaves)
    prec, force, route = case["prec"], case["force"], case["route"]
    kw, p = prec_info(prec)
    leaf_age = None
    fn_calls = []
    if route == "tipfn":
        leaf_age = dict(zip(leaves, case["tip_ages"]))
        by_obj = dict((id(pre.obj[i]), leaf_age[i]) for i in leaves)

        def age_fn(nd):
            fn_calls.append(nd)
            return by_obj.get(id(nd))
        kw["set_node_age_fn"] = age_fn
    if force == "max":
        kw["is_force_max_age"] = True
    elif force == "min":
        kw["is_force_min_age"] = True
    tag = "route=%s prec=%r force=%r shifts=%r tree=%s" % (route, prec, force, case["shifts"],
                                                          pre.canon(ordered=True, lengths=True))

    # --- explicit root-to-tip sums decide what must happen -------------------------------------------------------
    dep = ref_depths(pre)
    tip_sum = [dep[i] + (leaf_age[i] if leaf_age else 0.0) for i in leaves]   # root age implied by each tip
    H = max([abs(x) for x in tip_sum] + [dep[i] for i in leaves])
    spread = max(tip_sum) - min(tip_sum)
    exact = tree_is_exact(pre, extra=([p] if p is not None else []) + (list(leaf_age.values()) if leaf_age else []))
    band = 0.0 if exact else rounding_band(pre, H)
    lo, hi = ref_tip_ranges(pre, leaf_age)
    checked = p is not None and force is None
    must_reject = checked and spread > p + band
    must_accept = (not checked) or spread <= p - band
    ultrametric = spread <= band
    ctx.cls("ages:prec:%s" % ("disabled" if p is None else "0" if p == 0 else "default" if prec == "default" else
                              "%g x scale" % (p / case.get("scale", 1.0))))
    ctx.cls("ages:force:%s" % force)
    ctx.cls("ages:route:%s" % route)
    ctx.cls("ages:family:%s" % ("exact" if not case["shifts"] else "one_shift" if len(case["shifts"]) == 1 else "two_shifts"))
    ctx.cls("ages:heights:%s" % case["heights"])
    k = case.get("scale", 1.0)
    ctx.cls("ages:scale:%s" % ("1" if k == 1.0 else "2^%d" % (math.frexp(k)[1] - 1) if math.frexp(k)[0] == 0.5 else "%g" % k))
    shape_classes(ctx, pre, "ages")
    ns_class(ctx, case, "ages")
    if checked and not must_reject and not must_accept:
        ctx.cls("ages:inside_rounding_band_no_verdict")
    if checked and exact and spread == p and p > 0:
        ctx.cls("ages:spread_exactly_equals_precision")
    if n >= 2:
        ctx.nontrivial(["ages", pre.canon(ordered=True, lengths=True), repr(prec), force, route, case.get("tip_ages")])

    # --- the call -----------------------------------------------------------------------------------------------
    if route in ("calc", "tipfn"):
        fn = tree.calc_node_ages
    elif route == "calc_internal":
        fn = tree.calc_node_ages
        kw["is_return_internal_node_ages_only"] = True
    elif route == "node_ages":
        fn = tree.node_ages
    elif route == "node_ages_internal":
        fn = tree.node_ages
        kw["internal_only"] = True
    elif route == "internal":
        fn = tree.internal_node_ages
    else:
        raise runner.HarnessError(route)
    raised = None
    got = None
    try:
        got = ctx.call("C17.calc_node_ages", fn, _allowed=(ValueError,), **kw)
    except ValueError as e:
        raised = e
    ctx.check(lengths_now(pre) == pre.length, "age_calculation_leaves_edge_lengths_alone", "C17.ages_mutate_lengths", tag)

    fam = "exact" if not case["shifts"] else "one_shift" if len(case["shifts"]) == 1 else "two_shifts"
    if raised is not None:
        ctx.cls("ages:outcome:rejected")
        ctx.sample("ages_%s_rejected" % fam, case)
        ctx.check(isinstance(raised, error.UltrametricityError), "rejection_is_an_UltrametricityError",
                  "C17.error_type", lambda: "%s: %s; %s" % (type(raised).__name__, str(raised)[:200], tag))
        if not checked:
            ctx.fail("no_rejection_when_check_disabled_or_forced", "C17.reject_when_disabled",
                     "spread=%r; %s" % (spread, tag))
        elif must_accept:
            ctx.fail("tree_within_precision_is_accepted", "C17.ultrametric_accept",
                     "spread=%r precision=%r; %s: %s" % (spread, p, tag, str(raised)[:150]))
        return
    ctx.cls("ages:outcome:accepted")
    if case["shifts"] and checked:
        ctx.sample("ages_%s_accepted" % fam, case)
    if must_reject:
        worst = local_first_child_deviation(pre, leaf_age)
        d = "root-to-tip sums %r spread=%r > precision=%r; largest first-child-vs-sibling difference %r; %s" % (
            sorted(tip_sum), spread, p, worst, tag)
        route_rejection_miss(ctx, case, worst, p, band, d)
        return

    # --- ages ------------------------------------------------------------------------------------------------------
    ages = {}
    for i in nodes:
        a = pre.obj[i].age
        if not ctx.check(isinstance(a, (int, float)) and not isinstance(a, bool) and a == a, "every_node_gets_an_age",
                         "C17.age_missing", lambda: "node %d age %r; %s" % (i, a, tag)):
            return
        ages[i] = a
    for i in nodes:
        a = ages[i]
        if force == "max" or force == "min":
            want = hi[i] if force == "max" else lo[i]
            ok = a == want if exact else rclose(a, want, H, 1e-12)
            ctx.check(ok, "forced_age_is_%s_over_children" % force, "C17.forced_age:" + force,
                      lambda: "node over %s: age %r want %r; %s" % (sorted(pre.clusters()[i]), a, want, tag))
        elif ultrametric and exact:
            ctx.check(a == hi[i], "age_is_distance_to_descendant_tips", "C17.age_exact",
                      lambda: "node over %s: age %r want %r; %s" % (sorted(pre.clusters()[i]), a, hi[i], tag))
        else:
            slack = band + 1e-12 * H
            ctx.check(lo[i] - slack <= a <= hi[i] + slack, "age_between_nearest_and_farthest_descendant_tip",
                      "C17.age_range", lambda: "node over %s: age %r not in [%r, %r]; %s" % (
                          sorted(pre.clusters()[i]), a, lo[i], hi[i], tag))
    # returned collection
    if route in ("calc", "node_ages"):
        want_nodes = nodes
    elif route == "tipfn":
        want_nodes = None      # nodes whose age came from the function are not documented to be in the result
    else:
        want_nodes = internals
    if want_nodes is not None:
        want_list = sorted(ages[i] for i in want_nodes)
        ctx.check(sorted(got) == want_list, "returned_ages_are_the_node_ages", "C17.returned_ages:" + route,
                  lambda: "got %r want %r; %s" % (sorted(got), want_list, tag))
        if route in ("node_ages", "node_ages_internal", "internal"):
            ctx.check(list(got) == want_list, "returned_ages_ascending", "C17.returned_ages_sorted:" + route,
                      lambda: "got %r; %s" % (got, tag))
    else:
        want_list = sorted(ages[i] for i in internals)
        ctx.check(sorted(got) == want_list or sorted(got) == sorted(ages.values()), "returned_ages_are_the_node_ages",
                  "C17.returned_ages:tipfn", lambda: "got %r want internal %r; %s" % (sorted(got), want_list, tag))
        ctx.check(len(fn_calls) == len(nodes) and set(map(id, fn_calls)) == set(id(o) for o in pre.obj),
                  "set_node_age_fn_called_once_per_node", "C17.tipfn_calls", tag)
    if force is not None:
        return

    # --- set_edge_lengths_from_node_ages restores the lengths ----------------------------------------------------------
    orig = list(pre.length)
    for i in nonroot:
        pre.obj[i]._edge.length = case["scramble"]
    skw = {}
    m = 0.0
    if case["min_len"] != "default":
        skw["minimum_edge_length"] = m = case["min_len"]
    ctx.call("C17.set_edge_lengths_from_node_ages", tree.set_edge_lengths_from_node_ages, **skw)
    ctx.cls("ages:restore:min_len=%r" % (case["min_len"],))
    for i in nonroot:
        g = pre.obj[i]._edge.length
        want = orig[i] if m is None else max(orig[i], m)
        if not ctx.check(isinstance(g, (int, float)) and not isinstance(g, bool), "restored_length_is_a_number",
                         "C17.restore_lengths", lambda: "edge above %s: %r; %s" % (sorted(pre.clusters()[i]), g, tag)):
            return
        if ultrametric and exact and (m is None or all_exact(list(orig[1:]) + [m])):
            ok = g == want
        else:
            ok = abs(g - want) <= spread + band + 1e-12 * H      # relative to the tree height, no absolute floor
        ctx.check(ok, "set_edge_lengths_from_node_ages_restores_lengths", "C17.restore_lengths",
                  lambda: "edge above %s: got %r want %r (min_len %r, spread %r); %s" % (
                      sorted(pre.clusters()[i]), g, want, case["min_len"], spread, tag))
    if ultrametric and exact and route != "tipfn":
        ctx.cls("ages:exact_ultrametric_full_roundtrip")
        # depth + lineage clauses on the same (restored) tree
        check_depth_functions(ctx, tree, pre, "default", "default", tag)
        if all(orig[i] > 0 for i in nonroot):
            check_lineages(ctx, tree, pre, case["dsel"], True, tag)


# ---------------------------------------------------------------------------
# depth / lineage clauses (shared)
# ---------------------------------------------------------------------------

def check_depth_functions(ctx, tree, rt, leafonly, attr, tag):
    """calc_node_root_distances, max_distance_from_root, minmax_leaf_distance_from_root, resolve_node_depths."""
    nodes = rt.nodes()
    leaves = rt.leaves()
    dep = {}
    for i in rt.preorder():
        q = rt.parent[i]
        dep[i] = 0.0 if q is None else dep[q] + rt.obj[i]._edge.length
    H = max(dep.values())
    exact = all_exact([rt.obj[i]._edge.length for i in nodes if i != rt.root])

    def same(a, b):
        return a == b if exact else close(a, b, H, 1e-12)

    def same_list(a, b):
        return len(a) == len(b) and all(same(x, y) for x, y in zip(sorted(a), sorted(b)))
    kw = {} if leafonly == "default" else {"return_leaf_distances_only": leafonly}
    got = ctx.call("C17.calc_node_root_distances", tree.calc_node_root_distances, **kw)
    want = [dep[i] for i in (nodes if leafonly is False else leaves)]
    ctx.check(same_list(got, want), "returned_root_distances", "C17.root_distances_returned",
              lambda: "leafonly=%r got %r want %r; %s" % (leafonly, sorted(got), sorted(want), tag))
    for i in nodes:
        rd = getattr(rt.obj[i], "root_distance", None)
        ctx.check(rd is not None and same(rd, dep[i]), "root_distance_is_sum_of_lengths_from_root", "C17.root_distance",
                  lambda: "node over %s: %r want %r; %s" % (sorted(rt.clusters()[i]), rd, dep[i], tag))
    mx = ctx.call("C17.max_distance_from_root", tree.max_distance_from_root)
    ctx.check(same(mx, max(dep[i] for i in leaves)), "max_distance_from_root", "C17.max_distance_from_root",
              lambda: "got %r want %r; %s" % (mx, max(dep[i] for i in leaves), tag))
    mm = ctx.call("C17.minmax_leaf_distance_from_root", tree.minmax_leaf_distance_from_root)
    wmm = (min(dep[i] for i in leaves), max(dep[i] for i in leaves))
    ctx.check(len(mm) == 2 and same(mm[0], wmm[0]) and same(mm[1], wmm[1]), "minmax_leaf_distance_from_root",
              "C17.minmax_leaf_distance", lambda: "got %r want %r; %s" % (mm, wmm, tag))
    seen = []
    kw = {"node_callback_fn": seen.append}
    name = "depth"
    if attr != "default":
        kw["attr_name"] = name = attr
    cache = ctx.call("C17.resolve_node_depths", tree.resolve_node_depths, **kw)
    ctx.check(len(seen) == len(nodes) and set(map(id, seen)) == set(id(o) for o in rt.obj),
              "resolve_node_depths_callback_once_per_node", "C17.resolve_depths_callback", tag)
    for i in nodes:
        o = rt.obj[i]
        v = getattr(o, name, None)
        ctx.check(v is not None and same(v, dep[i]) and o in cache and same(cache[o], dep[i]),
                  "resolve_node_depths_is_distance_from_root", "C17.resolve_depths",
                  lambda: "node over %s: attr %r cache %r want %r; %s" % (sorted(rt.clusters()[i]), v, cache.get(o), dep[i], tag))
    return dep


def check_lineages(ctx, tree, rt, dsel, node_depths_too, tag):
    dep = {}
    for i in rt.preorder():
        q = rt.parent[i]
        dep[i] = 0.0 if q is None else dep[q] + rt.obj[i]._edge.length
    edges = [(dep[rt.parent[i]], dep[i]) for i in rt.nodes() if i != rt.root]
    values = sorted(set(dep.values()))
    pts = []
    for a, b in zip(values, values[1:]):
        mid = a + (b - a) / 2.0
        if b - a > 1e-9 * abs(b) and a < mid < b:       # (denormal gaps have no representable midpoint)
            pts.append(("mid", mid))
    pts.append(("beyond", values[-1] + 1.0))
    if node_depths_too:
        for v in values[1:]:
            pts.append(("at_node", v))
    if len(pts) > 14:
        pts = [pts[k % len(pts)] for k in dsel] + [pts[-1]]
    deepest = max(dep[i] for i in rt.leaves())
    for kind, d in pts:
        got = ctx.call("C17.num_lineages_at", tree.num_lineages_at, d)
        left = sum(1 for a, b in edges if a < d <= b)
        right = sum(1 for a, b in edges if a <= d < b)
        if kind != "at_node":
            ctx.cls("lineages:generic_point")
            ctx.check(got == left == right, "lineages_equal_edges_crossing_the_distance", "C17.num_lineages:generic",
                      lambda: "d=%r (%s) got %r want %r; %s" % (d, kind, got, left, tag))
        elif d == deepest:
            ctx.cls("lineages:at_deepest_tip")
            ctx.check(got == left, "lineages_at_deepest_tip_are_the_tips_there", "C17.num_lineages:deepest_tip",
                      lambda: "d=%r got %r want %r; %s" % (d, got, left, tag))
        else:
            ctx.cls("lineages:at_node_depth")
            ctx.check(got in (left, right), "lineages_at_a_node_depth_is_left_or_right_limit", "C17.num_lineages:at_node",
                      lambda: "d=%r got %r want %r or %r; %s" % (d, got, left, right, tag))


def check_depths(ctx, case):
    from dendropy.calculate import treemeasure as tm
    spec = case["spec"]
    tree, pre = build(spec, case.get("ns"))
    nodes = pre.nodes()
    nonroot = [i for i in nodes if i != pre.root]
    internals = pre.internals()
    n = pre.n_leaves()
    tag = "lenpat=%s leafonly=%r tree=%s" % (case["lenpat"], case["leafonly"], pre.canon(ordered=True, lengths=True))
    ctx.cls("depths:lenpat:%s" % case["lenpat"])
    shape_classes(ctx, pre, "depths")
    ns_class(ctx, case, "depths")
    if n >= 2:
        ctx.nontrivial(["depths", pre.canon(ordered=True, lengths=True), case["leafonly"], repr(case["prec"])])
    dep = check_depth_functions(ctx, tree, pre, case["leafonly"], case["attr"], tag)
    H = max(dep.values())
    exact = tree_is_exact(pre)
    positive = all(pre.length[i] > 0 for i in nonroot)
    check_lineages(ctx, tree, pre, case["dsel"], exact and positive, tag)

    def same(a, b):
        return a == b if exact else close(a, b, H, 1e-12)

    def same_list(a, b):
        return len(a) == len(b) and all(same(x, y) for x, y in zip(a, b))

    # resolve_node_ages: time before the most distant tip
    deepest = max(dep[i] for i in pre.leaves())
    cache = ctx.call("C17.resolve_node_ages", tree.resolve_node_ages)
    for i in nodes:
        o = pre.obj[i]
        want = deepest - dep[i]
        ctx.check(o in cache and same(cache[o], want) and same(o.age, want), "resolve_node_ages_is_time_before_deepest_tip",
                  "C17.resolve_ages", lambda: "node over %s: attr %r cache %r want %r; %s" % (
                      sorted(pre.clusters()[i]), o.age, cache.get(o), want, tag))
    # treemeasure vectors
    for name, fn, kw, want in (
            ("node_ages", tm.node_ages, {}, sorted(deepest - dep[i] for i in nodes)),
            ("node_ages_internal", tm.node_ages, {"is_internal_only": True}, sorted(deepest - dep[i] for i in internals)),
            ("node_depths", tm.node_depths, {}, sorted(dep[i] for i in nodes)),
            ("node_depths_internal", tm.node_depths, {"is_internal_only": True}, sorted(dep[i] for i in internals)),
            ("coalescence_ages", tm.coalescence_ages, {}, sorted(deepest - dep[i] for i in internals)),
            ("divergence_times", tm.divergence_times, {}, sorted(dep[i] for i in internals))):
        got = ctx.call("C17.treemeasure." + name, fn, tree, **kw)
        ctx.check(same_list(list(got), want), "treemeasure_%s" % name, "C17.treemeasure." + name,
                  lambda: "got %r want %r; %s" % (got, want, tag))

    # calc_node_ages on a general (usually non-ultrametric) tree: forcing and disabled check
    lo, hi = ref_tip_ranges(pre)
    for force in ("max", "min"):
        t2, r2 = build(spec, case.get("ns"))
        kw, _ = prec_info(case["prec"])      # forcing ignores the precision, whatever it is
        kw["is_force_%s_age" % force] = True
        got = ctx.call("C17.calc_node_ages", t2.calc_node_ages, **kw)
        want = hi if force == "max" else lo
        for i in nodes:
            a = r2.obj[i].age
            ctx.check(a is not None and same(a, want[i]), "forced_age_is_%s_over_children" % force, "C17.forced_age:" + force,
                      lambda: "node over %s: age %r want %r; %s" % (sorted(pre.clusters()[i]), a, want[i], tag))
        ctx.check(same_list(sorted(got), sorted(want.values())), "returned_ages_are_the_node_ages",
                  "C17.returned_ages:forced", lambda: "got %r want %r; %s" % (sorted(got), sorted(want.values()), tag))
    spread = max(dep[i] for i in pre.leaves()) - min(dep[i] for i in pre.leaves())
    ctx.cls("depths:ultrametric" if spread == 0 else "depths:non_ultrametric")
    kw, p = prec_info(case["prec"])
    if p is None:
        t3, r3 = build(spec, case.get("ns"))
        ctx.call("C17.calc_node_ages", t3.calc_node_ages, **kw)   # any exception here is a violation
        slack = 1e-12 * (1.0 + H)
        for i in nodes:
            a = r3.obj[i].age
            ctx.check(a is not None and lo[i] - slack <= a <= hi[i] + slack, "age_between_nearest_and_farthest_descendant_tip",
                      "C17.age_range", lambda: "check disabled (%r): node over %s age %r not in [%r, %r]; %s" % (
                          case["prec"], sorted(pre.clusters()[i]), a, lo[i], hi[i], tag))
    elif spread > p * 2 + 1e-9 * (1.0 + H) or (exact and spread > p):
        # clearly non-ultrametric general tree with the check on: rejected unless only the known local-comparison gap
        from dendropy.utility import error
        t3, r3 = build(spec, case.get("ns"))
        try:
            ctx.call("C17.calc_node_ages", t3.calc_node_ages, _allowed=(ValueError,), **kw)
        except ValueError as e:
            ctx.cls("depths:non_ultrametric_rejected")
            ctx.check(isinstance(e, error.UltrametricityError), "rejection_is_an_UltrametricityError", "C17.error_type",
                      lambda: "%s; %s" % (type(e).__name__, tag))
        else:
            worst = local_first_child_deviation(pre)
            d = "spread=%r > precision=%r, largest first-child-vs-sibling difference %r; %s" % (spread, p, worst, tag)
            route_rejection_miss(ctx, case, worst, p, 0.0 if exact else 1e-9 * (1.0 + H), d)


# ---------------------------------------------------------------------------
# sub-check: history (the same tree object is queried, modified, queried again)
# ---------------------------------------------------------------------------

def history_query(ctx, tree, rt, q, dsel, tag):
    """One query on the tree in its CURRENT state against the oracle on the current snapshot `rt`.  Only calls that are
    documented to (re)calculate are used (pybus_harvey_gamma, which documents reuse of existing ages, is not)."""
    from dendropy.utility import error
    nodes = rt.nodes()
    nonroot = [i for i in nodes if i != rt.root]
    leaves = rt.leaves()
    dep = ref_depths(rt)
    H = max(dep.values())
    exact = tree_is_exact(rt)
    lo, hi = ref_tip_ranges(rt)
    slack = 1e-12 * (1.0 + H)

    def same(a, b):
        return a == b if exact else close(a, b, H, 1e-12)
    ctx.cls("history:query:" + q)
    if q == "lineages":
        check_lineages(ctx, tree, rt, dsel, exact and all(rt.length[i] > 0 for i in nonroot), tag)
    elif q == "depthfns":
        check_depth_functions(ctx, tree, rt, "default", "default", tag)
    elif q == "max_distance":
        mx = ctx.call("C17.max_distance_from_root", tree.max_distance_from_root)
        ctx.check(same(mx, max(dep[i] for i in leaves)), "max_distance_from_root", "C17.max_distance_from_root",
                  lambda: "got %r want %r; %s" % (mx, max(dep[i] for i in leaves), tag))
    elif q == "minmax":
        mm = ctx.call("C17.minmax_leaf_distance_from_root", tree.minmax_leaf_distance_from_root)
        want = (min(dep[i] for i in leaves), max(dep[i] for i in leaves))
        ctx.check(len(mm) == 2 and same(mm[0], want[0]) and same(mm[1], want[1]), "minmax_leaf_distance_from_root",
                  "C17.minmax_leaf_distance", lambda: "got %r want %r; %s" % (mm, want, tag))
    elif q in ("forced_max", "forced_min"):
        force = q[7:]
        got = ctx.call("C17.calc_node_ages", tree.calc_node_ages, **{"is_force_%s_age" % force: True})
        want = hi if force == "max" else lo
        for i in nodes:
            a = rt.obj[i].age
            ctx.check(a is not None and same(a, want[i]), "forced_age_is_%s_over_children" % force, "C17.forced_age:" + force,
                      lambda: "node over %s: age %r want %r; %s" % (sorted(rt.clusters()[i]), a, want[i], tag))
        ctx.check(len(got) == len(nodes) and all(same(x, y) for x, y in zip(sorted(got), sorted(want.values()))),
                  "returned_ages_are_the_node_ages", "C17.returned_ages:forced",
                  lambda: "got %r want %r; %s" % (sorted(got), sorted(want.values()), tag))
    elif q in ("ages_disabled", "ages_checked", "node_ages"):
        tips = [dep[i] for i in leaves]
        spread = max(tips) - min(tips)
        p = DEFAULT_PRECISION
        band = 1e-9 * (1.0 + H)
        if q == "ages_disabled":
            fn, kw = tree.calc_node_ages, {"ultrametricity_precision": False}
        elif q == "ages_checked":
            fn, kw = tree.calc_node_ages, {}
        else:
            fn, kw = tree.node_ages, {}
        try:
            got = ctx.call("C17.calc_node_ages", fn, _allowed=(ValueError,), **kw)
        except ValueError as e:
            ctx.check(isinstance(e, error.UltrametricityError), "rejection_is_an_UltrametricityError", "C17.error_type",
                      lambda: "%s; %s" % (type(e).__name__, tag))
            if q == "ages_disabled":
                ctx.fail("no_rejection_when_check_disabled_or_forced", "C17.reject_when_disabled", "spread=%r; %s" % (spread, tag))
            elif spread <= p - band:
                ctx.fail("tree_within_precision_is_accepted", "C17.ultrametric_accept", "spread=%r; %s" % (spread, tag))
            return
        if q != "ages_disabled" and spread > p + band:
            worst = local_first_child_deviation(rt)
            route_rejection_miss(ctx, {"history": tag}, worst, p, band,
                                 "spread=%r > precision=%r, largest first-child-vs-sibling difference %r; %s" % (spread, p, worst, tag))
            return
        for i in nodes:
            a = rt.obj[i].age
            ok = a is not None and (a == hi[i] if (exact and spread == 0) else lo[i] - slack - band <= a <= hi[i] + slack + band)
            ctx.check(ok, "age_is_distance_to_descendant_tips", "C17.age_exact" if exact and spread == 0 else "C17.age_range",
                      lambda: "node over %s: age %r want [%r, %r]; %s" % (sorted(rt.clusters()[i]), a, lo[i], hi[i], tag))
        ctx.check(sorted(got) == sorted(rt.obj[i].age for i in nodes), "returned_ages_are_the_node_ages",
                  "C17.returned_ages:" + q, lambda: "got %r; %s" % (sorted(got), tag))
    elif q == "resolve":
        deepest = max(dep[i] for i in leaves)
        dcache = ctx.call("C17.resolve_node_depths", tree.resolve_node_depths)
        acache = ctx.call("C17.resolve_node_ages", tree.resolve_node_ages)
        for i in nodes:
            o = rt.obj[i]
            ctx.check(o in dcache and same(dcache[o], dep[i]) and same(o.depth, dep[i]),
                      "resolve_node_depths_is_distance_from_root", "C17.resolve_depths",
                      lambda: "node over %s: %r want %r; %s" % (sorted(rt.clusters()[i]), dcache.get(o), dep[i], tag))
            ctx.check(o in acache and same(acache[o], deepest - dep[i]) and same(o.age, deepest - dep[i]),
                      "resolve_node_ages_is_time_before_deepest_tip", "C17.resolve_ages",
                      lambda: "node over %s: %r want %r; %s" % (sorted(rt.clusters()[i]), acache.get(o), deepest - dep[i], tag))
    else:
        raise runner.HarnessError(q)


def history_mutate(ctx, tree, rt, step):
    """Modify the tree through public calls; returns a short description."""
    nodes = rt.nodes()
    nonroot = [i for i in nodes if i != rt.root]
    kind, k, val = step["mut"], step["target"], step["val"]
    if kind == "remove_leaf":
        cand = [i for i in rt.leaves() if i != rt.root and len(rt.children[rt.parent[i]]) >= 2]
        if len(rt.leaves()) < 3 or not cand:
            kind = "scale"
            val = 0.5
        else:
            i = cand[k % len(cand)]
            ctx.call("C17.history_mutation", rt.obj[rt.parent[i]].remove_child, rt.obj[i])
            return "remove_leaf(%s)" % rt.leaf_id(i)
    if kind == "reroot":
        cand = [i for i in rt.internals() if i != rt.root]
        if not cand or rt.length[rt.root] is not None:
            kind = "scale"
            val = 2.0
        else:
            i = cand[k % len(cand)]
            ctx.call("C17.history_mutation", tree.reroot_at_node, rt.obj[i], suppress_unifurcations=step["flag"])
            return "reroot_at_node(%s, suppress_unifurcations=%r)" % (sorted(rt.clusters()[i]), step["flag"])
    if kind == "add_leaf":
        i = nodes[k % len(nodes)]
        ctx.call("C17.history_mutation", rt.obj[i].new_child, edge_length=val)
        return "new_child(under %s, edge_length=%r)" % (sorted(rt.clusters()[i]), val)
    if kind in ("set_length", "add_length") and nonroot:
        i = nonroot[k % len(nonroot)]
        e = rt.obj[i].edge
        e.length = val if kind == "set_length" else e.length + val
        return "%s(edge above %s, %r)" % (kind, sorted(rt.clusters()[i]), val)
    ctx.call("C17.history_mutation", tree.scale_edges, val)
    return "scale_edges(%r)" % val


def check_history(ctx, case):
    tree, rt = build(case["spec"], case.get("ns"))
    start = rt.canon(ordered=True, lengths=True)
    log = []
    ctx.cls("history:lenpat:%s" % case["lenpat"])
    ns_class(ctx, case, "history")
    ctx.nontrivial(["history", start, case["first"], [(s["mut"], s["target"], s["val"], s["flag"], s["queries"]) for s in case["steps"]]])
    ctx.sample("history", case)

    def tag():
        return "start=%s history=%s now=%s" % (start, " -> ".join(log), rt.canon(ordered=True, lengths=True))
    for q in case["first"]:
        log.append(q)
        history_query(ctx, tree, rt, q, case["dsel"], tag())
    for step in case["steps"]:
        what = history_mutate(ctx, tree, rt, step)
        log.append(what)
        ctx.cls("history:mutation:" + what.split("(")[0])
        rt, problems = snapshot(tree)
        if problems:
            ctx.cls("history:tree_malformed_after_mutation_stopped")   # not this property's clause (C03/C07)
            return
        if any(rt.length[i] is None or rt.length[i] < 0 for i in rt.nodes() if i != rt.root):
            ctx.cls("history:length_missing_after_mutation_stopped")
            return
        for q in step["queries"]:
            log.append(q)
            history_query(ctx, tree, rt, q, case["dsel"], tag())


# ---------------------------------------------------------------------------
# sub-check: statistics
# ---------------------------------------------------------------------------

def ref_shape_stats(rt):
    leaves = rt.leaves()
    n = len(leaves)
    depth = {}
    for i in rt.preorder():
        q = rt.parent[i]
        depth[i] = 0 if q is None else depth[q] + 1
    sackin = sum(depth[i] for i in leaves)
    height = {}
    nl = {}
    for i in rt.postorder():
        ch = rt.children[i]
        height[i] = 1 + max(height[c] for c in ch) if ch else 0
        nl[i] = sum(nl[c] for c in ch) if ch else 1
    b1 = 0.0
    for i in rt.internals():
        if i != rt.root:
            b1 += 1.0 / height[i]
    binary = all(len(rt.children[i]) == 2 for i in rt.internals())
    colless = None
    if binary:
        colless = sum(abs(nl[rt.children[i][0]] - nl[rt.children[i][1]]) for i in rt.internals())
    return {"n": n, "sackin": sackin, "b1": b1, "binary": binary, "colless": colless}


def expected_stats(rt):
    s = ref_shape_stats(rt)
    n = s["n"]
    out = {}
    S = float(s["sackin"])
    out["N_bar"] = S / n
    out["sackin:True"] = S / n
    out["sackin:None"] = S
    out["sackin:False"] = S
    out["sackin:pda"] = S / (n ** 1.5)
    out["sackin:yule"] = (S - 2.0 * n * sum(1.0 / j for j in range(2, n + 1))) / n
    out["B1"] = s["b1"]
    if s["binary"]:
        C = float(s["colless"])
        out["colless:None"] = C
        out["colless:False"] = C
        out["colless:pda"] = C / (n ** 1.5)
        out["colless:yule"] = (C - n * math.log(n) - n * (EULER - 1.0 - math.log(2.0))) / n
        if n >= 3:
            out["colless:max"] = out["colless:True"] = out["colless:default"] = C / ((n - 1) * (n - 2) / 2.0)
    # lengths
    total = 0.0
    for i in rt.nodes():
        if rt.length[i] is not None:
            total += rt.length[i]
    out["length"] = total
    nonroot = [i for i in rt.nodes() if i != rt.root]
    if nonroot and all(rt.length[i] is not None for i in nonroot):
        internal = sum(rt.length[i] for i in nonroot if rt.children[i])
        external = sum(rt.length[i] for i in nonroot if not rt.children[i])
        if internal + external > 0:
            # reading (a): the edge subtending the root is no branch of the tree (left out of both sums)
            out["treeness"] = internal / (internal + external)
            r = rt.length[rt.root]
            if r is not None:
                # reading (b): the root edge is an internal branch, counted in BOTH the internal sum and the total.
                # The docstring does not choose; any other value treats the root edge inconsistently.
                s["treeness_alt"] = (internal + r) / (internal + external + r)
    return out, s


NORM = {"True": True, "None": None, "False": False, "pda": "pda", "yule": "yule", "max": "max"}


def library_stats(ctx, tree, keys, alias):
    from dendropy.calculate import treemeasure as tm
    out = {}
    for k in keys:
        name, _, norm = k.partition(":")
        if name == "length":
            out[k] = ctx.call("C17.length", tree.length)
            continue
        if alias:
            with warnings.catch_warnings():
                warnings.simplefilter("ignore")
                if name in ("sackin", "colless"):
                    meth = tree.sackin_index if name == "sackin" else tree.colless_tree_imbalance
                    out[k] = ctx.call("C17.alias." + name, meth) if norm == "default" else ctx.call("C17.alias." + name, meth, NORM[norm])
                else:
                    out[k] = ctx.call("C17.alias." + name, getattr(tree, name))
            continue
        if name == "sackin":
            out[k] = ctx.call("C17.sackin_index", tm.sackin_index, tree, normalize=NORM[norm])
        elif name == "colless":
            if norm == "default":
                out[k] = ctx.call("C17.colless", tm.colless_tree_imbalance, tree)
            else:
                out[k] = ctx.call("C17.colless", tm.colless_tree_imbalance, tree, normalize=NORM[norm])
        else:
            out[k] = ctx.call("C17." + name, getattr(tm, name), tree)
    return out


def check_stats(ctx, case):
    tree, pre = build(case["spec"], case.get("ns"))
    tree2, pre2 = build(case["perm"], case.get("ns"))
    want, s = expected_stats(pre)
    n = s["n"]
    tag = "n=%d lenpat=%s alias=%r namespace=%r tree=%s" % (n, case["lenpat"], case["alias"], case.get("ns"), pre.canon(ordered=True, lengths=True))
    ctx.cls("stats:lenpat:%s" % case["lenpat"])
    ctx.cls("stats:%s" % ("strictly_binary" if s["binary"] else "not_binary"))
    if "treeness" in want:
        ctx.cls("stats:treeness_defined")
    if pre.canon(ordered=True) != pre2.canon(ordered=True):
        ctx.cls("stats:child_order_really_permuted")
    shape_classes(ctx, pre, "stats")
    ns_class(ctx, case, "stats")
    if n >= 3:
        ctx.nontrivial(["stats", pre.canon(ordered=True, lengths=True), case["alias"], (case.get("ns") or {}).get("mode")])
    if pre.canon(lengths=True) != pre2.canon(lengths=True):
        raise runner.HarnessError("permuted spec is a different tree")
    keys = sorted(want)
    if n >= 4 and s["binary"] and "treeness" in want:
        ctx.sample("stats_binary_with_lengths", case)
    got = library_stats(ctx, tree, keys, case["alias"])
    got2 = library_stats(ctx, tree2, keys, False)
    scale = {"length": want["length"], "colless:yule": n * math.log(n) if n > 1 else 1.0, "sackin:yule": n}
    for k in keys:
        name = k.partition(":")[0]
        g, w = got[k], want[k]
        ok = isinstance(g, (int, float)) and not isinstance(g, bool) and close(g, w, scale.get(k, 0.0), 1e-12)
        if k == "treeness" and "treeness_alt" in s:
            alt = s["treeness_alt"]
            ok_b = isinstance(g, (int, float)) and not isinstance(g, bool) and close(g, alt, 0.0, 1e-12)
            if close(w, alt, 0.0, 1e-12):
                ctx.cls("stats:treeness_root_length:readings_coincide")
            elif ok:
                ctx.cls("stats:treeness_root_length:root_edge_excluded_from_both")
            elif ok_b:
                ctx.cls("stats:treeness_root_length:root_edge_internal_in_both")
            ctx.check(ok or ok_b, "treeness_treats_the_root_edge_consistently", "C17.stat:treeness_root_edge",
                      lambda: "got %r; want %r (root edge left out of internal sum and total) or %r (counted in both); %s" % (g, w, alt, tag))
            ctx.check(close(got2[k], g, 0.0, 1e-12), "treeness_independent_of_child_order", "C17.stat_child_order:treeness", tag)
            continue
        ctx.check(ok, "%s_equals_its_definition" % k, "C17.stat:" + k, lambda: "got %r want %r; %s" % (g, w, tag))
        ok2 = close(got2[k], g, scale.get(k, 0.0), 1e-12)
        ctx.check(ok2, "%s_independent_of_child_order" % name, "C17.stat_child_order:" + k,
                  lambda: "original order %r permuted %r; permuted tree %s; %s" % (g, got2[k], pre2.canon(ordered=True, lengths=True), tag))
    ctx.check(close(got["N_bar"], got["sackin:True"], 0.0, 1e-12), "sackin_normalised_by_leaves_is_N_bar", "C17.stat:nbar_sackin", tag)


# ---------------------------------------------------------------------------
# sub-check: Pybus-Harvey gamma
# ---------------------------------------------------------------------------

def ref_gamma(rt):
    """-> (gamma, T, c) from the farthest-tip ages, or None when the total is zero."""
    lo, hi = ref_tip_ranges(rt)
    n = rt.n_leaves()
    ages = sorted((hi[i] for i in rt.internals()), reverse=True)
    if len(ages) != n - 1:
        raise runner.HarnessError("gamma oracle needs a strictly binary tree")
    g = {}
    for idx, a in enumerate(ages):
        nxt = ages[idx + 1] if idx + 1 < len(ages) else 0.0
        g[idx + 2] = a - nxt       # interval during which idx+2 lineages exist
    T = sum(k * g[k] for k in range(2, n + 1))
    if T <= 0:
        return None
    acc = 0.0
    for i in range(2, n):
        acc += sum(k * g[k] for k in range(2, i + 1))
    c = math.sqrt(1.0 / (12.0 * (n - 2.0)))
    return (acc / (n - 2.0) - T / 2.0) / (T * c), T, c


def check_gamma(ctx, case):
    from dendropy.calculate import treemeasure as tm
    from dendropy.utility import error
    kind = case["kind"]
    spec = case["spec"]
    if case["shift"]:
        spec = apply_shifts(spec, [case["shift"]])
    tree, pre = build(spec, case.get("ns"))
    n = pre.n_leaves()
    binary = all(len(pre.children[i]) == 2 for i in pre.internals())
    prec = case["prec"]
    if "spelling" not in case:       # replay files written before the spelling field existed
        case = dict(case, spelling="tree_method" if case.get("alias") else "function_keyword")
    p = DEFAULT_PRECISION if prec == "default" else float(prec)
    tag = "kind=%s prec=%r spelling=%s shift=%r tree=%s" % (kind, prec, case["spelling"], case["shift"],
                                                           pre.canon(ordered=True, lengths=True))
    ctx.cls("gamma:kind:%s" % kind)
    ns_class(ctx, case, "gamma")
    ctx.cls("gamma:heights:%s" % case["heights"])
    ctx.cls("gamma:prec:%r" % (prec,))
    ctx.cls("gamma:spelling:%s" % case["spelling"])
    if pre.length[pre.root]:
        ctx.cls("gamma:root_edge_has_length")

    def call(t):
        if case["spelling"] == "tree_method":
            with warnings.catch_warnings():
                warnings.simplefilter("ignore")
                if prec == "default":
                    return ctx.call("C17.gamma", t.pybus_harvey_gamma, _allowed=(ValueError,))
                return ctx.call("C17.gamma", t.pybus_harvey_gamma, prec, _allowed=(ValueError,))
        if prec == "default":
            return ctx.call("C17.gamma", tm.pybus_harvey_gamma, t, _allowed=(ValueError,))
        if case["spelling"] == "function_positional":
            return ctx.call("C17.gamma", tm.pybus_harvey_gamma, t, prec, _allowed=(ValueError,))
        return ctx.call("C17.gamma", tm.pybus_harvey_gamma, t, prec=prec, _allowed=(ValueError,))
    if n >= 3:
        ctx.nontrivial(["gamma", pre.canon(ordered=True, lengths=True), repr(prec), case["spelling"]])
    if kind in ("nonbinary", "two_leaves"):
        if kind == "nonbinary" and binary:
            ctx.cls("gamma:nonbinary_draw_was_binary")
            kind = "ok"
        else:
            try:
                g = call(tree)
            except ValueError:
                ctx.cls("gamma:domain_error_is_ValueError")
                return
            ctx.fail("gamma_outside_domain_raises_ValueError", "C17.gamma_domain", "returned %r; %s" % (g, tag))
            return

    # what the caller's precision demands, from explicit root-to-tip sums
    dep = ref_depths(pre)
    tips = [dep[i] for i in pre.leaves()]
    H = max(tips)
    spread = max(tips) - min(tips)
    exact = tree_is_exact(pre, extra=[p])
    band = 0.0 if exact else rounding_band(pre, H)
    must_reject = spread > p + band
    must_accept = spread <= p - band
    if spread > band:
        rel = "below_caller_prec" if must_accept else "above_caller_prec" if must_reject else "borderline"
        versus_default = "below_default" if spread <= DEFAULT_PRECISION else "above_default"
        ctx.cls("gamma:deviation:%s:%s" % (rel, versus_default))
    ref = ref_gamma(pre)
    if ref is None:
        ctx.cls("gamma:zero_total_length_skipped")
        return
    want, T, c = ref
    try:
        g = call(tree)
    except ValueError as e:
        ctx.cls("gamma:outcome:rejected")
        ctx.check(isinstance(e, error.UltrametricityError), "rejection_is_an_UltrametricityError", "C17.error_type",
                  lambda: "%s: %s; %s" % (type(e).__name__, str(e)[:150], tag))
        if must_accept:
            ctx.fail("gamma_defined_on_tree_ultrametric_within_prec", "C17.gamma_accept",
                     "root-to-tip spread %r <= prec %r but %s: %s; %s" % (spread, p, type(e).__name__, str(e)[:120], tag))
        return
    ctx.cls("gamma:outcome:value")
    if must_reject:
        worst = local_first_child_deviation(pre)
        route_rejection_miss(ctx, case, worst, p, band,
                             "gamma returned %r although root-to-tip spread %r > prec %r (largest first-child-vs-sibling "
                             "difference %r); %s" % (g, spread, p, worst, tag))
        return
    if n >= 4:
        ctx.sample("gamma_%s" % kind, case)
    if spread <= band:
        ctx.check(isinstance(g, float) and close(g, want, 0.0, 1e-9), "gamma_equals_pybus_harvey_formula", "C17.gamma_value",
                  lambda: "got %r want %r; %s" % (g, want, tag))
    else:
        # ages may lie anywhere between nearest and farthest tip: every age moves by <= delta, every interval by
        # <= 2 delta, T by <= n(n+1) delta, the numerator by <= 1.5 times that
        delta = spread + band
        dT = n * (n + 1) * delta
        ok = isinstance(g, float) and g == g and abs(g) != float("inf")
        if ok and dT <= 0.5 * T:
            bound = (1.5 * dT + abs(want) * c * dT) / (c * (T - dT)) + 1e-9
            ok = abs(g - want) <= bound
            ctx.cls("gamma:perturbed_value_bounded")
        else:
            bound = None
        ctx.check(ok, "gamma_of_tree_within_prec_close_to_formula", "C17.gamma_value_perturbed",
                  lambda: "got %r want %r +- %r; %s" % (g, want, bound, tag))
    if not case["shift"]:
        tree2, pre2 = build(case["perm"], case.get("ns"))
        if pre2.canon(lengths=True) != pre.canon(lengths=True):
            raise runner.HarnessError("permuted spec is a different tree")
        g2 = ctx.call("C17.gamma", tm.pybus_harvey_gamma, tree2)
        ctx.check(close(g2, g, 0.0, 1e-9), "gamma_independent_of_child_order", "C17.gamma_child_order",
                  lambda: "original %r permuted %r (%s); %s" % (g, g2, pre2.canon(ordered=True, lengths=True), tag))
    for i in pre.nodes():
        if pre.obj[i].age is None:
            ctx.fail("gamma_side_effect_sets_ages", "C17.gamma_side_effect", tag)


# ---------------------------------------------------------------------------
# explicit boundary cases (same executor as `ages`)
# ---------------------------------------------------------------------------

def explicit_cases():
    base = {"heights": "dyadic", "force": None, "shifts": [], "route": "calc", "scramble": None, "min_len": "default",
            "dsel": list(range(10))}
    out = []

    def add(spec, prec, **kw):
        c = dict(base)
        c.update(spec=spec, prec=prec)
        c.update(kw)
        out.append(c)
    design = N(None, N(1.0, L(0, 1.9), L(1, 1.0)), L(2, 3.8))          # tip heights 2.9 / 2.0 / 3.8
    design_swapped = N(None, N(1.0, L(1, 1.0), L(0, 1.9)), L(2, 3.8))
    gap = N(None, N(1.0, L(0, 2.0), L(1, 1.0)), L(2, 4.0))              # dyadic: tips 3/2/5, local differences 1 and 1, spread 3
    for p in (1.0, 0.5, 2.0, None, "default"):
        add(design, p)
        add(design_swapped, p)
        add(gap, p)
    add(design, 1.0, route="internal")
    add(design, 1.0, force="max")
    add(design, 1.0, force="min")
    add(gap, 3.0)
    add(gap, 1.0, route="node_ages")
    two = N(None, L(0, 1.0), L(1, 1.25))
    for p in (0.25, 0.125, 0.5, 0, 0.0, False, -1, "default"):
        add(two, p)
        add(two, p, route="node_ages")
    add(L(0, None), "default")
    add(L(0, None), 0, route="internal")
    add(N(None, L(0, 1.0)), 0)
    add(N(None, N(0.0, L(0, 1.0), L(1, 1.0), L(2, 1.0)), L(3, 1.0)), 0)
    add(N(0.5, N(1.0, L(0, 1.0), L(1, 1.0)), N(0.5, N(0.5, L(2, 1.0), L(3, 1.0))), L(4, 2.0)), 0, min_len=0.25, scramble=77.0)
    return out


# ---------------------------------------------------------------------------

SUBCHECKS = {"ages": check_ages, "explicit": check_ages, "depths": check_depths, "stats": check_stats,
             "gamma": check_gamma, "history": check_history}


def run(ctx):
    quick = ctx.tier == "quick"
    max_leaves = 10 if quick else 40
    totals = {"ages": 2000, "depths": 700, "stats": 900, "gamma": 700, "history": 800} if quick else \
        {"ages": 24000, "depths": 8000, "stats": 10000, "gamma": 8000, "history": 10000}
    runner.run_items(ctx, "explicit", explicit_cases(), check_ages)
    runner.run_given(ctx, "ages", with_ns(age_cases(max_leaves)), check_ages, totals["ages"] / ctx.nshards)
    runner.run_given(ctx, "depths", with_ns(depth_cases(max_leaves)), check_depths, totals["depths"] / ctx.nshards)
    runner.run_given(ctx, "stats", with_ns(stat_cases(max_leaves)), check_stats, totals["stats"] / ctx.nshards)
    runner.run_given(ctx, "gamma", with_ns(gamma_cases(max_leaves)), check_gamma, totals["gamma"] / ctx.nshards)
    runner.run_given(ctx, "history", with_ns(history_cases(max_leaves)), check_history, totals["history"] / ctx.nshards)
