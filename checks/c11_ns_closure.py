"""C11 - collections keep every member inside their own taxon namespace.

Stateful, model-based.  The interpreter holds tree lists (index 0 = the main TreeList), character matrices (index 0 = the
main matrix), a DataSet (attached / detached), a TreeArray and a pool of loose trees (foreign trees created under other
namespaces, and trees removed from a list).  Every tracked object has a record: the namespace object it must refer to
and the Taxon object (identity) sitting on every slot (tree node in preorder / matrix row identified by its unique
sequence content).  Every tracked namespace has a record of its member list.

After EVERY step
  * the operation-specific oracle relates old and new slots of the objects the operation was documented to touch
    (check_mapping: 'migrate'/read/copy = label based unification under the namespace's case rule, 'add' = objects kept
    as they are, removal / same-namespace = identity) and the exact growth of the target namespace, and
  * check_all verifies every tracked object and namespace against its record, so that anything changed that the
    operation was not documented to touch (source lists of a copying extend, removed trees, other members, other
    namespaces) is reported as well.
"""
from hypothesis import strategies as st

from lib import budget, runner, stateful

# ASCII case pairs, a space/underscore pair, and non-ASCII labels: an ordinary accented case pair, and labels for which
# the ways of "ignoring case" disagree (str.lower / str.upper / str.casefold give different equivalences: sharp s, a
# ligature, Greek final sigma).  The reference rule is the documented one: case-insensitive = equal under str.lower().
POOL = ["a", "A", "b", "B", "c", "x y", "x_y", "Stra\u00dfe", "STRA\u00dfE", "\u00e9a", "\u00c9a", "\ufb01n", "\u03bf\u03c2"]
NONASCII = set(x for x in POOL if any(ord(ch) > 127 for ch in x))
NL = len(POOL)

CONFIG = {
    "shards": {"quick": 8, "thorough": 16},
    "budget_s": {"quick": 150, "thorough": 1500},
    "rule": ("Hypothesis rule-based state machine over TreeList (append/insert with 'migrate' (unify on/off) and 'add', "
             "extend/+=/+ with TreeList, slice, plain-list and self sources (self-extension under a deterministic step "
             "budget), [i]=, [i:j]=, read(newick/nexus text, with/without collection/tree offsets), new_tree, "
             "migrate_taxon_namespace, taxon_namespace assignment + reconstruct_taxon_namespace, reconstruct/update in "
             "place, pop/remove/del), TreeArray (several arrays: add_tree, read, from_tree_list, update/extend/+=/+ with "
             "same-namespace and foreign-namespace operands, empty and non-empty receivers; every touched array is "
             "verified through restore_tree(i): namespace, membership of leaf taxa, topology restricted to the added "
             "tree's taxa), DataSet (add, read newick/nexus with "
             "TAXA/CHARACTERS/TREES blocks, new_tree_list, new_char_matrix, attach/detach, unify_taxon_namespaces) and "
             "CharacterMatrix (new_sequence, [key]=, migrate/reconstruct, add/replace/update/extend_sequences, "
             "extend_matrix, copy constructor into a foreign namespace) plus loose-tree migrate/clone and relabelling of member "
             "taxa (taxon.label = unused label / case variant of its own / label of another member); all objects use "
             "labels from the pool a,A,b,B,c,'x y','x_y',Straße,STRAßE,éa,Éa,ﬁn,ος under 3 shared pool namespaces (case-insensitive, "
             "case-sensitive, case-insensitive) or fresh ones, with optional duplicate-label taxa. After every step the "
             "full record model is compared (namespace identity, membership, per-slot label preservation under the "
             "namespace's case rule, equal labels <=> one taxon, exact namespace growth, untouched objects unchanged). "
             "Non-trivial = history in which a foreign object (other namespace) created before the last modification of "
             "the target container is imported, or a DataSet unification over >= 2 namespaces whose label sets overlap; "
             "distinct = (init, op sequence with all arguments incl. label sets)."),
    "assumptions": ["labels come from a 13-label pool (overlap, disjointness, ASCII and non-ASCII case variants, special case foldings are the point); case-insensitive means equal under str.lower(), as Taxon.lower_cased_label defines it",
                    "operations are called inside their documented preconditions; documented refusals (foreign namespace "
                    "for TreeArray.add_tree / matrix bulk operations / new_tree, foreign taxon for new_sequence and [key]=, "
                    "two rows colliding on one taxon) are expected as exactly that error",
                    "trees are members of at most one tracked list (plain-list sources hold loose trees only)",
                    "trees given to a TreeArray have >= 2 leaves with pairwise distinct taxa and undefined rooting; "
                    "TreeArray.update() is only called with same-namespace operands (nothing is documented for foreign "
                    "ones; clean code merges them silently), extend/+=/+ must refuse a non-empty foreign array with "
                    "AssertionError or TaxonNamespaceIdentityError",
                    "text sources contain each leaf label at most once per tree under the namespace's case rule (the "
                    "readers refuse duplicates) and NEXUS TAXA blocks are only read through DataSet.read",
                    "in a namespace that already holds >= 2 taxa with the same label (after 'add' / unify off) any of "
                    "them is accepted as the image of that label, but all references with that label must end on one of them",
                    "DataSet.add of an object of another namespace in attached mode is not documented to coerce it; "
                    "only read/new_*/unify results are required to use the attached namespace"],
}

# ---------------------------------------------------------------------------
# strategies (plain data)
# ---------------------------------------------------------------------------
I = st.integers(0, 1000)
B = st.booleans()
LBL = st.integers(0, NL - 1)
NSSEL = st.integers(0, 8)
HOW = st.integers(0, 3)  # 3 = every occurrence gets a new Taxon (duplicate labels), otherwise require_taxon


def fd(**kw):
    return st.fixed_dictionaries(dict(kw))


# compact encodings (few draws; decoded by expand_mk / expand_doc)
TREE = dict(ls=st.lists(LBL, min_size=2, max_size=5), shape=I, il=st.integers(-5, NL - 1))
MK = fd(ns=NSSEL, how=HOW, **TREE)
DOC = fd(nexus=B, mask=st.integers(0, 2 ** NL - 1), rot=st.integers(0, NL - 1), t1=I, t2=I, rows=I, quote=B, translate=B)
SRC = fd(kind=st.integers(0, 2), s=I, i=st.integers(0, 4), j=st.integers(0, 6), n=st.integers(1, 3))


def decode_spec(ls, shape, il):
    """labels + shape number -> nested spec [internal label or -1, child, ...] with int leaves."""
    def rec(items, sh):
        if len(items) == 1:
            return items[0]
        if len(items) == 2 or sh % 5 == 0:
            ch = list(items)
        elif sh % 5 == 1:
            ch = [items[0], items[1], rec(items[2:], sh // 5)]
        else:
            cut = 1 + sh % (len(items) - 1)
            ch = [rec(items[:cut], sh // 3), rec(items[cut:], sh // 7)]
        return [-1] + ch
    spec = rec(list(ls), shape)
    if il >= 0:
        tgt = spec
        if shape % 2:
            for c in spec[1:]:
                if isinstance(c, list):
                    tgt = c
                    break
        tgt[0] = il
    return spec


def expand_mk(mk):
    if isinstance(mk, int):
        n = mk
        ls = [n % NL, (n // NL) % NL] + ([(n // 7) % NL] if n % 3 else []) + ([(n // 11) % NL] if n % 4 == 0 else [])
        return {"spec": decode_spec(ls, n // 5, -1), "ns": n % 9, "how": "require"}
    if "spec" in mk:
        return mk
    return {"spec": decode_spec(mk["ls"], mk["shape"], mk["il"]), "ns": mk["ns"], "how": "new" if mk["how"] == 3 else "require"}


def expand_doc(doc):
    if "labels" in doc:
        return doc
    labels = [(i + doc["rot"]) % NL for i in range(NL) if (doc["mask"] >> i) & 1]
    for i in range(NL):
        if len(labels) >= 3:
            break
        if (i + doc["rot"]) % NL not in labels:
            labels.append((i + doc["rot"]) % NL)
    trees = [{"n": 2 + doc["t1"] % 4, "perm": (doc["t1"] // 4) % NL, "shape": doc["t1"] // 28}]
    if doc["t2"] % 3 == 0:
        trees.append({"n": 2 + doc["t2"] % 4, "perm": (doc["t2"] // 4) % NL, "shape": doc["t2"] // 28})
    r = doc["rows"]
    rows = list(range(min(len(labels), 5))) if r % 5 == 0 else [r % NL, (r // NL) % NL, (r // 7) % NL][:r % 4]
    return {"schema": "nexus" if doc["nexus"] else "newick", "labels": labels, "trees": trees, "rows": rows,
            "quote": doc["quote"], "translate": doc["translate"]}


RULES = {
    "mk_tree": MK,
    "mk_tlist": fd(trees=st.lists(fd(**TREE), min_size=0, max_size=3), ns=NSSEL, how=HOW),
    "mk_matrix": fd(rows=st.lists(LBL, min_size=0, max_size=4), ns=NSSEL, how=HOW, partners=B),
    "tl_append": fd(tl=I, t=I, strat=st.sampled_from(["migrate", "migrate", "add"]), unify=st.sampled_from([True, True, False]),
                    insert=B, pos=st.integers(-3, 9), mk=MK, fresh=st.sampled_from([False, False, True])),
    "tl_extend": fd(tl=I, src=SRC, iadd=B),
    "tl_add": fd(tl=I, src=SRC, adopt=B),
    "tl_self_extend": fd(tl=I, iadd=B),
    "tl_setitem": fd(tl=I, i=I, t=I),
    "tl_setslice": fd(tl=I, i=st.integers(0, 5), j=st.integers(0, 7), src=SRC),
    "tl_read": fd(tl=I, doc=DOC, off=st.integers(0, 3)),
    "tl_new_tree": fd(tl=I, variant=st.sampled_from(["empty", "clone", "clone", "foreign_kw", "seed_node", "seed_node"]), t=I, ns=NSSEL),
    "tl_migrate": fd(tl=I, ns=NSSEL, unify=st.sampled_from([True, True, False]), route=st.sampled_from(["migrate", "assign"])),
    "tl_reconstruct": fd(tl=I, unify=B),
    "tl_update": fd(tl=I),
    "tl_remove": fd(tl=I, i=I, j=I, how=st.sampled_from(["pop", "remove", "del", "delslice"])),
    "ta_add": fd(ta=I, tl=I, i=I, loose=st.sampled_from([False, False, True]), t=I),
    "ta_read": fd(ta=I, doc=DOC),
    "ta_rebuild": fd(ta=I, tl=I),
    "ta_new": fd(ns=NSSEL),
    "ta_merge": fd(a=I, b=I, how=st.sampled_from(["update", "extend", "iadd", "add"]), same=B, doc=DOC, ns=st.integers(0, 2)),
    "ds_add": fd(kind=st.sampled_from(["tlist", "matrix"]), k=I),
    "ds_read": fd(doc=DOC, nsmode=st.sampled_from(["none", "none", "pass", "wrong"]), ns=NSSEL),
    "ds_new_tlist": fd(variant=st.sampled_from(["empty", "clone", "list", "foreign_kw"]), s=I, n=st.integers(1, 2), ns=NSSEL,
                       passns=B),
    "ds_new_matrix": fd(variant=st.sampled_from(["empty", "clone", "foreign_kw"]), s=I, ns=NSSEL, passns=B),
    "ds_attach": fd(ns=NSSEL),
    "ds_detach": fd(),
    "ds_unify": fd(ns=st.one_of(st.none(), NSSEL), attach=B),
    "cm_new_sequence": fd(m=I, variant=st.sampled_from(["free", "free", "foreign", "existing"]), l=LBL, k=I),
    "cm_setitem": fd(m=I, variant=st.sampled_from(["taxon", "label", "index", "foreign", "absent"]), l=LBL, k=I),
    "cm_migrate": fd(m=I, ns=NSSEL, unify=st.sampled_from([True, True, False]), route=st.sampled_from(["migrate", "assign"])),
    "cm_reconstruct": fd(m=I, unify=B),
    "cm_bulk": fd(m=I, o=I, rows=st.lists(LBL, min_size=1, max_size=3), method=st.sampled_from(["add_sequences", "replace_sequences", "update_sequences",
                                                    "extend_sequences", "extend_sequences_new", "extend_matrix"])),
    "cm_clone": fd(m=I, ns=NSSEL),
    "tree_migrate": fd(t=I, ns=NSSEL, unify=st.sampled_from([True, True, False])),
    "tree_clone": fd(t=I, ns=NSSEL),
    "tree_from_nodes": fd(t=I, mix=I, ns=NSSEL, give_ns=B),
    "migrate_shared_memo": fd(m=I, ns=NSSEL, unify=st.sampled_from([True, True, False]), extra=st.lists(LBL, min_size=0, max_size=2),
                              order=B, own=st.integers(0, 2), src=st.sampled_from([1, 4, 1, 4, 0, 2, 3, 5, 6]),
                              rows=st.lists(LBL, min_size=1, max_size=4), partners=B, how=HOW),
    "ns_clear_and_repair": fd(n=I, how=I),
    "rename_taxon": fd(n=I, k=I, l=LBL, mode=st.integers(0, 2)),
}

INIT = fd(tl_cs=B, cm_cs=B, cm_shares=B, dtype=st.sampled_from(["dna", "standard"]), ds_attached=st.sampled_from([0, 1, 2]),
          start=st.lists(MK, min_size=0, max_size=2), rows=st.lists(LBL, min_size=0, max_size=3),
          loose=st.lists(MK, min_size=1, max_size=3))

MAX_LOOSE, MAX_LISTS, MAX_MATS, MAX_LEN = 8, 7, 6, 8


# ---------------------------------------------------------------------------
# records
# ---------------------------------------------------------------------------
class NRec(object):
    def __init__(self, ns):
        self.ns = ns
        self.taxa = list(ns)


class TRec(object):
    def __init__(self, tree, ns, slots, born):
        self.tree, self.ns, self.slots, self.born = tree, ns, slots, born


class LRec(object):
    def __init__(self, tl, ns, members, born):
        self.tl, self.ns, self.members, self.born = tl, ns, members, born
        self.modified = born


class ARec(object):
    """TreeArray: namespace + per accessioned tree (ids of its leaf taxa, its non-trivial unrooted splits over them)."""
    def __init__(self, ta, ns, trees=None):
        self.ta, self.ns, self.trees = ta, ns, list(trees or [])


class MRec(object):
    def __init__(self, m, ns, rows, born):
        self.m, self.ns, self.rows, self.born = m, ns, rows, born
        self.modified = born


def keyfn(ns):
    if ns.is_case_sensitive:
        return lambda s: s
    return lambda s: str(s).lower()


def lab_text(label, quote):
    if label == "x y":
        return "'x y'" if quote else "x_y"
    if "_" in label:
        return "'%s'" % label
    return label


def nest(items, shape):
    if len(items) == 1:
        return items[0]
    if len(items) == 2:
        return "(%s,%s)" % (items[0], items[1])
    cut = 1 + shape % (len(items) - 1)
    return "(%s,%s)" % (nest(items[:cut], shape // 3), nest(items[cut:], shape // 7))


def with_partners(rows):
    """label indices + the pool labels that differ from them only in case (equal under str.lower())."""
    out = []
    for li in rows:
        out.append(li)
        for k, x in enumerate(POOL):
            if k != li and x.lower() == POOL[li].lower():
                out.append(k)
    return out


def spec_labels(spec):
    if isinstance(spec, int):
        return [POOL[spec]]
    out = [POOL[spec[0]]] if spec[0] >= 0 else []
    for c in spec[1:]:
        out.extend(spec_labels(c))
    return out


# ---------------------------------------------------------------------------
# interpreter
# ---------------------------------------------------------------------------
class Interp(object):
    def __init__(self, ctx, init):
        import dendropy
        from dendropy.utility import error
        self.d = dendropy
        self.err = error
        self.ctx = ctx
        self.stepno = 0
        self.opname = "init"
        self.seqno = 0
        self.nss = {}
        self.nt_events = 0
        self.renamed = 0
        self.trace = [["init", init]]
        self.dtype = init["dtype"]
        self.mtype = dendropy.DnaCharacterMatrix if self.dtype == "dna" else dendropy.StandardCharacterMatrix
        d = dendropy
        self.pool_ns = [d.TaxonNamespace(label="P0"), d.TaxonNamespace(label="P1", is_case_sensitive=True),
                        d.TaxonNamespace(label="P2")]
        for ns in self.pool_ns:
            self.nrec(ns)
        self.loose, self.tlists, self.mats = [], [], []
        # main tree list
        ns = d.TaxonNamespace(label="TL", is_case_sensitive=init["tl_cs"])
        self.nrec(ns)
        main = LRec(d.TreeList(taxon_namespace=ns), ns, [], 0)
        self.tlists.append(main)
        for mk in init["start"]:
            mk = expand_mk(mk)
            tree = self.build_tree(mk["spec"], ns, mk["how"])
            main.tl.append(tree)
            main.members.append(TRec(tree, ns, self.slots(tree), 0))
        self.resnap(ns)
        # main matrix
        if init["cm_shares"]:
            mns = ns
        else:
            mns = d.TaxonNamespace(label="CM", is_case_sensitive=init["cm_cs"])
            self.nrec(mns)
        self.mats.append(self.build_matrix(init["rows"], mns, "require"))
        # data set
        self.ds = d.DataSet()
        self.ds_lists, self.ds_mats = [], []
        self.ds_nss = []
        self.ds_attached = None
        self.ds_unified = False
        if init["ds_attached"] == 1:
            self.ds.attach_taxon_namespace(ns)
            self.ds_attached = ns
            self.ds_nss.append(ns)
            self.ds_unified = True
        elif init["ds_attached"] == 2:
            fresh = d.TaxonNamespace(label="DS")
            self.nrec(fresh)
            self.ds.attach_taxon_namespace(fresh)
            self.ds_attached = fresh
            self.ds_nss.append(fresh)
            self.ds_unified = True
        # tree array over the main list's namespace
        self.tas = [ARec(d.TreeArray(taxon_namespace=ns), ns)]
        for mk in init["loose"]:
            self.op_mk_tree(mk)
        self.opname = "init"
        self.check_all()

    # -- small helpers -------------------------------------------------------------
    def V(self, cond, clause, detail=""):
        if not cond:
            det = detail() if callable(detail) else detail
            self.ctx.fail(clause, "C11." + clause, "%s [after op %s #%d] history=%r" % (det, self.opname, self.stepno, self.trace[-6:]))
            raise runner.KnownSkip()

    def lib(self, fn, *args, **kw):
        allowed = kw.pop("_allowed", ())
        return self.ctx.call("C11.%s" % self.opname, fn, *args, _allowed=allowed, **kw)

    def refused(self, exc, fn, *args, **kw):
        """Call fn; -> (True, None) when it refused with the documented error `exc`, else (False, result).  Used where a
        refusal is the only acceptable alternative to doing the work completely (two rows colliding on one taxon)."""
        try:
            return False, self.lib(fn, *args, _allowed=(exc,), **kw)
        except exc:
            self.ctx.cls("refusal:%s:%s" % (self.opname, exc.__name__))
            return True, None

    def expect_error(self, exc, what, fn, *args, **kw):
        """The documented refusal `exc` must be raised."""
        try:
            self.lib(fn, *args, _allowed=(exc,), **kw)
        except exc as e:
            self.V(isinstance(e, exc), "documented_error")
            self.ctx.cls("refusal:%s:%s" % (self.opname, exc.__name__))
            return
        self.V(False, "documented_error_missing:%s" % self.opname, "%s did not raise %s" % (what, exc.__name__))

    def nrec(self, ns):
        r = self.nss.get(id(ns))
        if r is None:
            r = NRec(ns)
            self.nss[id(ns)] = r
        return r

    def resnap(self, ns):
        self.nrec(ns).taxa = list(ns)

    def pick_ns(self, sel):
        d = self.d
        if sel <= 2:
            return self.pool_ns[sel]
        if sel == 3 or sel == 4:
            ns = d.TaxonNamespace(is_case_sensitive=(sel == 4))
            self.nrec(ns)
            return ns
        if sel == 5:
            return self.tlists[0].ns
        if sel == 6:
            return self.mats[0].ns
        if sel == 7:
            if self.ds_attached is not None:
                return self.ds_attached
            return self.tlists[-1].ns
        return self.mats[-1].ns

    def pick_list(self, k):
        k = k % (len(self.tlists) + 2)
        return self.tlists[k] if k < len(self.tlists) else self.tlists[0]

    def pick_mat(self, k):
        k = k % (len(self.mats) + 2)
        return self.mats[k] if k < len(self.mats) else self.mats[0]

    def slots(self, tree):
        return [nd.taxon for nd in tree.preorder_node_iter()]

    def next_seq(self):
        self.seqno += 1
        n = self.seqno
        if self.dtype == "dna":
            s = ""
            for _ in range(6):
                s = "ACGT"[n % 4] + s
                n //= 4
            return s
        return format(n, "010b")

    def read_rows(self, m):
        """content -> taxon for every row (through the public poll_taxa / [] interface)."""
        taxa = m.poll_taxa()
        self.V(len(taxa) == len(m), "matrix_row_count", lambda: "len(matrix)=%d but %d row taxa" % (len(m), len(taxa)))
        rows = {}
        for t in taxa:
            c = m[t].symbols_as_string()
            self.V(c not in rows, "matrix_row_content_duplicated", lambda: "sequence %r present on two rows" % c)
            rows[c] = t
        return rows

    def build_tree(self, spec, ns, how):
        d = self.d
        tree = d.Tree(taxon_namespace=ns)

        def tax(li):
            if how == "new":
                return ns.new_taxon(POOL[li])
            return ns.require_taxon(POOL[li])

        def fill(node, s):
            if isinstance(s, int):
                node.taxon = tax(s)
                return
            if s[0] >= 0:
                node.taxon = tax(s[0])
            for c in s[1:]:
                fill(node.new_child(), c)

        fill(tree.seed_node, spec)
        return tree

    def build_nodes(self, spec, target, mix):
        """Hand-built Node structure (no Tree yet).  Every labelled node gets, by the digits of `mix`, a member of the
        target namespace with that label (if there is one), a taxon of a pool namespace, or a brand-new Taxon that is in no
        namespace at all.  -> root node"""
        d = self.d
        state = [mix]
        K = keyfn(target) if target is not None else (lambda x: x)

        def tax(li):
            label = POOL[li]
            sel = state[0] % 3
            state[0] //= 3
            if sel == 0 and target is not None:
                for t in target:
                    if K(t.label) == K(label):
                        self.ctx.cls("seed_node_taxon:member_of_target")
                        return t
            if sel == 1:
                fns = self.pool_ns[state[0] % 3]
                if fns is not target:
                    t = fns.require_taxon(label)
                    self.resnap(fns)
                    self.ctx.cls("seed_node_taxon:member_of_other_namespace")
                    return t
            self.ctx.cls("seed_node_taxon:in_no_namespace")
            return d.Taxon(label=label)

        def fill(node, sp):
            if isinstance(sp, int):
                node.taxon = tax(sp)
                return
            if sp[0] >= 0:
                node.taxon = tax(sp[0])
            for c in sp[1:]:
                fill(node.new_child(), c)

        root = d.Node()
        fill(root, spec)
        return root

    def node_slots(self, root):
        return [nd.taxon for nd in root.preorder_iter()]

    def build_matrix(self, rows, ns, how):
        m = self.mtype(taxon_namespace=ns)
        seen = set()
        K = keyfn(ns)
        for li in rows:
            label = POOL[li]
            if how == "new":
                t = ns.new_taxon(label)
            else:
                if K(label) in seen:
                    continue
                t = ns.require_taxon(label)
            seen.add(K(label))
            m.new_sequence(t, m.coerce_values(self.next_seq()))
        self.resnap(ns)
        return MRec(m, ns, self.read_rows(m), self.stepno)

    def add_loose(self, rec):
        self.loose.append(rec)
        while len(self.loose) > MAX_LOOSE:
            self.loose.pop(0)

    def take_loose(self, k, mk, fresh=False):
        if fresh or not self.loose:
            self.op_mk_tree(mk)
            return self.loose.pop()
        return self.loose.pop(k % len(self.loose))

    def label_relation(self, labels, taxa):
        have = set(t.label for t in taxa)
        low = set(str(x).lower() for x in have)
        exact = any(l in have for l in labels)
        case = any(l not in have and l.lower() in low for l in labels)
        new = any(l.lower() not in low for l in labels)
        if case:
            self.ctx.cls("imported_labels_include_case_variant_of_existing")
        if not labels:
            return "no_labels"
        if exact or case:
            return "overlap+new" if new else "overlap"
        return "disjoint"

    def note_import(self, src_ns, src_born, dst_ns, dst_modified, labels, pre):
        if src_ns is dst_ns:
            self.ctx.cls("import:same_namespace")
            return
        self.ctx.cls("import:foreign:" + self.label_relation(labels, pre))
        if src_born < dst_modified:
            self.nt_events += 1
            self.ctx.cls("import:foreign_created_before_last_target_change")

    # -- the label / identity oracle -------------------------------------------------
    def check_mapping(self, pairs, ns, pre, mode, universe=None, allow_extra=False, must_have=None):
        """pairs: (old taxon or None, old label or None, new taxon or None) per slot the operation imported into `ns`.
        pre: member list of ns before the operation."""
        V = self.V
        K = keyfn(ns)
        after = list(ns)
        pre_ids = set(id(t) for t in pre)
        after_ids = set(id(t) for t in after)
        V(len(after_ids) == len(after), "namespace_lists_taxon_twice")
        V(pre_ids <= after_ids, "namespace_lost_taxon",
          lambda: "taxa %r no longer in namespace" % [t.label for t in pre if id(t) not in after_ids])
        fresh = [t for t in after if id(t) not in pre_ids]
        fresh_ids = set(id(t) for t in fresh)
        old_ids = set(id(o) for o, _, _ in pairs if o is not None)
        live = []
        for o, l, n in pairs:
            if o is None and l is None:
                V(n is None, "taxon_appeared_on_empty_slot", lambda: "slot without taxon now has %r" % n)
                continue
            V(n is not None, "taxon_dropped_from_slot", lambda: "slot with label %r lost its taxon" % l)
            V(id(n) in after_ids, "taxon_not_in_namespace", lambda: "taxon %r (label %r) of a member is not in the container's namespace %r" % (
                n, n.label, [t.label for t in after]))
            V(n in ns, "namespace_in_disagrees_with_iteration", "taxon listed when iterating the namespace but `in` says no")
            live.append((o, l, n))
        used_fresh = set(id(n) for _, _, n in live if id(n) not in pre_ids)
        if mode in ("unify", "nounify") and live and self.renamed:
            self.ctx.cls("label_matching_op_after_a_rename")
        if mode in ("identity", "add"):
            for o, l, n in live:
                V(n is o, "taxon_replaced_where_kept_expected",
                  lambda: "mode %s: slot taxon %r (label %r) replaced by %r" % (mode, o, l, n))
            if mode == "identity":
                V(not fresh, "namespace_unexpected_growth", lambda: "new taxa %r" % [t.label for t in fresh])
            else:
                want = set(id(o) for o, _, _ in live if id(o) not in pre_ids)
                V(fresh_ids == want, "add_strategy_namespace_growth",
                  lambda: "added %r, expected exactly the tree's own taxon objects" % [t.label for t in fresh])
        elif mode == "unify":
            prek = {}
            for t in pre:
                prek.setdefault(K(t.label), []).append(t)
            groups = {}
            for o, l, n in live:
                V(K(n.label) == K(l), "label_changed", lambda: "slot label %r became %r" % (l, n.label))
                groups.setdefault(K(l), []).append((o, l, n))
            for k, grp in groups.items():
                pm = prek.get(k, [])
                if pm and any(x[1] in NONASCII for x in grp):
                    self.ctx.cls("label_matched_to_existing_taxon:non_ascii:%s" % ("case_sensitive_ns" if ns.is_case_sensitive else "case_insensitive_ns"))
                    if not ns.is_case_sensitive and any(x[1].casefold() != x[1].lower() or x[1].upper().lower() != x[1].lower() for x in grp):
                        self.ctx.cls("label_matched_to_existing_taxon:lower_casefold_upper_disagree:case_insensitive_ns")
                for o, l, n in grp:
                    if pm:
                        V(any(n is t for t in pm), "duplicate_created_for_existing_label",
                          lambda: "label %r already in namespace (%d match) but slot got another taxon object %r; ns=%r" % (
                              l, len(pm), n, [t.label for t in after]))
                    else:
                        V(id(n) not in old_ids, "foreign_taxon_object_adopted",
                          lambda: "label %r: the source's own Taxon object was put into the namespace instead of a new one" % l)
                        cands = [x[1] for x in grp] + [u for u in (universe or []) if K(u) == k]
                        V(n.label in cands, "label_changed", lambda: "new taxon label %r not among %r" % (n.label, cands))
                # documented for unify_taxa_by_label=True: references to distinct Taxon objects with identical labels are
                # replaced with a reference to a single Taxon object - also when the namespace already holds several
                # taxa with that label (after 'add' / unify off) and the references are to members of the namespace
                first = grp[0][2]
                if len(pm) >= 2:
                    self.ctx.cls("unify_over_label_with_2+_taxa_in_namespace")
                    if len(set(id(x[0]) for x in grp if x[0] is not None)) >= 2:
                        self.ctx.cls("unify_over_label_with_2+_taxa_in_namespace:2+_distinct_references")
                # (text sources have no source Taxon objects; which of several equally labelled members a reader picks
                # is not documented, so for reads into such a namespace only membership of the matches is required)
                if len(pm) <= 1 or all(x[0] is not None for x in grp):
                    V(all(x[2] is first for x in grp), "equal_labels_not_unified",
                      lambda: "slots with equal label key %r ended on %d different taxa (namespace held %d taxa with that label)" % (
                          k, len(set(id(x[2]) for x in grp)), len(pm)))
            fk = [K(t.label) for t in fresh]
            V(len(set(fk)) == len(fk) and not any(k in prek for k in fk), "duplicate_taxon_created",
              lambda: "new taxa %r added to namespace that had %r" % ([t.label for t in fresh], [t.label for t in pre]))
            if allow_extra:
                uk = set(K(x) for x in (universe or []))
                V(used_fresh <= fresh_ids and all(K(t.label) in uk for t in fresh), "namespace_unexpected_growth",
                  lambda: "new taxa %r, source labels %r" % ([t.label for t in fresh], sorted(universe or [])))
            else:
                V(fresh_ids == used_fresh, "namespace_unexpected_growth",
                  lambda: "new taxa %r but members use only %d of them" % ([t.label for t in fresh], len(used_fresh)))
        elif mode == "nounify":
            fwd, back = {}, {}
            for o, l, n in live:
                if id(o) in pre_ids:
                    V(n is o, "member_taxon_replaced", lambda: "taxon %r already in namespace was replaced" % l)
                    continue
                V(id(n) in fresh_ids and id(n) not in old_ids, "foreign_taxon_object_adopted",
                  lambda: "label %r: expected a newly created taxon" % l)
                V(n.label == l, "label_changed", lambda: "slot label %r became %r" % (l, n.label))
                V(fwd.setdefault(id(o), n) is n, "one_taxon_split", lambda: "one source taxon %r mapped to two taxa" % l)
                V(back.setdefault(id(n), o) is o, "distinct_taxa_merged",
                  lambda: "two distinct source taxa mapped to one taxon %r although unify_taxa_by_label=False" % l)
            V(fresh_ids == used_fresh, "namespace_unexpected_growth", lambda: "new taxa %r" % [t.label for t in fresh])
        else:
            raise runner.HarnessError("mode " + mode)
        if must_have:
            have = set(K(t.label) for t in after)
            V(all(K(x) in have for x in must_have), "label_dropped", lambda: "labels %r not all in namespace %r" % (
                must_have, [t.label for t in after]))
        self.resnap(ns)

    def pairs_of(self, old, new):
        self.V(len(old) == len(new), "member_node_count_changed", lambda: "%d slots before, %d after" % (len(old), len(new)))
        return [(o, (o.label if o is not None else None), n) for o, n in zip(old, new)]

    def universe_of(self, ns_taxa):
        return [t.label for t in ns_taxa]

    # -- standing invariant ------------------------------------------------------------
    def check_tree(self, rec, where):
        V = self.V
        V(rec.tree.taxon_namespace is rec.ns, "member_namespace_identity",
          lambda: "%s: tree.taxon_namespace is %r, container namespace is %r" % (where, rec.tree.taxon_namespace, rec.ns))
        cur = self.slots(rec.tree)
        V(len(cur) == len(rec.slots) and all(x is y for x, y in zip(cur, rec.slots)), "untouched_tree_changed",
          lambda: "%s: node taxa were %r now %r" % (where, [getattr(t, "label", None) for t in rec.slots],
                                                  [getattr(t, "label", None) for t in cur]))
        ids = set(id(x) for x in rec.ns)
        for t in cur:
            V(t is None or id(t) in ids, "taxon_not_in_namespace",
              lambda: "%s: node taxon %r not in namespace %r" % (where, t.label, [x.label for x in rec.ns]))
            V(t is None or t in rec.ns, "namespace_in_disagrees_with_iteration", "%s: taxon listed by iteration, `in` says no" % where)

    def check_all(self):
        V = self.V
        for r in list(self.nss.values()):
            cur = list(r.ns)
            V(len(cur) == len(r.taxa) and all(x is y for x, y in zip(cur, r.taxa)), "untouched_namespace_changed",
              lambda: "namespace %r was %r now %r" % (r.ns.label, [t.label for t in r.taxa], [t.label for t in cur]))
        for k, rec in enumerate(self.loose):
            self.check_tree(rec, "loose/removed tree %d" % k)
        for k, L in enumerate(self.tlists):
            V(L.tl.taxon_namespace is L.ns, "list_namespace_identity", lambda: "list %d" % k)
            V(len(L.tl) == len(L.members) and all(x is m.tree for x, m in zip(L.tl, L.members)), "list_membership",
              lambda: "list %d has %d trees, model %d" % (k, len(L.tl), len(L.members)))
            for j, m in enumerate(L.members):
                m.ns = L.ns
                self.check_tree(m, "list %d tree %d" % (k, j))
        for k, M in enumerate(self.mats):
            V(M.m.taxon_namespace is M.ns, "matrix_namespace_identity", lambda: "matrix %d" % k)
            cur = self.read_rows(M.m)
            V(set(cur) == set(M.rows) and all(cur[c] is M.rows[c] for c in cur), "untouched_matrix_changed",
              lambda: "matrix %d rows were %r now %r" % (k, sorted((c, t.label) for c, t in M.rows.items()),
                                                         sorted((c, t.label) for c, t in cur.items())))
            for c, t in cur.items():
                V(t in M.ns, "taxon_not_in_namespace", lambda: "matrix %d row taxon %r not in namespace" % (k, t.label))
        ds = self.ds
        V(ds.attached_taxon_namespace is self.ds_attached, "dataset_attached_namespace")
        cl, cm = list(ds.tree_lists), list(ds.char_matrices)
        V(len(cl) == len(self.ds_lists) and all(x is r.tl for x, r in zip(cl, self.ds_lists)), "dataset_membership",
          lambda: "tree_lists %d model %d" % (len(cl), len(self.ds_lists)))
        V(len(cm) == len(self.ds_mats) and all(x is r.m for x, r in zip(cm, self.ds_mats)), "dataset_membership",
          lambda: "char_matrices %d model %d" % (len(cm), len(self.ds_mats)))
        dns = list(ds.taxon_namespaces)
        V(len(dns) == len(self.ds_nss) and all(x is y for x, y in zip(dns, self.ds_nss)), "dataset_taxon_namespaces",
          lambda: "DataSet.taxon_namespaces holds %r, expected %r" % ([x.label for x in dns], [x.label for x in self.ds_nss]))
        comps = self.ds_lists + self.ds_mats
        if self.ds_attached is not None and comps and all(r.ns is self.ds_attached for r in comps):
            self.ctx.cls("dataset_attached_and_all_components_inside_steps")
        for k, A in enumerate(self.tas):
            V(A.ta.taxon_namespace is A.ns and len(A.ta) == len(A.trees), "tree_array_state",
              lambda: "tree array %d: %d trees, model %d" % (k, len(A.ta), len(A.trees)))

    # -- one step ------------------------------------------------------------------------
    def step(self, op, a):
        self.stepno += 1
        self.opname = op
        self.trace.append([op, a])
        self.ctx.cls("op:" + op)
        getattr(self, "op_" + op)(a)
        self.check_all()
        self.ctx.cls("steps_checked")

    def finish(self):
        if self.nt_events:
            self.ctx.nontrivial(self.trace)
            self.ctx.sample("history", {"ops": self.trace[1:7]})

    def skip(self, why):
        self.ctx.cls("skipped:%s:%s" % (self.opname, why))

    # -- pool ------------------------------------------------------------------------------
    def op_mk_tree(self, a):
        a = expand_mk(a)
        ns = self.pick_ns(a["ns"])
        tree = self.build_tree(a["spec"], ns, a["how"])
        self.resnap(ns)
        self.add_loose(TRec(tree, ns, self.slots(tree), self.stepno))

    def op_mk_tlist(self, a):
        if len(self.tlists) >= MAX_LISTS:
            return self.skip("full")
        ns = self.pick_ns(a["ns"])
        tl = self.d.TreeList(taxon_namespace=ns)
        rec = LRec(tl, ns, [], self.stepno)
        how = "new" if a["how"] == 3 else "require"
        for t in a["trees"]:
            tree = self.build_tree(decode_spec(t["ls"], t["shape"], t["il"]), ns, how)
            tl.append(tree)
            rec.members.append(TRec(tree, ns, self.slots(tree), self.stepno))
        self.resnap(ns)
        self.tlists.append(rec)

    def op_mk_matrix(self, a):
        if len(self.mats) >= MAX_MATS:
            return self.skip("full")
        ns = self.pick_ns(a["ns"])
        rows = with_partners(a["rows"])[:6] if a["partners"] else a["rows"]
        if a["partners"]:
            self.ctx.cls("matrix_built_with_case_variant_rows:%s" % ("case_sensitive_ns" if ns.is_case_sensitive else "case_insensitive_ns"))
        self.mats.append(self.build_matrix(rows, ns, "new" if a["how"] == 3 else "require"))

    # -- sources for extend / + / slice assignment --------------------------------------------
    def make_source(self, L, src):
        """-> (python object to pass, kind, list of (source TRec, moved?))"""
        kind = ["tlist", "slice", "list"][src["kind"]]
        if kind == "tlist":
            others = [x for x in self.tlists if x is not L]
            if not others:
                kind = "slice"
            else:
                S = others[src["s"] % len(others)]
                return S.tl, "tlist", [(m, False) for m in S.members], S
        if kind == "slice":
            i, j = src["i"], src["j"]
            sl = self.lib(L.tl.__getitem__, slice(i, j))
            mem = L.members[i:j]
            self.V(isinstance(sl, self.d.TreeList) and sl.taxon_namespace is L.ns and len(sl) == len(mem)
                   and all(x is m.tree for x, m in zip(sl, mem)), "slice_view",
                   "TreeList[i:j] must hold the same trees under the same namespace")
            return sl, "tlist", [(m, False) for m in mem], L
        recs = []
        for q in range(src["n"]):
            recs.append(self.take_loose(src["s"] + q, src["s"] + 13 * q))
        return [r.tree for r in recs], "list", [(r, True) for r in recs], None

    def import_members(self, L, kind, items, S, pre, new_trees, whole=False):
        """Oracle for trees that arrived in list L from a source; returns the new member records."""
        V = self.V
        V(len(new_trees) == len(items), "list_membership", lambda: "%d trees arrived, %d expected" % (len(new_trees), len(items)))
        out = []
        if kind == "list":
            pairs = []
            same = True
            for (r, _), t in zip(items, new_trees):
                V(t is r.tree, "list_membership", "a plain-list source must be added as the original objects")
                new = self.slots(t)
                pairs.extend(self.pairs_of(r.slots, new))
                self.note_import(r.ns, r.born, L.ns, L.modified, [x.label for x in r.slots if x is not None], pre)
                if r.ns is not L.ns:
                    same = False
                out.append(TRec(t, L.ns, new, r.born))
            if same:
                self.check_mapping(pairs, L.ns, pre, "identity")
            else:
                # trees that were already in the namespace keep their taxa: check them separately
                p_same, p_for = [], []
                for (r, _), rec in zip(items, out):
                    (p_same if r.ns is L.ns else p_for).extend(self.pairs_of(r.slots, rec.slots))
                for o, l, n in p_same:
                    V(n is o, "taxon_replaced_where_kept_expected", "tree already in the namespace was remapped")
                self.check_mapping(p_for, L.ns, pre, "unify")
            return out
        pairs = []
        for (r, _), t in zip(items, new_trees):
            V(t is not r.tree, "copy_expected", "a TreeList source must be copied, the original tree was inserted")
            V(t.taxon_namespace is L.ns, "member_namespace_identity", "copied tree carries another namespace")
            new = self.slots(t)
            pairs.extend(self.pairs_of(r.slots, new))
            out.append(TRec(t, L.ns, new, self.stepno))
        if items:
            self.note_import(S.ns, S.born, L.ns, L.modified, [x.label for r, _ in items for x in r.slots if x is not None], pre)
        if S.ns is L.ns:
            self.check_mapping(pairs, L.ns, pre, "identity")
        else:
            self.check_mapping(pairs, L.ns, pre, "unify", universe=self.universe_of(self.nrec(S.ns).taxa), allow_extra=bool(items) or whole)
        return out

    # -- TreeList ------------------------------------------------------------------------------
    def op_tl_append(self, a):
        L = self.pick_list(a["tl"])
        if len(L.members) >= MAX_LEN:
            return self.skip("full")
        T = self.take_loose(a["t"], a["mk"], a["fresh"])
        strat, unify = a["strat"], a["unify"]
        pre = list(L.ns)
        kw = {}
        if strat == "add":
            kw["taxon_import_strategy"] = "add"
        elif not unify:
            kw["unify_taxa_by_label"] = False
        elif a["pos"] % 2:
            kw["taxon_import_strategy"] = "migrate"
        self.note_import(T.ns, T.born, L.ns, L.modified, [x.label for x in T.slots if x is not None], pre)
        if a["insert"]:
            self.lib(L.tl.insert, a["pos"], T.tree, **kw)
            L.members.insert(a["pos"], T)
        else:
            self.lib(L.tl.append, T.tree, **kw)
            L.members.append(T)
        new = self.slots(T.tree)
        pairs = self.pairs_of(T.slots, new)
        if T.ns is L.ns:
            mode = "identity"
        elif strat == "add":
            mode = "add"
        else:
            mode = "unify" if unify else "nounify"
        self.ctx.cls("tl_append:" + mode)
        self.V(T.tree.taxon_namespace is L.ns, "member_namespace_identity", "inserted tree kept its old namespace")
        self.check_mapping(pairs, L.ns, pre, mode)
        T.ns, T.slots = L.ns, new
        L.modified = self.stepno

    def op_tl_extend(self, a):
        L = self.pick_list(a["tl"])
        obj, kind, items, S = self.make_source(L, a["src"])
        if len(L.members) + len(items) > MAX_LEN + 3:
            for r, moved in items:
                if moved:
                    self.add_loose(r)
            return self.skip("full")
        pre = list(L.ns)
        n0 = len(L.members)
        if a["iadd"]:
            tl = L.tl
            tl = self.lib(tl.__iadd__, obj)
            self.V(tl is L.tl, "iadd_returns_self")
        else:
            r = self.lib(L.tl.extend, obj)
            self.V(r is L.tl, "extend_returns_self")
        new_trees = list(L.tl)[n0:]
        self.V(all(x is m.tree for x, m in zip(L.tl, L.members)), "list_membership", "extend changed earlier members")
        L.members.extend(self.import_members(L, kind, items, S, pre, new_trees))
        L.modified = self.stepno

    def op_tl_self_extend(self, a):
        """tl.extend(tl) / tl += tl: like list.extend(self) the members present at the call are copied once."""
        L = self.pick_list(a["tl"])
        if not L.members or len(L.members) > 4:
            return self.skip("empty_or_large")
        pre = list(L.ns)
        n0 = len(L.members)
        fn = L.tl.__iadd__ if a["iadd"] else L.tl.extend
        try:
            budget.run(lambda: self.lib(fn, L.tl), 100000)  # >= 50x the ~1.3e3 events of a 4-tree self-extension
        except budget.HangDetected as e:
            self.V(False, "self_extension_does_not_terminate",
                   "TreeList.extend(self) still running after %d library events with %d trees in the list" % (e.count, len(L.tl)))
        items = [(m, False) for m in L.members]
        L.members.extend(self.import_members(L, "tlist", items, L, pre, list(L.tl)[n0:]))
        L.modified = self.stepno

    def op_tl_add(self, a):
        L = self.pick_list(a["tl"])
        obj, kind, items, S = self.make_source(L, a["src"])
        if len(L.members) + len(items) > MAX_LEN + 3:
            for r, moved in items:
                if moved:
                    self.add_loose(r)
            return self.skip("full")
        pre = list(L.ns)
        R = self.lib(L.tl.__add__, obj)
        V = self.V
        V(isinstance(R, self.d.TreeList) and R is not L.tl and R.taxon_namespace is L.ns, "add_result_namespace",
          "a + b must be a new TreeList under a's namespace")
        trees = list(R)
        n0 = len(L.members)
        V(len(trees) == n0 + len(items), "list_membership", lambda: "a + b has %d trees, expected %d" % (len(trees), n0 + len(items)))
        rec = LRec(R, L.ns, [], self.stepno)
        pairs = []
        for m, t in zip(L.members, trees[:n0]):
            V(t is not m.tree, "copy_expected", "a + b must hold clones of a's trees")
            V(t.taxon_namespace is L.ns, "member_namespace_identity", "clone in a + b carries another namespace")
            new = self.slots(t)
            pairs.extend(self.pairs_of(m.slots, new))
            rec.members.append(TRec(t, L.ns, new, self.stepno))
        for o, l, n in pairs:
            V(n is o, "taxon_replaced_where_kept_expected", "clone of own tree in a + b got other taxa")
        rec.members.extend(self.import_members(rec, kind, items, S, pre, trees[n0:]))
        if a["adopt"]:
            k = [i for i, x in enumerate(self.tlists) if x is L][0]
            self.tlists[k] = rec
            self.tlists.append(L)
            self.ctx.cls("tl_add:adopted")
        elif len(self.tlists) < MAX_LISTS:
            self.tlists.append(rec)

    def op_tl_setitem(self, a):
        L = self.pick_list(a["tl"])
        if not L.members:
            return self.skip("empty")
        i = a["i"] % len(L.members)
        if a["i"] % 3 == 0:
            i -= len(L.members)
        T = self.take_loose(a["t"], a["t"])
        pre = list(L.ns)
        self.note_import(T.ns, T.born, L.ns, L.modified, [x.label for x in T.slots if x is not None], pre)
        self.lib(L.tl.__setitem__, i, T.tree)
        old = L.members[i]
        L.members[i] = T
        new = self.slots(T.tree)
        self.V(T.tree.taxon_namespace is L.ns, "member_namespace_identity", "tree assigned with [i]= kept its old namespace")
        self.check_mapping(self.pairs_of(T.slots, new), L.ns, pre, "identity" if T.ns is L.ns else "unify")
        T.ns, T.slots = L.ns, new
        self.add_loose(TRec(old.tree, L.ns, old.slots, old.born))
        self.ctx.cls("removed_tree_tracked")
        L.modified = self.stepno

    def op_tl_setslice(self, a):
        L = self.pick_list(a["tl"])
        obj, kind, items, S = self.make_source(L, a["src"])
        i, j = a["i"], a["j"]
        if len(L.members) + len(items) > MAX_LEN + 3:
            for r, moved in items:
                if moved:
                    self.add_loose(r)
            return self.skip("full")
        pre = list(L.ns)
        before = list(L.members)
        self.lib(L.tl.__setitem__, slice(i, j), obj)
        removed = before[i:j]
        model = list(before)
        placeholders = [None] * len(items)
        model[i:j] = placeholders
        trees = list(L.tl)
        self.V(len(trees) == len(model), "list_membership", lambda: "after slice assignment %d trees, expected %d" % (len(trees), len(model)))
        new_trees = [t for t, m in zip(trees, model) if m is None]
        for t, m in zip(trees, model):
            self.V(m is None or t is m.tree, "list_membership", "slice assignment disturbed trees outside the slice")
        recs = self.import_members(L, kind, items, S, pre, new_trees)
        it = iter(recs)
        L.members = [m if m is not None else next(it) for m in model]
        for r in removed:
            if not any(r is m for m in L.members):
                self.add_loose(TRec(r.tree, L.ns, r.slots, r.born))
                self.ctx.cls("removed_tree_tracked")
        L.modified = self.stepno
        self.ctx.cls("tl_setslice:%s:%s" % (kind, "foreign" if (S is None or S.ns is not L.ns) else "same"))

    # text sources
    def doc_labels(self, doc, K):
        out, seen = [], set()
        for li in doc["labels"]:
            if K(POOL[li]) not in seen:
                seen.add(K(POOL[li]))
                out.append(POOL[li])
        return out

    def doc_trees(self, doc, labels):
        trees = []
        for ts in doc["trees"]:
            n = max(2, min(ts["n"], len(labels)))
            s = ts["perm"] % len(labels)
            trees.append((labels[s:] + labels[:s])[:n])
        return trees

    def trees_text(self, doc, trees, schema, taxa_block=None, rows=None):
        q = doc["quote"]
        if schema == "newick":
            return "".join(nest([lab_text(x, q) for x in leaves], doc["trees"][k]["shape"]) + ";\n" for k, leaves in enumerate(trees))
        out = ["#NEXUS\n"]
        if taxa_block is not None:
            out.append("BEGIN TAXA;\n  DIMENSIONS NTAX=%d;\n  TAXLABELS %s;\nEND;\n" % (
                len(taxa_block), " ".join(lab_text(x, q) for x in taxa_block)))
        if rows:
            fmt = "DATATYPE=DNA" if self.dtype == "dna" else "DATATYPE=STANDARD SYMBOLS=\"01\""
            out.append("BEGIN CHARACTERS;\n  DIMENSIONS NCHAR=%d;\n  FORMAT %s;\n  MATRIX\n" % (len(rows[0][1]), fmt))
            for l, s in rows:
                out.append("    %s  %s\n" % (lab_text(l, q), s))
            out.append("  ;\nEND;\n")
        if trees:
            out.append("BEGIN TREES;\n")
            tr = None
            if doc["translate"]:
                names = sorted(set(x for leaves in trees for x in leaves))
                tr = dict((x, "n%d" % (k + 1)) for k, x in enumerate(names))
                out.append("  TRANSLATE %s;\n" % ", ".join("%s %s" % (tr[x], lab_text(x, q)) for x in names))
            for k, leaves in enumerate(trees):
                toks = [tr[x] if tr else lab_text(x, q) for x in leaves]
                out.append("  TREE t%d = %s;\n" % (k, nest(toks, doc["trees"][k]["shape"])))
            out.append("END;\n")
        return "".join(out)

    def read_kwargs(self, ns, schema):
        kw = {"schema": schema}
        if ns.is_case_sensitive:
            kw["case_sensitive_taxon_labels"] = True
        return kw

    def check_read_trees(self, new_trees, want, ns):
        """-> pairs, member records for trees parsed from text whose leaf labels (in order) are `want`."""
        V = self.V
        V(len(new_trees) == len(want), "read_tree_count", lambda: "%d trees read, %d in the source" % (len(new_trees), len(want)))
        pairs, recs = [], []
        for t, leaves in zip(new_trees, want):
            V(t.taxon_namespace is ns, "member_namespace_identity", "tree read into a collection carries another namespace")
            got = [nd.taxon for nd in t.leaf_node_iter()]
            V(len(got) == len(leaves), "read_leaf_count", lambda: "%d leaves read, %d in the source" % (len(got), len(leaves)))
            for g, l in zip(got, leaves):
                pairs.append((None, l, g))
            for nd in t.preorder_internal_node_iter():
                V(nd.taxon is None, "read_internal_taxon")
            recs.append(TRec(t, ns, self.slots(t), self.stepno))
        return pairs, recs

    def op_tl_read(self, a):
        L = self.pick_list(a["tl"])
        if len(L.members) >= MAX_LEN:
            return self.skip("full")
        doc = expand_doc(a["doc"])
        labels = self.doc_labels(doc, keyfn(L.ns))
        want = self.doc_trees(doc, labels)
        text = self.trees_text(doc, want, doc["schema"])
        pre = list(L.ns)
        n0 = len(L.members)
        kw = self.read_kwargs(L.ns, doc["schema"])
        everything = [x for w in want for x in w]
        if a["off"] >= 2:
            kw["collection_offset"] = 0
            if a["off"] == 3:
                kw["tree_offset"] = len(want) - 1
                want = want[len(want) - 1:]
            self.ctx.cls("tl_read:with_offsets")
        n = self.lib(L.tl.read, data=text, **kw)
        self.V(n == len(want), "read_tree_count", lambda: "read() returned %r for %d trees" % (n, len(want)))
        pairs, recs = self.check_read_trees(list(L.tl)[n0:], want, L.ns)
        self.ctx.cls("read:" + self.label_relation([x for w in want for x in w], L.ns) if pre else "read:into_empty")
        # documented: all taxa of the source are added, also those of trees skipped by tree_offset
        self.check_mapping(pairs, L.ns, pre, "unify", universe=everything, allow_extra=(a["off"] == 3))
        L.members.extend(recs)
        L.modified = self.stepno

    def op_tl_new_tree(self, a):
        L = self.pick_list(a["tl"])
        if len(L.members) >= MAX_LEN:
            return self.skip("full")
        v = a["variant"]
        pre = list(L.ns)
        if v == "foreign_kw":
            other = self.pick_ns(a["ns"])
            if other is L.ns:
                return self.skip("same_ns")
            return self.expect_error(TypeError, "new_tree(taxon_namespace=<other>)", L.tl.new_tree, taxon_namespace=other)
        if v == "seed_node":
            # a tree around an existing node structure: its taxa are kept as they are and must become members
            root = self.build_nodes(expand_mk(a["t"])["spec"], L.ns, a["t"] // 2 + a["ns"])
            old = self.node_slots(root)
            pre = list(L.ns)
            t = self.lib(L.tl.new_tree, seed_node=root)
            self.V(t.taxon_namespace is L.ns and t.seed_node is root, "member_namespace_identity", "new_tree(seed_node=...)")
            new = self.slots(t)
            self.check_mapping(self.pairs_of(old, new), L.ns, pre, "add")
            self.ctx.cls("tree_around_seed_node:TreeList.new_tree")
        elif v == "clone" and self.loose:
            T = self.loose[a["t"] % len(self.loose)]
            t = self.lib(L.tl.new_tree, T.tree)
            self.V(t is not T.tree and t.taxon_namespace is L.ns, "member_namespace_identity", "new_tree(clone)")
            new = self.slots(t)
            self.note_import(T.ns, T.born, L.ns, L.modified, [x.label for x in T.slots if x is not None], pre)
            if T.ns is L.ns:
                self.check_mapping(self.pairs_of(T.slots, new), L.ns, pre, "identity")
            else:
                self.check_mapping(self.pairs_of(T.slots, new), L.ns, pre, "unify",
                                   universe=self.universe_of(self.nrec(T.ns).taxa), allow_extra=True)
        else:
            t = self.lib(L.tl.new_tree)
            self.V(t.taxon_namespace is L.ns, "member_namespace_identity", "new_tree()")
            new = self.slots(t)
            self.check_mapping([], L.ns, pre, "identity")
        self.V(len(L.tl) == len(L.members) + 1 and L.tl[-1] is t, "list_membership", "new_tree must append the tree")
        L.members.append(TRec(t, L.ns, new, self.stepno))
        L.modified = self.stepno

    def op_tl_migrate(self, a):
        L = self.pick_list(a["tl"])
        X = self.pick_ns(a["ns"])
        if X is L.ns:
            return self.skip("same_ns")
        unify = a["unify"]
        pre = list(X)
        old = [m.slots for m in L.members]
        if a["route"] == "migrate":
            self.lib(L.tl.migrate_taxon_namespace, X, unify_taxa_by_label=unify)
        else:
            L.tl.taxon_namespace = X
            self.lib(L.tl.reconstruct_taxon_namespace, unify_taxa_by_label=unify)
        pairs = []
        for m, o in zip(L.members, old):
            self.V(m.tree.taxon_namespace is X, "member_namespace_identity", "tree of a migrated list kept the old namespace")
            m.slots = self.slots(m.tree)
            m.ns = X
            pairs.extend(self.pairs_of(o, m.slots))
        if L.members:
            self.ctx.cls("list_migrate:" + self.label_relation([l for _, l, _ in pairs if l is not None], X) if pre else "list_migrate:into_empty")
        L.ns = X
        self.check_mapping(pairs, X, pre, "unify" if unify else "nounify")
        L.modified = self.stepno

    def op_tl_reconstruct(self, a):
        L = self.pick_list(a["tl"])
        pre = list(L.ns)
        old = [m.slots for m in L.members]
        self.lib(L.tl.reconstruct_taxon_namespace, unify_taxa_by_label=a["unify"])
        pairs = []
        for m, o in zip(L.members, old):
            m.slots = self.slots(m.tree)
            pairs.extend(self.pairs_of(o, m.slots))
        self.check_mapping(pairs, L.ns, pre, "unify" if a["unify"] else "nounify")

    def op_tl_update(self, a):
        L = self.pick_list(a["tl"])
        pre = list(L.ns)
        self.lib(L.tl.update_taxon_namespace)
        pairs = []
        for m in L.members:
            pairs.extend(self.pairs_of(m.slots, self.slots(m.tree)))
        self.check_mapping(pairs, L.ns, pre, "identity")

    def op_tl_remove(self, a):
        L = self.pick_list(a["tl"])
        if not L.members:
            return self.skip("empty")
        i = a["i"] % len(L.members)
        how = a["how"]
        if how == "pop":
            t = self.lib(L.tl.pop, i)
            self.V(t is L.members[i].tree, "pop_returns_member")
            gone = [L.members.pop(i)]
        elif how == "remove":
            self.lib(L.tl.remove, L.members[i].tree)
            gone = [L.members.pop(i)]
        elif how == "del":
            self.lib(L.tl.__delitem__, i)
            gone = [L.members.pop(i)]
        else:
            j = i + 1 + a["j"] % 2
            self.lib(L.tl.__delitem__, slice(i, j))
            gone = L.members[i:j]
            del L.members[i:j]
        for r in gone:
            self.add_loose(TRec(r.tree, L.ns, r.slots, r.born))
            self.ctx.cls("removed_tree_tracked")
        L.modified = self.stepno

    # -- TreeArray ---------------------------------------------------------------------------------
    def pick_ta(self, k):
        k = k % (len(self.tas) + 1)
        return self.tas[k] if k < len(self.tas) else self.tas[0]

    def topology(self, tree, restrict=None):
        """-> (frozenset of leaf taxon ids, frozenset of non-trivial unrooted splits {side, other side} over them), by an
        own recursion over child nodes; `restrict` = ids of the leaf taxa the comparison is limited to."""
        clusters = []

        def rec(nd):
            ch = list(nd.child_node_iter())
            if not ch:
                return frozenset([id(nd.taxon)])
            c = frozenset()
            for x in ch:
                c = c | rec(x)
            clusters.append(c)
            return c

        leaves = rec(tree.seed_node)
        L = leaves if restrict is None else (leaves & restrict)
        splits = set()
        for c in clusters:
            c = c & L
            o = L - c
            if len(c) >= 2 and len(o) >= 2:
                splits.add(frozenset([c, o]))
        return leaves, frozenset(splits)

    def ta_usable(self, leaves):
        return len(leaves) >= 2 and all(t is not None for t in leaves) and len(set(id(t) for t in leaves)) == len(leaves)

    def verify_array(self, A):
        """Closure through the public restore route: every restored tree is bound to the array's namespace, all its leaf
        taxa are members of that namespace, it holds all taxa of the tree that was added and - restricted to them - the
        same unrooted topology."""
        V = self.V
        V(A.ta.taxon_namespace is A.ns and len(A.ta) == len(A.trees), "tree_array_state",
          lambda: "%d trees in the array, model %d" % (len(A.ta), len(A.trees)))
        members = set(id(t) for t in A.ns)
        for i, (L, topo) in enumerate(A.trees):
            rt = self.lib(A.ta.restore_tree, i)
            V(rt.taxon_namespace is A.ns, "member_namespace_identity", "tree restored from a TreeArray carries another namespace")
            V(all(nd.taxon is not None for nd in rt.leaf_node_iter()), "tree_array_restored_leaf_without_taxon")
            got_leaves, got = self.topology(rt, restrict=L)
            V(got_leaves <= members, "taxon_not_in_namespace", "leaf taxon of a tree restored from a TreeArray is not in its namespace")
            labels = dict((id(t), t.label) for t in A.ns)
            V(L <= got_leaves, "tree_array_restored_tree_lost_taxa",
              lambda: "tree %d was added with taxa %r, restored with %r" % (i, sorted(labels.get(x, "?") for x in L),
                                                                            sorted(labels.get(x, "?") for x in got_leaves)))
            V(got == topo, "tree_array_restored_topology_differs",
              lambda: "tree %d: splits added %r, splits restored (restricted to its taxa) %r" % (
                  i, sorted(sorted(sorted(labels.get(x, "?") for x in side) for side in sp) for sp in topo),
                  sorted(sorted(sorted(labels.get(x, "?") for x in side) for side in sp) for sp in got)))
        self.ctx.cls("tree_array_restore_checked_trees", len(A.trees))

    def op_ta_new(self, a):
        if len(self.tas) >= 4:
            return self.skip("full")
        ns = self.pick_ns(a["ns"])
        self.tas.append(ARec(self.d.TreeArray(taxon_namespace=ns), ns))

    def op_ta_add(self, a):
        A = self.pick_ta(a["ta"])
        if a["loose"] and self.loose:
            rec = self.loose[a["t"] % len(self.loose)]
        else:
            L = self.pick_list(a["tl"])
            if not L.members:
                return self.skip("empty")
            rec = L.members[a["i"] % len(L.members)]
        leaves = [nd.taxon for nd in rec.tree.leaf_node_iter()]
        if rec.ns is not A.ns:
            return self.expect_error(self.err.TaxonNamespaceIdentityError, "TreeArray.add_tree(tree of another namespace)",
                                     A.ta.add_tree, rec.tree)
        if not self.ta_usable(leaves) or len(A.trees) >= 10:
            return self.skip("shape")
        pre = list(A.ns)
        self.lib(A.ta.add_tree, rec.tree)
        self.check_mapping([], A.ns, pre, "identity")
        self.after_encoding(rec, leaves)
        A.trees.append(self.topology(rec.tree))
        self.verify_array(A)
        self.ctx.cls("ta_add:ok")

    def after_encoding(self, rec, leaves):
        """The bipartition encoding may normalise the structure (basal bifurcation, unifurcations); the leaves, their
        taxa and the namespace must be the same, and the leaf set mask must decode to exactly the leaf taxa."""
        now = [nd.taxon for nd in rec.tree.leaf_node_iter()]
        self.V(len(now) == len(leaves) and all(x is y for x, y in zip(now, leaves)), "untouched_tree_changed",
               "leaf taxa changed while the tree was added to a TreeArray")
        self.V(rec.tree.taxon_namespace is rec.ns, "member_namespace_identity", "TreeArray changed the tree's namespace")
        rec.slots = self.slots(rec.tree)
        mask = rec.tree.seed_node.edge.bipartition.leafset_bitmask
        got = set(id(t) for t in rec.ns.bitmask_taxa_list(mask))
        self.V(got == set(id(t) for t in leaves), "tree_array_leafset_outside_tree_taxa",
               lambda: "leaf set mask %s decodes to %r, leaves are %r" % (bin(mask), [t.label for t in rec.ns.bitmask_taxa_list(mask)],
                                                                      [t.label for t in leaves]))

    def ta_read_into(self, A, doc):
        """TreeArray.read of a generated text; the expected trees come from reading the same text as a TreeList under the
        same namespace (second library route) and our own split computation."""
        ns = A.ns
        labels = self.doc_labels(doc, keyfn(ns))
        want = self.doc_trees(doc, labels)
        text = self.trees_text(doc, want, doc["schema"])
        pre = list(ns)
        kw = self.read_kwargs(ns, doc["schema"])
        n = self.lib(A.ta.read, data=text, **kw)
        self.V(n == len(want), "read_tree_count", lambda: "TreeArray.read() returned %r for %d trees" % (n, len(want)))
        used = [x for w in want for x in w]
        self.check_mapping([], ns, pre, "unify", universe=used, allow_extra=True, must_have=used)
        ref = self.lib(self.d.TreeList.get, data=text, taxon_namespace=ns, **kw)
        self.V(len(ref) == len(want), "read_tree_count", "reference TreeList read")
        for t, leaves in zip(ref, want):
            got = [nd.taxon for nd in t.leaf_node_iter()]
            K = keyfn(ns)
            self.V([K(x.label) for x in got] == [K(x) for x in leaves], "read_leaf_count", "reference TreeList read")
            A.trees.append(self.topology(t))
        self.check_mapping([], ns, list(ns), "identity")

    def op_ta_read(self, a):
        A = self.pick_ta(a["ta"])
        if len(A.trees) >= 10:
            return self.skip("full")
        self.ta_read_into(A, expand_doc(a["doc"]))
        self.verify_array(A)

    def op_ta_rebuild(self, a):
        L = self.pick_list(a["tl"])
        leaves = [[nd.taxon for nd in m.tree.leaf_node_iter()] for m in L.members]
        if not all(self.ta_usable(lv) for lv in leaves):
            return self.skip("shape")
        pre = list(L.ns)
        ta = self.lib(self.d.TreeArray.from_tree_list, L.tl)
        self.check_mapping([], L.ns, pre, "identity")
        for m, lv in zip(L.members, leaves):
            self.after_encoding(m, lv)
        A = ARec(ta, L.ns, [self.topology(m.tree) for m in L.members])
        k = a["ta"] % (len(self.tas) + 1)
        if k < len(self.tas):
            self.tas[k] = A
        elif len(self.tas) < 4:
            self.tas.append(A)
        else:
            self.tas[0] = A
        self.verify_array(A)

    def op_ta_merge(self, a):
        """update / extend / += / + between tree arrays.  Same namespace: the operand's trees are appended (or a new array
        holds both).  Foreign namespace (non-empty operand): extend / += / + must refuse - whether the receiver already
        holds trees or not - because split bitmasks only mean something under the namespace they were made for; update()
        has no documented behaviour for that case and is only generated with same-namespace operands."""
        R = self.pick_ta(a["a"])
        how = a["how"]
        others = [x for x in self.tas if x is not R]
        if a["same"]:
            cands = [x for x in others if x.ns is R.ns]
            if cands:
                O = cands[a["b"] % len(cands)]
            else:
                O = ARec(self.d.TreeArray(taxon_namespace=R.ns), R.ns)
                if a["b"] % 4:
                    self.ta_read_into(O, expand_doc(a["doc"]))
        else:
            cands = [x for x in others if x.ns is not R.ns and x.trees]
            if cands:
                O = cands[a["b"] % len(cands)]
            else:
                fns = [x for x in self.pool_ns if x is not R.ns][a["ns"] % 2]
                O = ARec(self.d.TreeArray(taxon_namespace=fns), fns)
                self.ta_read_into(O, expand_doc(a["doc"]))
                if len(self.tas) < 4:
                    self.tas.append(O)
            if how == "update":
                how = "extend"
        state = "empty" if not R.trees else "nonempty"
        if len(R.trees) + len(O.trees) > 14:
            return self.skip("full")
        Ident = self.err.TaxonNamespaceIdentityError
        if O.ns is not R.ns:
            fn = {"extend": R.ta.extend, "iadd": R.ta.__iadd__, "add": R.ta.__add__}[how]
            try:
                res = self.lib(fn, O.ta, _allowed=(AssertionError, Ident))
            except (AssertionError, Ident):
                self.ctx.cls("ta_merge:foreign_refused:%s:receiver_%s" % (how, state))
                self.verify_array(R)
                self.verify_array(O)
                return
            self.V(False, "tree_array_accepted_foreign_namespace_array",
                   "%s of a non-empty TreeArray of another namespace into a%s TreeArray was not refused (now %d trees)" % (
                       how, "n empty" if state == "empty" else " non-empty", len(res) if res is not None else -1))
        fn = {"update": R.ta.update, "extend": R.ta.extend, "iadd": R.ta.__iadd__, "add": R.ta.__add__}[how]
        pre = list(R.ns)
        res = self.lib(fn, O.ta)
        self.check_mapping([], R.ns, pre, "identity")
        if how == "add":
            self.V(isinstance(res, self.d.TreeArray) and res is not R.ta and res is not O.ta and res.taxon_namespace is R.ns,
                   "add_result_namespace", "a + b must be a new TreeArray under a's namespace")
            N = ARec(res, R.ns, R.trees + O.trees)
            self.verify_array(N)
            if len(self.tas) < 4:
                self.tas.append(N)
            elif not any(O is x for x in self.tas):
                pass
            else:
                self.tas[[i for i, x in enumerate(self.tas) if x is O][0]] = N
        else:
            if how in ("extend", "iadd"):
                self.V(res is R.ta, "extend_returns_self")
            R.trees = R.trees + O.trees
        self.verify_array(R)
        self.verify_array(O)
        self.ctx.cls("ta_merge:same_namespace:%s:receiver_%s:operand_%s" % (how, state, "empty" if not O.trees else "nonempty"))

    # -- DataSet -------------------------------------------------------------------------------------
    def ds_room(self):
        return len(self.ds_lists) + len(self.ds_mats) < 6 and len(self.tlists) < MAX_LISTS + 3 and len(self.mats) < MAX_MATS + 3

    def ds_note_component(self, ns):
        """A component under `ns` was added / read / created: the data set must list that namespace."""
        if not any(ns is x for x in self.ds_nss):
            self.ds_nss.append(ns)
        self.V(any(ns is x for x in self.ds.taxon_namespaces), "dataset_namespaces_missing_component_namespace",
               "DataSet.taxon_namespaces does not hold the namespace of a component that was just added")
        if self.ds_attached is not None and ns is not self.ds_attached:
            self.ds_unified = False
        if self.ds_attached is None:
            self.ds_unified = False

    def op_ds_add(self, a):
        if a["kind"] == "tlist":
            r = self.pick_list(a["k"])
            self.lib(self.ds.add, r.tl)
            if not any(r is x for x in self.ds_lists):
                self.ds_lists.append(r)
        else:
            r = self.pick_mat(a["k"])
            self.lib(self.ds.add, r.m)
            if not any(r is x for x in self.ds_mats):
                self.ds_mats.append(r)
        self.ds_note_component(r.ns)

    def op_ds_read(self, a):
        if not self.ds_room():
            return self.skip("full")
        doc, ds = expand_doc(a["doc"]), self.ds
        mode = a["nsmode"]
        given = None
        if mode == "wrong":
            other = self.pick_ns(a["ns"])
            if self.ds_attached is None or other is self.ds_attached:
                mode = "none"
            else:
                return self.expect_error(ValueError, "DataSet.read(taxon_namespace=<not the attached one>)", ds.read,
                                         data="(a,b);", schema="newick", taxon_namespace=other)
        if mode == "pass":
            given = self.ds_attached if self.ds_attached is not None else self.pick_ns(a["ns"])
        target = given if given is not None else self.ds_attached
        cs = target.is_case_sensitive if target is not None else False
        K = (lambda s: s) if cs else (lambda s: str(s).lower())
        labels = self.doc_labels(doc, K)
        want = self.doc_trees(doc, labels)
        schema = doc["schema"]
        rows = []
        if schema == "nexus":
            for q in doc["rows"]:
                l = labels[q % len(labels)]
                if l not in [x[0] for x in rows]:
                    rows.append((l, self.next_seq()))
        text = self.trees_text(doc, want, schema, taxa_block=labels if schema == "nexus" else None, rows=rows)
        kw = {"schema": schema}
        if cs:
            kw["case_sensitive_taxon_labels"] = True
        if given is not None:
            kw["taxon_namespace"] = given
        pre = list(target) if target is not None else []
        known_ns = set(self.nss)
        nl0, nm0 = len(self.ds_lists), len(self.ds_mats)
        self.lib(ds.read, data=text, **kw)
        V = self.V
        new_lists = list(ds.tree_lists)[nl0:]
        new_mats = list(ds.char_matrices)[nm0:]
        V(len(new_lists) == 1 and len(new_mats) == (1 if rows else 0), "read_component_count",
          lambda: "read produced %d tree lists and %d matrices" % (len(new_lists), len(new_mats)))
        comps = new_lists + new_mats
        if target is not None:
            ns = target
            V(all(c.taxon_namespace is ns for c in comps), "read_component_outside_requested_namespace",
              "DataSet.read with an attached / given namespace produced a component under another namespace")
            self.ctx.cls("ds_read:attached" if self.ds_attached is not None else "ds_read:given_ns")
        else:
            ns = comps[0].taxon_namespace
            V(all(c.taxon_namespace is ns for c in comps), "read_components_split_namespaces")
            V(id(ns) not in known_ns, "read_reused_unrelated_namespace", "detached DataSet.read must create a new namespace")
            self.ctx.cls("ds_read:detached")
        tl = new_lists[0]
        V(tl.taxon_namespace is ns, "list_namespace_identity")
        pairs, recs = self.check_read_trees(list(tl), want, ns)
        lrec = LRec(tl, ns, recs, self.stepno)
        mrec = None
        if rows:
            m = new_mats[0]
            got = self.read_rows(m)
            V(set(got) == set(s for _, s in rows), "read_rows", lambda: "rows read %r, source %r" % (sorted(got), rows))
            for l, s in rows:
                pairs.append((None, l, got[s]))
            V(isinstance(m, self.mtype), "read_matrix_type")
            mrec = MRec(m, ns, got, self.stepno)
        if id(ns) not in self.nss:
            self.nss[id(ns)] = NRec(ns)
        self.check_mapping(pairs, ns, pre, "unify", universe=labels, allow_extra=True,
                           must_have=labels if schema == "nexus" else None)
        self.tlists.append(lrec)
        self.ds_lists.append(lrec)
        if mrec is not None:
            self.mats.append(mrec)
            self.ds_mats.append(mrec)
        self.ds_note_component(ns)

    def op_ds_new_tlist(self, a):
        if not self.ds_room():
            return self.skip("full")
        ds, v, V = self.ds, a["variant"], self.V
        if v == "foreign_kw":
            other = self.pick_ns(a["ns"])
            if self.ds_attached is None or other is self.ds_attached:
                v = "empty"
            else:
                return self.expect_error(TypeError, "DataSet.new_tree_list(taxon_namespace=<not the attached one>)",
                                         ds.new_tree_list, taxon_namespace=other)
        kw = {}
        given = None
        if self.ds_attached is None and a["passns"]:
            given = self.pick_ns(a["ns"])
            kw["taxon_namespace"] = given
        elif self.ds_attached is not None and a["passns"]:
            kw["taxon_namespace"] = self.ds_attached
        target = self.ds_attached if self.ds_attached is not None else given
        S = None
        if v == "clone":
            S = self.pick_list(a["s"])
            if target is None:
                target = S.ns
            pre = list(target)
            tl = self.lib(ds.new_tree_list, S.tl, **kw)
            V(tl.taxon_namespace is target, "list_namespace_identity", "DataSet.new_tree_list(<TreeList>)")
            rec = LRec(tl, target, [], self.stepno)
            items = [(m, False) for m in S.members]
            rec.members = self.import_members(rec, "tlist", items, S, pre, list(tl), whole=True)
        elif v == "list":
            recs = [self.take_loose(a["s"] + q, a["s"] + 13 * q) for q in range(a["n"])]
            known = set(self.nss)
            pre = list(target) if target is not None else []
            tl = self.lib(ds.new_tree_list, [r.tree for r in recs], **kw)
            if target is None:
                target = tl.taxon_namespace
                V(id(target) not in known, "new_list_reused_unrelated_namespace")
                self.nss[id(target)] = NRec(target)
                self.nss[id(target)].taxa = []
            V(tl.taxon_namespace is target, "list_namespace_identity", "DataSet.new_tree_list(<list of trees>)")
            rec = LRec(tl, target, [], self.stepno)
            rec.members = self.import_members(rec, "list", [(r, True) for r in recs], None, pre, list(tl))
        else:
            known = set(self.nss)
            tl = self.lib(ds.new_tree_list, **kw)
            if target is None:
                target = tl.taxon_namespace
                V(id(target) not in known and len(target) == 0, "new_list_reused_unrelated_namespace")
                self.nrec(target)
            V(tl.taxon_namespace is target and len(tl) == 0, "list_namespace_identity", "DataSet.new_tree_list()")
            rec = LRec(tl, target, [], self.stepno)
        self.tlists.append(rec)
        self.ds_lists.append(rec)
        self.ds_note_component(target)
        self.ctx.cls("ds_new_tlist:%s:%s" % (v, "attached" if self.ds_attached is not None else "detached"))

    def rows_collide(self, M, X):
        K = keyfn(X)
        ks = [K(t.label) for t in M.rows.values()]
        return len(set(ks)) != len(ks)

    def op_ds_new_matrix(self, a):
        if not self.ds_room():
            return self.skip("full")
        ds, v, V = self.ds, a["variant"], self.V
        if v == "foreign_kw":
            other = self.pick_ns(a["ns"])
            if self.ds_attached is None or other is self.ds_attached:
                v = "empty"
            else:
                return self.expect_error(TypeError, "DataSet.new_char_matrix(taxon_namespace=<not the attached one>)",
                                         ds.new_char_matrix, self.dtype, taxon_namespace=other)
        kw = {}
        given = None
        if self.ds_attached is None and a["passns"]:
            given = self.pick_ns(a["ns"])
            kw["taxon_namespace"] = given
        target = self.ds_attached if self.ds_attached is not None else given
        if v == "clone":
            S = self.pick_mat(a["s"])
            if target is None:
                target = S.ns
            pre = list(target)
            if target is not S.ns and self.rows_collide(S, target):
                # two rows would land on one taxon: refusing is fine, silently keeping one of them is not
                no, m = self.refused(self.err.TaxonNamespaceReconstructionError, ds.new_char_matrix, self.mtype, S.m, **kw)
                if no:
                    return self.check_mapping([], target, pre, "unify", universe=self.universe_of(self.nrec(S.ns).taxa), allow_extra=True)
            else:
                m = self.lib(ds.new_char_matrix, self.mtype, S.m, **kw)
            rec = self.check_matrix_copy(S, m, target, pre)
        else:
            known = set(self.nss)
            m = self.lib(ds.new_char_matrix, self.dtype if a["s"] % 2 else self.mtype, **kw)
            if target is None:
                target = m.taxon_namespace
                V(id(target) not in known and len(target) == 0, "new_matrix_reused_unrelated_namespace")
                self.nrec(target)
            V(m.taxon_namespace is target and len(m) == 0 and isinstance(m, self.mtype), "matrix_namespace_identity",
              "DataSet.new_char_matrix()")
            rec = MRec(m, target, {}, self.stepno)
        self.mats.append(rec)
        self.ds_mats.append(rec)
        self.ds_note_component(target)
        self.ctx.cls("ds_new_matrix:%s:%s" % (v, "attached" if self.ds_attached is not None else "detached"))

    def op_ds_attach(self, a):
        X = self.pick_ns(a["ns"])
        r = self.lib(self.ds.attach_taxon_namespace, X)
        self.V(r is X and any(x is X for x in self.ds.taxon_namespaces), "dataset_attach")
        self.ds_attached = X
        if not any(X is x for x in self.ds_nss):
            self.ds_nss.append(X)
        self.ds_unified = all(c.ns is X for c in self.ds_lists + self.ds_mats)

    def op_ds_detach(self, a):
        r = self.lib(self.ds.detach_taxon_namespace)
        self.V(r is self.ds_attached, "dataset_detach")
        self.ds_attached = None
        self.ds_unified = False

    def op_ds_unify(self, a):
        ds, V = self.ds, self.V
        comps = self.ds_lists + self.ds_mats
        X = self.pick_ns(a["ns"]) if a["ns"] is not None else None
        if not comps and X is None:
            return self.skip("empty")
        cs = X.is_case_sensitive if X is not None else False
        K = (lambda s: s) if cs else (lambda s: str(s).lower())
        collide = False
        for M in self.ds_mats:
            ks = [K(t.label) for t in M.rows.values()]
            if len(set(ks)) != len(ks):
                collide = True
        if collide and (any(c is self.tlists[0] for c in self.ds_lists) or any(c is self.mats[0] for c in self.ds_mats)):
            return self.skip("matrix_rows_would_collide")
        pre = list(X) if X is not None else []
        known = set(self.nss)
        old_l = [[m.slots for m in L.members] for L in self.ds_lists]
        old_m = [dict(M.rows) for M in self.ds_mats]
        old_nss = []
        for c in comps:
            if not any(c.ns is x for x in old_nss):
                old_nss.append(c.ns)
        kw = {}
        if not a["attach"]:
            kw["attach_taxon_namespace"] = False
        args = (X,) if X is not None else ()
        if collide:
            # two rows of one matrix would end on one taxon: the documented refusal, or nothing may be lost
            self.ctx.cls("ds_unify:matrix_rows_collide")
            no, _ = self.refused(self.err.TaxonNamespaceReconstructionError, ds.unify_taxon_namespaces, *args, **kw)
            if no:
                # half-unified data set: drop it and its components from the model, start a new one
                for c in self.ds_lists:
                    self.tlists.remove(c)
                for c in self.ds_mats:
                    self.mats.remove(c)
                self.ds = self.d.DataSet()
                self.ds_lists, self.ds_mats, self.ds_nss = [], [], []
                self.ds_attached, self.ds_unified = None, False
                for r in list(self.nss.values()):
                    r.taxa = list(r.ns)
                return
        else:
            self.lib(ds.unify_taxon_namespaces, *args, **kw)
        if X is None:
            cur = list(ds.taxon_namespaces)
            V(len(cur) == 1 and id(cur[0]) not in known, "dataset_unify_new_namespace",
              lambda: "unify_taxon_namespaces() must leave exactly one, new, namespace; found %d" % len(cur))
            X = cur[0]
            self.nss[id(X)] = NRec(X)
            self.nss[id(X)].taxa = []
        pairs = []
        for L, olds in zip(self.ds_lists, old_l):
            V(L.tl.taxon_namespace is X, "list_namespace_identity", "tree list not moved by unify_taxon_namespaces")
            L.ns = X
            for m, o in zip(L.members, olds):
                V(m.tree.taxon_namespace is X, "member_namespace_identity", "tree not moved by unify_taxon_namespaces")
                m.slots, m.ns = self.slots(m.tree), X
                pairs.extend(self.pairs_of(o, m.slots))
            L.modified = self.stepno
        for M, olds in zip(self.ds_mats, old_m):
            V(M.m.taxon_namespace is X, "matrix_namespace_identity", "matrix not moved by unify_taxon_namespaces")
            M.ns = X
            new = self.read_rows(M.m)
            V(set(new) == set(olds), "matrix_rows_silently_dropped_or_merged", lambda: "rows %r -> %r" % (sorted(olds), sorted(new)))
            M.rows = new
            for c, o in olds.items():
                pairs.append((o, o.label, new[c]))
            M.modified = self.stepno
        self.check_mapping(pairs, X, pre, "unify")
        if comps or self.ds_nss:
            V(any(X is x for x in ds.taxon_namespaces), "dataset_namespaces_missing_component_namespace",
              "after unify_taxon_namespaces the data set does not list the namespace its components were moved to")
            self.ds_nss = [X]
        elif a["attach"]:
            self.ds_nss = [X]
        if a["attach"]:
            self.ds_attached = X
        self.ds_unified = self.ds_attached is X
        # non-triviality: >= 2 source namespaces whose label sets overlap (under the target's rule)
        if len(old_nss) >= 2:
            self.ctx.cls("ds_unify:2+namespaces")
            keysets = []
            for ns0 in old_nss:
                keysets.append(set(K(t.label) for t in self.nrec(ns0).taxa))
            if any(keysets[i] & keysets[j] for i in range(len(keysets)) for j in range(i + 1, len(keysets))):
                self.nt_events += 1
                self.ctx.cls("ds_unify:2+namespaces_overlapping_labels")
        else:
            self.ctx.cls("ds_unify:<2namespaces")

    # -- CharacterMatrix ---------------------------------------------------------------------------------
    def check_matrix_copy(self, S, m, target, pre):
        V = self.V
        V(m is not S.m and m.taxon_namespace is target and isinstance(m, self.mtype), "matrix_namespace_identity", "matrix copy")
        got = self.read_rows(m)
        V(set(got) == set(S.rows), "matrix_rows_silently_dropped_or_merged", lambda: "copy has rows %r, source %r" % (sorted(got), sorted(S.rows)))
        pairs = [(o, o.label, got[c]) for c, o in S.rows.items()]
        self.note_import(S.ns, S.born, target, 0, [o.label for o in S.rows.values()], pre)
        if target is S.ns:
            self.check_mapping(pairs, target, pre, "identity")
        else:
            self.check_mapping(pairs, target, pre, "unify", universe=self.universe_of(self.nrec(S.ns).taxa), allow_extra=True)
        return MRec(m, target, got, self.stepno)

    def op_cm_new_sequence(self, a):
        M = self.pick_mat(a["m"])
        v = a["variant"]
        ns = M.ns
        have = set(id(t) for t in M.rows.values())
        if v == "foreign":
            t = self.d.Taxon(label=POOL[a["l"]])
            for L in self.loose:
                if L.ns is not ns:
                    c = [x for x in L.slots if x is not None and x not in ns]
                    if c:
                        t = c[a["k"] % len(c)]
                        break
            return self.expect_error(ValueError, "new_sequence(taxon outside the namespace)", M.m.new_sequence, t)
        if v == "existing":
            if not have:
                return self.skip("empty")
            t = list(M.rows.values())[a["k"] % len(M.rows)]
            return self.expect_error(ValueError, "new_sequence(taxon that already has a sequence)", M.m.new_sequence, t)
        if len(M.rows) >= 6:
            return self.skip("full")
        free = [t for t in ns if id(t) not in have]
        if free:
            t = free[a["k"] % len(free)]
        else:
            t = ns.new_taxon(POOL[a["l"]])
            self.resnap(ns)
        s = self.next_seq()
        pre = list(ns)
        self.lib(M.m.new_sequence, t, M.m.coerce_values(s))
        M.rows[s] = t
        self.check_mapping([], ns, pre, "identity")
        M.modified = self.stepno

    def op_cm_setitem(self, a):
        M = self.pick_mat(a["m"])
        ns, v = M.ns, a["variant"]
        label = POOL[a["l"]]
        K = keyfn(ns)
        s = self.next_seq()
        vals = M.m.coerce_values(s)
        if v == "foreign":
            return self.expect_error(ValueError, "[taxon outside the namespace]=", M.m.__setitem__, self.d.Taxon(label=label), vals)
        matches = [t for t in ns if K(t.label) == K(label)]
        if v == "absent" or (v == "label" and not matches):
            if matches:
                return self.skip("label_present")
            return self.expect_error(KeyError, "[label not in the namespace]=", M.m.__setitem__, label, vals)
        if len(M.rows) >= 6 or len(ns) == 0:
            return self.skip("full_or_empty")
        pre = list(ns)
        if v == "taxon":
            t = pre[a["k"] % len(pre)]
            self.lib(M.m.__setitem__, t, vals)
        elif v == "index":
            i = a["k"] % len(pre)
            t = pre[i]
            self.lib(M.m.__setitem__, i, vals)
        else:
            self.lib(M.m.__setitem__, label, vals)
            t = None
        new = self.read_rows(M.m)
        self.V(s in new, "setitem_row_missing")
        got = new[s]
        if t is None:
            self.V(any(got is x for x in matches), "setitem_label_resolution", lambda: "[%r]= stored under taxon %r" % (label, got.label))
        else:
            self.V(got is t, "setitem_taxon", "row stored under another taxon")
        for c in [c for c, x in M.rows.items() if x is got]:
            del M.rows[c]
        M.rows[s] = got
        self.check_mapping([], ns, pre, "identity")
        M.modified = self.stepno

    def matrix_migration(self, M, X, unify, call):
        protected = M is self.mats[0] or any(M is x for x in self.ds_mats)
        if unify and self.rows_collide(M, X):
            if protected:
                return self.skip("matrix_rows_would_collide")
            pre = list(X)
            olds = dict(M.rows)
            no, _ = self.refused(self.err.TaxonNamespaceReconstructionError, call)
            if no:
                self.mats.remove(M)
                # half-migrated object, dropped from the model; its namespaces may have grown: adopt what is there
                for r in self.nss.values():
                    r.taxa = list(r.ns)
                return
        else:
            pre = list(X)
            olds = dict(M.rows)
            self.lib(call)
        self.V(M.m.taxon_namespace is X, "matrix_namespace_identity", "matrix kept its old namespace")
        new = self.read_rows(M.m)
        self.V(set(new) == set(olds), "matrix_rows_silently_dropped_or_merged", lambda: "rows %r -> %r" % (sorted(olds), sorted(new)))
        pairs = [(o, o.label, new[c]) for c, o in olds.items()]
        if M.rows:
            self.ctx.cls("matrix_migrate:" + (self.label_relation([o.label for o in olds.values()], X) if pre else "into_empty"))
        M.ns, M.rows = X, new
        self.check_mapping(pairs, X, pre, "unify" if unify else "nounify")
        M.modified = self.stepno

    def op_cm_migrate(self, a):
        M = self.pick_mat(a["m"])
        X = self.pick_ns(a["ns"])
        if X is M.ns:
            return self.skip("same_ns")
        unify = a["unify"]
        if a["route"] == "migrate":
            call = lambda: M.m.migrate_taxon_namespace(X, unify_taxa_by_label=unify)
        else:
            def call():
                M.m.taxon_namespace = X
                M.m.reconstruct_taxon_namespace(unify_taxa_by_label=unify)
        self.matrix_migration(M, X, unify, call)

    def op_cm_reconstruct(self, a):
        M = self.pick_mat(a["m"])
        unify = a["unify"]
        self.matrix_migration(M, M.ns, unify, lambda: M.m.reconstruct_taxon_namespace(unify_taxa_by_label=unify))

    def op_cm_bulk(self, a):
        M = self.pick_mat(a["m"])
        others = [x for x in self.mats if x is not M]
        same = [x for x in others if x.ns is M.ns]
        want_same = a["o"] % 3 != 1
        if want_same and not same and len(self.mats) < MAX_MATS + 2:
            O = self.build_matrix(a["rows"], M.ns, "require")
            self.mats.append(O)
            same = [O]
        if same and want_same:
            O = same[a["o"] % len(same)]
        elif others:
            O = others[a["o"] % len(others)]
        else:
            return self.skip("no_other")
        meth = a["method"]
        kw = {}
        name = meth
        if meth == "extend_sequences_new":
            name, kw = "extend_sequences", {"is_add_new_sequences": True}
        fn = getattr(M.m, name)
        if O.ns is not M.ns:
            return self.expect_error(self.err.TaxonNamespaceIdentityError, "%s(matrix of another namespace)" % name, fn, O.m, **kw)
        pre = list(M.ns)
        mine = dict((id(t), (t, c)) for c, t in M.rows.items())
        theirs = dict((id(t), (t, c)) for c, t in O.rows.items())
        want = []
        for k, (t, c) in mine.items():
            if k in theirs:
                oc = theirs[k][1]
                if meth in ("replace_sequences", "update_sequences"):
                    want.append((oc, t))
                elif meth in ("extend_sequences", "extend_sequences_new", "extend_matrix"):
                    want.append((c + oc, t))
                else:
                    want.append((c, t))
            else:
                want.append((c, t))
        for k, (t, c) in theirs.items():
            if k not in mine and meth in ("add_sequences", "update_sequences", "extend_sequences_new", "extend_matrix"):
                want.append((c, t))
        if len(set(c for c, _ in want)) != len(want) or len(want) > 8 or any(len(c) > 60 for c, _ in want):
            return self.skip("content_not_unique_or_large")
        want = dict(want)
        self.lib(fn, O.m, **kw)
        got = self.read_rows(M.m)
        self.V(set(got) == set(want) and all(got[c] is want[c] for c in got), "bulk_rows",
               lambda: "%s: rows %r expected %r" % (meth, sorted((c, t.label) for c, t in got.items()),
                                                    sorted((c, t.label) for c, t in want.items())))
        M.rows = got
        self.check_mapping([], M.ns, pre, "identity")
        self.ctx.cls("cm_bulk:same_namespace")
        M.modified = self.stepno

    def op_cm_clone(self, a):
        if len(self.mats) >= MAX_MATS:
            return self.skip("full")
        S = self.pick_mat(a["m"])
        X = self.pick_ns(a["ns"])
        pre = list(X)
        if X is not S.ns and self.rows_collide(S, X):
            # two rows would land on one taxon: refusing is fine, silently keeping one of them is not
            no, m = self.refused(self.err.TaxonNamespaceReconstructionError, self.mtype, S.m, taxon_namespace=X)
            if no:
                return self.check_mapping([], X, pre, "unify", universe=self.universe_of(self.nrec(S.ns).taxa), allow_extra=True)
        else:
            m = self.lib(self.mtype, S.m, taxon_namespace=X)
        self.mats.append(self.check_matrix_copy(S, m, X, pre))

    # -- loose trees -----------------------------------------------------------------------------------------
    def op_tree_migrate(self, a):
        if not self.loose:
            return self.skip("empty")
        T = self.loose[a["t"] % len(self.loose)]
        X = self.pick_ns(a["ns"])
        if X is T.ns:
            return self.skip("same_ns")
        pre = list(X)
        self.lib(T.tree.migrate_taxon_namespace, X, unify_taxa_by_label=a["unify"])
        self.V(T.tree.taxon_namespace is X, "member_namespace_identity", "Tree.migrate_taxon_namespace")
        new = self.slots(T.tree)
        pairs = self.pairs_of(T.slots, new)
        T.ns, T.slots = X, new
        self.check_mapping(pairs, X, pre, "unify" if a["unify"] else "nounify")

    def op_tree_clone(self, a):
        if not self.loose:
            return self.skip("empty")
        T = self.loose[a["t"] % len(self.loose)]
        X = self.pick_ns(a["ns"])
        pre = list(X)
        t = self.lib(self.d.Tree, T.tree, taxon_namespace=X)
        self.V(t is not T.tree and t.taxon_namespace is X, "member_namespace_identity", "Tree(tree, taxon_namespace=ns)")
        new = self.slots(t)
        pairs = self.pairs_of(T.slots, new)
        if X is T.ns:
            self.check_mapping(pairs, X, pre, "identity")
        else:
            self.check_mapping(pairs, X, pre, "unify", universe=self.universe_of(self.nrec(T.ns).taxa), allow_extra=True)
        self.add_loose(TRec(t, X, new, self.stepno))


    def op_tree_from_nodes(self, a):
        """Tree(seed_node=root[, taxon_namespace=ns]): the node taxa are kept and must all be members of the tree's namespace
        (the given one, or a new one holding exactly them)."""
        X = self.pick_ns(a["ns"]) if a["give_ns"] else None
        root = self.build_nodes(expand_mk(a["t"])["spec"], X, a["mix"])
        old = self.node_slots(root)
        known = set(self.nss)
        if X is not None:
            pre = list(X)
            t = self.lib(self.d.Tree, seed_node=root, taxon_namespace=X)
            self.V(t.taxon_namespace is X, "member_namespace_identity", "Tree(seed_node=..., taxon_namespace=ns)")
            self.ctx.cls("tree_around_seed_node:Tree(given_namespace)")
        else:
            pre = []
            t = self.lib(self.d.Tree, seed_node=root)
            X = t.taxon_namespace
            self.V(id(X) not in known, "new_tree_reused_unrelated_namespace")
            self.nss[id(X)] = NRec(X)
            self.nss[id(X)].taxa = []
            self.ctx.cls("tree_around_seed_node:Tree(new_namespace)")
        self.V(t.seed_node is root, "seed_node_kept")
        new = self.slots(t)
        self.check_mapping(self.pairs_of(old, new), X, pre, "add")
        self.add_loose(TRec(t, X, new, self.stepno))

    # -- tree list + matrix over one namespace, migrated with one shared taxon_mapping_memo -------------------------
    def op_migrate_shared_memo(self, a):
        """The typical data set by hand: a tree list whose tree spans the taxa of a matrix (same namespace); both are moved
        to another namespace with one shared taxon_mapping_memo (documented parameter).  Same source taxon => same target
        taxon across both objects; two rows that end on one taxon must be refused, never merged silently."""
        if a["own"] and len(self.mats) < MAX_MATS + 3:
            rows = with_partners(a["rows"])[:6] if a["partners"] else a["rows"]
            M = self.build_matrix(rows, self.pick_ns(a["src"]), "new" if a["how"] == 3 else "require")
            self.mats.append(M)
        else:
            M = self.pick_mat(a["m"])
        X = self.pick_ns(a["ns"])
        S = M.ns
        if X is S:
            return self.skip("same_ns")
        protected = M is self.mats[0] or any(M is x for x in self.ds_mats)
        unify = a["unify"]
        collide = unify and self.rows_collide(M, X)
        if collide and protected:
            return self.skip("matrix_rows_would_collide")
        d = self.d
        taxa = list(M.rows.values())
        for li in a["extra"]:
            taxa.append(S.require_taxon(POOL[li]))
        self.resnap(S)
        if len(taxa) < 2:
            return self.skip("too_few_taxa")
        tree = d.Tree(taxon_namespace=S)
        inner = tree.seed_node.new_child()
        for k, t in enumerate(taxa):
            (inner if k % 2 else tree.seed_node).new_child().taxon = t
        if inner.num_child_nodes() == 0:
            tree.seed_node.remove_child(inner)
        tl = d.TreeList(taxon_namespace=S)
        tl.append(tree)
        old_slots = self.slots(tree)
        old_rows = dict(M.rows)
        pre = list(X)
        memo = {}
        Recon = self.err.TaxonNamespaceReconstructionError
        first, second = (tl, M.m) if a["order"] else (M.m, tl)
        self.ctx.cls("migrate_shared_memo:%s:%s" % ("unify" if unify else "nounify", "rows_collide" if collide else "rows_distinct"))

        def call():
            first.migrate_taxon_namespace(X, unify_taxa_by_label=unify, taxon_mapping_memo=memo)
            second.migrate_taxon_namespace(X, unify_taxa_by_label=unify, taxon_mapping_memo=memo)

        if collide:
            no, _ = self.refused(Recon, call)
            if no:
                self.mats.remove(M)
                for r in self.nss.values():
                    r.taxa = list(r.ns)
                return
        else:
            self.lib(call)
        self.V(tl.taxon_namespace is X and tree.taxon_namespace is X and M.m.taxon_namespace is X, "member_namespace_identity",
               "objects migrated with a shared memo")
        new_rows = self.read_rows(M.m)
        self.V(set(new_rows) == set(old_rows), "matrix_rows_silently_dropped_or_merged",
               lambda: "rows %r -> %r" % (sorted(old_rows), sorted(new_rows)))
        new_slots = self.slots(tree)
        pairs = self.pairs_of(old_slots, new_slots) + [(o, o.label, new_rows[c]) for c, o in old_rows.items()]
        M.ns, M.rows = X, new_rows
        self.check_mapping(pairs, X, pre, "unify" if unify else "nounify")
        M.modified = self.stepno
        if len(self.tlists) < MAX_LISTS + 2:
            self.tlists.append(LRec(tl, X, [TRec(tree, X, new_slots, self.stepno)], self.stepno))

    # -- clearing a namespace that is still in use, then repairing its users -------------------------------------------
    def op_ns_clear_and_repair(self, a):
        """ns.clear() while tree lists / matrices / loose trees still refer to its taxa, then the documented repair on every
        user: update_taxon_namespace() (the very same Taxon objects become members again) or
        reconstruct_taxon_namespace(unify_taxa_by_label=False) (every referenced taxon, none of which is a member any more,
        is replaced by a new member with the same label).  Membership is judged by iterating the namespace; `in` must agree."""
        recs = [r for r in self.nss.values() if len(r.taxa)
                and not any(A.ns is r.ns and A.trees for A in self.tas)]
        if not recs:
            return self.skip("no_namespace")
        r = recs[a["n"] % len(recs)]
        X = r.ns
        users = ([("list", L) for L in self.tlists if L.ns is X] + [("matrix", M) for M in self.mats if M.ns is X]
                 + [("tree", T) for T in self.loose if T.ns is X])
        old_members = list(r.taxa)
        self.lib(X.clear)
        self.V(len(X) == 0 and list(X) == [], "namespace_clear", "namespace not empty after clear()")
        self.V(not any(t in X for t in old_members), "namespace_in_disagrees_with_iteration",
               "after clear() the namespace is empty when iterated but `in` still reports old taxa as members")
        self.resnap(X)
        how = a["how"]
        self.ctx.cls("ns_clear:users_%s" % ("0" if not users else "1" if len(users) == 1 else "2+"))
        for kind, rec in users:
            mode = "update" if how % 2 == 0 else "reconstruct_nounify"
            how //= 2
            pre = list(X)
            if kind == "list":
                obj = rec.tl
                old = [m.slots for m in rec.members]
            elif kind == "tree":
                obj = rec.tree
                old = [rec.slots]
            else:
                obj = rec.m
                old_rows = dict(rec.rows)
            if mode == "update":
                self.lib(obj.update_taxon_namespace)
            else:
                self.lib(obj.reconstruct_taxon_namespace, unify_taxa_by_label=False)
            if kind == "matrix":
                new_rows = self.read_rows(rec.m)
                self.V(set(new_rows) == set(old_rows), "matrix_rows_silently_dropped_or_merged",
                       lambda: "rows %r -> %r" % (sorted(old_rows), sorted(new_rows)))
                pairs = [(o, o.label, new_rows[c]) for c, o in old_rows.items()]
                rec.rows = new_rows
            else:
                trecs = rec.members if kind == "list" else [rec]
                pairs = []
                for m, o in zip(trecs, old):
                    m.slots = self.slots(m.tree)
                    pairs.extend(self.pairs_of(o, m.slots))
            self.check_mapping(pairs, X, pre, "add" if mode == "update" else "nounify")
            self.ctx.cls("ns_clear_repair:%s:%s" % (kind, mode))
            if kind != "tree":
                rec.modified = self.stepno

    # -- taxon relabelling ---------------------------------------------------------------------------------------
    def op_rename_taxon(self, a):
        """`taxon.label = new` on a member of a tracked namespace.  Nothing else may change (check_all); every later
        label-matching operation must go by the CURRENT labels - the model reads labels from the Taxon objects, so a
        renamed taxon is simply a member with that label (if another member already has it, the namespace holds two
        taxa with one label, the same documented state as after 'add' / unify off)."""
        recs = [r for r in self.nss.values() if len(r.taxa)]
        if not recs:
            return self.skip("empty")
        r = recs[a["n"] % len(recs)]
        t = r.taxa[a["k"] % len(r.taxa)]
        old = t.label
        K = keyfn(r.ns)
        mode = a["mode"]
        new = None
        if mode == 1:
            alts = [x for x in POOL if x != old and x.lower() == str(old).lower()]
            new = alts[a["l"] % len(alts)] if alts else str(old).swapcase()
        elif mode == 2:
            others = [x.label for x in r.taxa if x is not t and K(x.label) != K(old)]
            if others:
                new = others[a["l"] % len(others)]
        if new is None:
            new = POOL[a["l"]]
            mode = 0
        used = any(x is not t and K(x.label) == K(new) for x in r.taxa)
        t.label = new
        self.V(t.label == new, "rename_label_not_stored")
        kind = "unchanged" if new == old else "case_variant_of_own" if K(new) == K(old) else "label_of_other_member" if used else "unused_label"
        self.ctx.cls("rename:%s:%s" % (kind, "case_sensitive_ns" if r.ns.is_case_sensitive else "case_insensitive_ns"))
        self.renamed = self.renamed + (new != old)


SUBCHECKS = {"machine": stateful.replay(Interp)}


def run(ctx):
    quick = ctx.tier == "quick"
    total = 1600 if quick else 32000
    steps = 30 if quick else 60
    stateful.run_machine(ctx, "machine", Interp, INIT, RULES, total // ctx.nshards, steps)
