"""C15 - every traversal visits each node or edge exactly once in its defining order.

Iterators / collections under test (filter_fn semantics from the docstrings: "only nodes [edges] for which filter_fn
returns True when called with the node [edge] as an argument are yielded"; None = everything):

  Node (every start node s; "subtree rooted at this node"):
    preorder_iter(f), __iter__()            self and descendants, each node before its children
    postorder_iter(f)                       each node after its children
    levelorder_iter(f), level_order_iter    node and others at the same level before their children
    inorder_iter(f)                         node in between its two children; "only valid for strictly-bifurcating trees"
    leaf_iter(f), leaf_nodes()              leaves below s (s itself when s is a leaf)
    preorder_internal_node_iter(f, exclude_seed_node), postorder_internal_node_iter(f, exclude_seed_node)
                                            nodes with >= 1 child; the (parentless) seed node skipped on request
    ageorder_iter(f, include_leaves, descending), age_order_iter
                                            by node.age, younger first unless descending; leaves skipped on request
    child_node_iter(f), child_nodes(), child_edge_iter(f: Edge), child_edges(), sibling_nodes(), sister_nodes()
    ancestor_iter(f, inclusive)             self first when inclusive, then the ancestors
    apply(before_fn, after_fn, leaf_fn)     before/after on internal nodes, leaf_fn on leaves "in subtree starting
                                            with self", bracket order as in the docstring example
  Tree (start = seed node):
    preorder_node_iter(f), __iter__(), nodes(f), postorder_node_iter(f), levelorder_node_iter(f),
    level_order_node_iter(f), inorder_node_iter(f), leaf_node_iter(f), leaf_iter(f), leaf_nodes(),
    preorder_internal_node_iter(f, exclude_seed_node), postorder_internal_node_iter(f, exclude_seed_node),
    internal_nodes(exclude_seed_node), ageorder_node_iter(include_leaves, f, descending), age_order_node_iter,
    preorder_edge_iter(f: Edge), edges(f), postorder_edge_iter(f), levelorder_edge_iter(f), level_order_edge_iter(f),
    inorder_edge_iter(f), leaf_edge_iter(f), leaf_edges(), preorder_internal_edge_iter(f, exclude_seed_edge),
    postorder_internal_edge_iter(f, exclude_seed_edge), internal_edges(exclude_seed_edge), len(tree), apply(...)

Oracle: recursive reference traversals on the RefTree snapshot (raw links only); see check_tree()."""
import contextlib
import sys
import warnings

from hypothesis import strategies as st

from lib import runner, shapes
from lib.refmodel import RefTree, all_ordered_shapes
from lib.snapshot import snapshot

CONFIG = {
    "shards": {"quick": 8, "thorough": 16},
    "budget_s": {"quick": 120, "thorough": 1500},
    "rule": ("Hypothesis: shape (1-10 leaves quick / <= 30 thorough; families random/caterpillar/balanced/star, arity up "
             "to 8, strictly binary, up to 3 inserted unifurcations, optional chain of 1-3 unifurcations above the root; "
             "single-node trees and pure chains included) made exactly ultrametric from drawn dyadic node heights (k/8, "
             "zero increments give parent/child age ties) x start nodes (seed + 3 drawn; every node when the tree has "
             "<= 8 nodes) x 2 drawn filter predicates (parity of preorder index, leaf-only, internal-only, never, "
             "always, drawn bit mask, and two STATEFUL predicates whose answer depends only on the call number: every "
             "m-th call, drawn call-number bit mask; truthy result drawn from True/1/'x'/2.5/[0], falsy result from "
             "False/0/''/None/0.0/[]; 2 of 3 predicates are PARTIAL: they raise the harness exception OutsideClass when "
             "applied to an object that is not a member of the class the iterator ranges over - non-leaves for leaf "
             "iterators, leaves or the excluded seed for internal iterators, leaves for age-order without leaves, "
             "nodes outside the subtree / non-children / non-ancestors, a Node for an edge iterator and vice versa) "
             "plus no filter x every iterator / collection method of Node and Tree (see module docstring) x "
             "exclude_seed_node/edge x include_leaves x descending x 8 None-patterns of apply callbacks. Exhaustive "
             "part: every ordered shape with <= 5 (quick) / <= 6 (thorough) leaves, as is and with a unifurcation "
             "inserted above each node in turn, unit-step heights, x every start node x 9 fixed filters x every "
             "iterator. Non-trivial = tree has >= 3 nodes (pre-, post- and level-order pairwise different); distinct "
             "= (ordered shape with heights, starts, filters). "
             "History part: tree (3-8 leaves quick / <= 20 thorough, rooted/unrooted/undefined) -> 1-3 cache-filling "
             "calls (encode_bipartitions, calc_node_ages, calc_node_root_distances) -> 0-3 public restructuring calls "
             "that refresh nothing (new_child / insert_new_child with a new taxon, remove_child, "
             "prune_taxa_with_labels, reroot_at_node, prune_subtree, all with default flags; edge.length assignment) "
             "-> re-snapshot -> every iterator / collection / len() against the CURRENT snapshot; age-order only when "
             "the case then assigns ultrametric lengths and calls calc_node_ages() explicitly (stale ages are never "
             "asserted). Enumerated: every ordered shape with 3-4 (quick) / 3-5 (thorough) leaves x 3 cache sets x 5 "
             "ops x every target. Non-trivial = at least one op; distinct = (shape, rooting, caches, ops). "
             "Large part (deterministic): caterpillar, balanced, star, random-recursive and bushy (blocks of 1-40 "
             "children) trees with exactly 1100 / 2050 / 5000 (thorough also 20000) nodes and 1023-1028, 2047-2051 "
             "nodes x start nodes {seed, largest child subtree, middle of preorder, last node} x {no filter, parity "
             "filter} x every iterator; plus trees far deeper than the default recursion limit: ladders of 1100 and "
             "2500 (thorough 5000) tips, unifurcation chains of 1500 / 3000 (thorough 10000) nodes, and a 'broom' "
             "(leaf, long unifurcation chain, long ladder below the seed) so that the deep parts also lie below "
             "non-seed start nodes. Every library call of this part (Tree constructor, iterators, collections, len, "
             "apply, calc_node_ages) runs under sys.setrecursionlimit(current depth + 1000), i.e. what a user's "
             "interpreter gives it; harness code keeps the raised limit. A RecursionError inside the library is a "
             "violation (the traversal does not visit every node once)."),
    "exhaustive_note": {"quick": "all ordered shapes with 1-5 leaves (61) + each with one unifurcation above each node, "
                                 "x every start node x 9 filters x every iterator; all ordered shapes with 3-4 leaves "
                                 "x 3 cache sets x 5 restructuring ops x every target; 36 listed large trees",
                        "thorough": "all ordered shapes with 1-6 leaves (258) + each with one unifurcation above each "
                                    "node, x every start node x 9 filters x every iterator; all ordered shapes with "
                                    "3-5 leaves x 3 cache sets x 5 restructuring ops x every target; 74 listed large "
                                    "trees"},
    "assumptions": ["filter results are interpreted by truthiness (docstrings speak of True/False only)",
                    "the filter of an iterator is applied only to members of the iterator's own class, once each, in "
                    "the iterator's order (statement: filtered variants yield exactly the subsequence [of that "
                    "iterator] that passes the filter). Measured on the unmodified library: every filter-taking "
                    "iterator of Node and Tree (incl. internal, leaf, child, ancestor, age-order, edge and deprecated "
                    "variants) already behaves so, so partial and stateful predicates are asserted for all of them, "
                    "no exception. For level- and age-order the expected stateful selection is taken from the order "
                    "of the (independently validated) unfiltered run; for all others from the reference traversal",
                    "exclude_seed_node / exclude_seed_edge skip the parentless seed node of the tree, not the start "
                    "node of a Node-level iteration",
                    "level-order: only exactly-once and non-decreasing depth are asserted (no left-to-right promise in "
                    "the docstring); filtered level-/age-order must equal the filtered unfiltered sequence",
                    "age-order is asserted on exactly ultrametric trees with dyadic lengths after calc_node_ages(); "
                    "order among equal ages is not asserted",
                    "in-order on a subtree that is not strictly bifurcating must end in TypeError",
                    "measured on the unmodified library under the default recursion limit with trees of depth 1024-"
                    "2999: every iterator, collection method, len(), apply(), calc_node_ages() and the Tree "
                    "constructor is iterative, EXCEPT in-order (Node.inorder_iter and the Tree wrappers), which nests "
                    "one generator per level and raises RecursionError on a strictly bifurcating (sub)tree of height "
                    ">= ~998; that is reported under the narrow key C15.inorder:RecursionError:subtree_height>=900 "
                    "(known finding / fix in /verif/pending), a RecursionError of in-order on a shallower subtree or "
                    "of any other call is an ordinary violation",
                    "ancestor_iter yields the nearest ancestor first",
                    "histories: an exception raised by a cache-filling or restructuring call, or a tree left malformed "
                    "by it, is counted in the class histogram and not judged here (C03/C07/C08 own those); the "
                    "traversals are judged on whatever well-formed tree results",
                    "cached node ages are not expected to follow a restructuring; age-order after a history is only "
                    "asserted after an explicit calc_node_ages() on re-assigned ultrametric lengths"],
}

TRUTHY = [True, 1, "x", 2.5, [0]]
FALSY = [False, 0, "", None, 0.0, []]
FILTER_KINDS = ["parity", "leaf", "internal", "none", "all", "mask", "count", "callmask", "count"]
STATEFUL_KINDS = ("count", "callmask")   # result depends on how often the predicate has been called before

FIXED_FILTERS = [
    {"kind": "parity", "p": 0, "mask": 0, "tv": 0, "fv": 0},
    {"kind": "parity", "p": 1, "mask": 0, "tv": 1, "fv": 1},
    {"kind": "leaf", "p": 0, "mask": 0, "tv": 2, "fv": 3},
    {"kind": "internal", "p": 0, "mask": 0, "tv": 1, "fv": 2},
    {"kind": "none", "p": 0, "mask": 0, "tv": 0, "fv": 1},
    {"kind": "none", "p": 0, "mask": 0, "tv": 0, "fv": 3},
    {"kind": "all", "p": 0, "mask": 0, "tv": 2, "fv": 0},
    {"kind": "count", "p": 0, "mask": 3, "tv": 0, "fv": 0, "partial": True},        # every 2nd call passes (2nd, 4th..)
    {"kind": "callmask", "p": 0, "mask": 0x5A6C93A5, "tv": 1, "fv": 3, "partial": False},
]


# ---------------------------------------------------------------------------
# generators (plain data)
# ---------------------------------------------------------------------------

HEIGHT_SCALES = [1.0, 1.0, 1.0, 2.0 ** -30, 2.0 ** -44, 2.0 ** 20]


def set_heights(spec, incs, scale=1.0):
    """Edge lengths from node heights: leaf 0, internal = max(child heights) + scale*inc/8.  incs: one int per internal
    node in preorder.  All values are dyadic (scale is a power of two), so parent height = child height + length
    exactly, also for the tiny scales (all ages of a tree below 1e-7: an age order that compares rounded or
    tolerance-bucketed ages is not monotone there) and the large one.  Iterative (deep trees)."""
    nodes = shapes.spec_nodes(spec)  # preorder
    inc_of = {}
    k = 0
    for s in nodes:
        if s["ch"]:
            inc_of[id(s)] = incs[k]
            k += 1
    h = {}
    for s in reversed(nodes):  # children before parents
        if not s["ch"]:
            h[id(s)] = 0.0
        else:
            h[id(s)] = max(h[id(c)] for c in s["ch"]) + scale * inc_of[id(s)] / 8.0
    for s in nodes:
        for c in s["ch"]:
            c["len"] = h[id(s)] - h[id(c)]
    spec["len"] = None
    return spec


def insert_unifurcation(spec, k):
    """A unifurcation above the k-th node (preorder) of spec, in place."""
    nd = shapes.spec_nodes(spec)[k]
    inner = {"t": nd["t"], "lab": nd["lab"], "len": nd["len"], "ch": nd["ch"]}
    nd["t"] = None
    nd["lab"] = None
    nd["len"] = None
    nd["ch"] = [inner]
    return spec


@st.composite
def filter_specs(draw):
    return {"kind": draw(st.sampled_from(FILTER_KINDS)), "p": draw(st.integers(0, 1)),
            "mask": draw(st.integers(0, 2 ** 40)), "tv": draw(st.integers(0, len(TRUTHY) - 1)),
            "fv": draw(st.integers(0, len(FALSY) - 1)), "partial": draw(st.sampled_from([True, True, False]))}


@st.composite
def cases(draw, max_leaves):
    mode = draw(st.sampled_from(["general", "general", "general", "binary", "small"]))
    if mode == "binary":
        spec = draw(shapes.shapes(min_leaves=1, max_leaves=max_leaves, binary=True, unifurcations=False))
    elif mode == "small":
        spec = draw(shapes.shapes(min_leaves=1, max_leaves=3, max_arity=3, unifurcations=True))
    else:
        spec = draw(shapes.shapes(min_leaves=1, max_leaves=max_leaves, max_arity=8, unifurcations=True))
    if mode != "binary" and draw(st.integers(0, 3)) == 0:
        for _ in range(draw(st.integers(1, 3))):
            spec = shapes.internal([spec])
    m = sum(1 for s in shapes.spec_nodes(spec) if s["ch"])
    incs = draw(st.lists(st.sampled_from([0, 1, 1, 2, 3, 8]), min_size=m, max_size=m))
    scale = draw(st.sampled_from(HEIGHT_SCALES))
    set_heights(spec, incs, scale)
    return {"spec": spec, "scale": scale, "starts": draw(st.lists(st.integers(0, 10 ** 6), min_size=3, max_size=3)),
            "filters": draw(st.lists(filter_specs(), min_size=2, max_size=2)),
            "precalc": draw(st.booleans())}


# ---------------------------------------------------------------------------
# reference traversals (RefTree only)
# ---------------------------------------------------------------------------

def ref_inorder(rt, s):
    """In-order sequence of the subtree at s, or None when a node with 1 or > 2 children is in it."""
    out = []
    stack = [(s, 0)]
    while stack:
        i, k = stack.pop()
        ch = rt.children[i]
        if not ch:
            out.append(i)
        elif len(ch) == 2:
            if k == 0:
                stack.append((i, 1))
                stack.append((ch[0], 0))
            else:
                out.append(i)
                stack.append((ch[1], 0))
        else:
            return None
    return out


def ref_brackets(rt, s):
    """[(kind, node)] of the reference recursion on the subtree at s: B(efore) node, children..., A(fter) node; L(eaf)."""
    out = []
    stack = [(s, 0)]
    while stack:
        i, k = stack.pop()
        ch = rt.children[i]
        if not ch:
            out.append(("L", i))
        elif k == 0:
            out.append(("B", i))
            stack.append((i, 1))
            stack.extend((c, 0) for c in reversed(ch))
        else:
            out.append(("A", i))
    return out


def ref_heights(rt):
    """Node heights from the lengths; the generator guarantees exact ultrametricity (checked here)."""
    h = {}
    for i in rt.postorder():
        ch = rt.children[i]
        if not ch:
            h[i] = 0.0
        else:
            vals = set(h[c] + rt.length[c] for c in ch)
            if len(vals) != 1:
                raise runner.HarnessError("generated tree is not exactly ultrametric")
            h[i] = vals.pop()
    return h


def pass_set(fs, rt):
    nodes = rt.nodes()
    kind = fs["kind"]
    if kind == "parity":
        return frozenset(i for i in nodes if i % 2 == fs["p"])
    if kind == "leaf":
        return frozenset(i for i in nodes if not rt.children[i])
    if kind == "internal":
        return frozenset(i for i in nodes if rt.children[i])
    if kind == "none":
        return frozenset()
    if kind == "all":
        return frozenset(nodes)
    if kind == "mask":
        return frozenset(i for i in nodes if (fs["mask"] >> (i % 41)) & 1)
    if kind in STATEFUL_KINDS:
        return None
    raise runner.HarnessError(kind)


def call_passes(fs, k):
    """Stateful predicates: does the k-th call (0-based) pass?"""
    if fs["kind"] == "count":
        m = 2 + fs["mask"] % 3
        return k % m == (fs["mask"] // 3) % m
    if fs["kind"] == "callmask":
        return bool((fs["mask"] >> (k % 41)) & 1)
    raise runner.HarnessError(fs["kind"])


class Sel(object):
    """One filter of a case: either a fixed set of passing node indices, or a rule on the call number."""

    def __init__(self, fs, rt):
        self.fs = fs
        self.stateful = fs is not None and fs["kind"] in STATEFUL_KINDS
        self.P = None if (fs is None or self.stateful) else pass_set(fs, rt)
        self.partial = fs is not None and fs.get("partial", True)

    def pick(self, seq):
        """What a filtered iterator must yield when its class, in the order the predicate is applied, is `seq`."""
        if self.fs is None:
            return list(seq)
        if self.stateful:
            return [i for k, i in enumerate(seq) if call_passes(self.fs, k)]
        return [i for i in seq if i in self.P]


class OutsideClass(Exception):
    """Raised by a partial predicate of this harness when the library applies it to an object that is not a member
    of the iterator's class (e.g. a leaf-iterator predicate called on an internal node, an edge predicate on a Node)."""


class FilterLog(list):
    """Wrong-type arguments seen by a predicate (list items) and out-of-class arguments (.stray)."""

    def __init__(self):
        list.__init__(self)
        self.stray = []


def indexed_newick(rt, label=None):
    """Newick string with preorder indices as labels (iterative); big trees are only described."""
    n = len(rt.parent)
    if n > 80:
        arities = [len(c) for c in rt.children]
        return "<%s: %d nodes, %d leaves, max arity %d>" % (label or "tree", n, sum(1 for a in arities if a == 0), max(arities))
    out = []
    stack = [(rt.root, 0)]
    while stack:
        i, k = stack.pop()
        ch = rt.children[i]
        if k == 0 and ch:
            out.append("(")
        if k < len(ch):
            if k:
                out.append(",")
            stack.append((i, k + 1))
            stack.append((ch[k], 0))
        else:
            if ch:
                out.append(")")
            out.append(str(i))
    return "".join(out) + ";"


def brief(got, want):
    """Both sequences, cut down to a window around the first difference when they are long."""
    if not isinstance(got, list) or not isinstance(want, list) or max(len(got), len(want)) <= 40:
        return "got %r want %r" % (got, want)
    k = 0
    while k < len(got) and k < len(want) and got[k] == want[k]:
        k += 1
    lo = max(0, k - 5)
    return "lengths got %d want %d, first difference at position %d: got[%d:%d]=%r want[%d:%d]=%r" % (
        len(got), len(want), k, lo, k + 10, got[lo:k + 10], lo, k + 10, want[lo:k + 10])


# ---------------------------------------------------------------------------
# the check for one tree
# ---------------------------------------------------------------------------

USER_RECURSION_LIMIT = 1000   # CPython's default; /verif/vp_check.py raises the limit for the harness's own sake
DEEP = 900                    # subtree height from which a one-frame-per-level recursion must hit that limit


@contextlib.contextmanager
def user_recursion_limit(enabled=True):
    """Library code called inside this block gets the frames a user's interpreter would give it (1000 counted from
    here), whatever limit the harness runs with; restored afterwards.  Harness code (model building, snapshot,
    reference traversals) stays outside."""
    if not enabled:
        yield
        return
    old = sys.getrecursionlimit()
    depth = 0
    f = sys._getframe()
    while f is not None:
        depth += 1
        f = f.f_back
    lowered = depth + USER_RECURSION_LIMIT < old
    if lowered:
        sys.setrecursionlimit(depth + USER_RECURSION_LIMIT)
    try:
        yield
    finally:
        if lowered:
            sys.setrecursionlimit(old)


class Probe(object):
    """Everything needed to run iterators of one tree and compare them with index sequences."""

    def __init__(self, ctx, tree, rt, label=None):
        self.ctx = ctx
        self.tree = tree
        self.rt = rt
        self.n = len(rt.parent)
        self.node_ix = dict((id(o), i) for i, o in enumerate(rt.obj))
        self.edge_ix = dict((id(o._edge), i) for i, o in enumerate(rt.obj))
        self.limit = 3 * self.n + 10
        self.newick = indexed_newick(rt, label)
        if label and self.n <= 80:
            self.newick += " (%s)" % label
        self.depth = [0] * self.n
        for i in rt.preorder():
            for c in rt.children[i]:
                self.depth[c] = self.depth[i] + 1
        self.where = ""
        self.runs = {"partial": 0, "total": 0, "stateful": 0}
        self.user_limit = False   # True: library calls run under the default recursion limit (large trees)
        self._height = {}

    def height_below(self, s):
        """Number of edges from s down to its deepest descendant."""
        if s not in self._height:
            self._height[s] = max(self.depth[i] for i in self.rt.preorder(s)) - self.depth[s]
        return self._height[s]

    def lib(self, clause, fn, *args, **kwargs):
        """ctx.call under the user's recursion limit (a RecursionError inside the library becomes a violation there)."""
        with user_recursion_limit(self.user_limit):
            return self.ctx.call(clause, fn, *args, **kwargs)

    def detail(self, what, got, want):
        return "%s on %s [%s]: %s" % (what, self.newick, self.where, brief(got, want))

    def mkfilter(self, sel, edges, domain):
        """(callable or None, FilterLog).  `domain`: indices of the members of the iterator's class, i.e. the only
        objects the predicate may be applied to.  A fresh call counter per callable."""
        log = FilterLog()
        fs = sel.fs
        if fs is None:
            return None, log
        table = self.edge_ix if edges else self.node_ix
        tv, fv = TRUTHY[fs["tv"]], FALSY[fs["fv"]]
        domain = frozenset(domain)
        calls = [0]
        partial, stateful, P = sel.partial, sel.stateful, sel.P
        self.runs["partial" if partial else "total"] += 1
        if stateful:
            self.runs["stateful"] += 1

        def f(x):
            i = table.get(id(x))
            if partial and (i is None or i not in domain):
                log.stray.append("%s %s" % (type(x).__name__, "?" if i is None else i))
                raise OutsideClass(log.stray[-1])
            if i is None:
                log.append(type(x).__name__)
                return fv
            if stateful:
                k = calls[0]
                calls[0] += 1
                return tv if call_passes(fs, k) else fv
            return tv if i in P else fv
        return f, log

    def run(self, name, thunk, edges=False, allowed=()):
        """Consume the iterable returned by thunk() (bounded) and translate items to node indices."""
        ctx = self.ctx
        limit = self.limit

        def consume():
            out = []
            for x in thunk():
                out.append(x)
                if len(out) > limit:
                    break
            return out
        try:
            items = self.lib("C15.exception:" + name, consume, _allowed=allowed)
        except OutsideClass as e:
            ctx.fail("filter_applied_only_to_members_of_the_iterators_class", "C15.filter_domain:" + name,
                     self.detail(name + " applied filter_fn to %s, not a member of the class it iterates over" % e,
                                 None, None))
            raise runner.KnownSkip()
        table = self.edge_ix if edges else self.node_ix
        got = []
        for x in items:
            i = table.get(id(x))
            if i is None:
                ctx.fail("yields_only_%s_of_the_tree" % ("edges" if edges else "nodes"), "C15.foreign:" + name,
                         self.detail(name + " yielded %r" % (x,), None, None))
                raise runner.KnownSkip()
            got.append(i)
        if len(got) > limit:
            ctx.fail("terminates", "C15.too_many:" + name, self.detail(name, got[:12] + ["..."], "<= %d items" % self.n))
            raise runner.KnownSkip()
        return got

    def expect(self, name, got, want, key=None, bad=()):
        self.ctx.check(not bad, "filter_called_with_documented_argument_type", "C15.filter_arg:" + name,
                       lambda: self.detail(name + " filter got " + ",".join(sorted(set(bad))), None, None))
        stray = getattr(bad, "stray", ())
        self.ctx.check(not stray, "filter_applied_only_to_members_of_the_iterators_class", "C15.filter_domain:" + name,
                       lambda: self.detail(name + " applied filter_fn to " + ",".join(stray[:5]), None, None))
        return self.ctx.check(got == want, name + "_exactly_once_in_defining_order", key or ("C15." + name),
                              lambda: self.detail(name, got, want))


def check_tree(ctx, spec, starts, filters, precalc=False, all_apply=True):
    """Build the tree of a (small) spec and run every iterator on it."""
    want_rt = RefTree.from_spec(spec)
    tree = shapes.build_tree(spec)
    rt, problems = snapshot(tree)
    if problems or rt.canon(ordered=True, lengths=True) != want_rt.canon(ordered=True, lengths=True):
        raise runner.HarnessError("built tree does not match its spec: %r" % (problems,))
    return check_built(ctx, tree, rt, starts, filters, precalc=precalc, all_apply=all_apply)


def check_built(ctx, tree, rt, starts, filters, precalc=False, all_apply=True, ages=True, inorder=True, label=None,
                user_limit=False):
    """Every iterator / collection method of `tree` against the reference traversals of its snapshot `rt`.

    ages=False: age-order is skipped (lengths not ultrametric, or cached ages stale and nothing documented recomputes
    them).  inorder=False: in-order is skipped (the library's in-order is recursive; very deep trees)."""
    pr = Probe(ctx, tree, rt, label)
    pr.user_limit = user_limit
    n = pr.n
    obj = rt.obj
    root = rt.root
    height = ref_heights(rt) if ages else None
    isleaf = [not rt.children[i] for i in range(n)]
    nleaves = sum(isleaf)
    fspecs = [None] + list(filters)
    psets = [Sel(fs, rt) for fs in fspecs]   # historical name: one selector per filter

    def filt(seq, sel):
        return sel.pick(seq)

    def ftag(fs):
        if fs is None:
            return "no filter"
        if fs["kind"] in STATEFUL_KINDS:
            rule = "count m=%d r=%d" % (2 + fs["mask"] % 3, (fs["mask"] // 3) % (2 + fs["mask"] % 3)) \
                if fs["kind"] == "count" else "callmask %#x" % fs["mask"]
            return "stateful filter %s%s -> %r/%r" % (rule, " (partial)" if fs.get("partial", True) else "",
                                                      TRUTHY[fs["tv"]], FALSY[fs["fv"]])
        return "filter %s p=%d%s -> %r/%r" % (fs["kind"], fs["p"], " (partial)" if fs.get("partial", True) else "",
                                              TRUTHY[fs["tv"]], FALSY[fs["fv"]])

    def monotone_depth(seq):
        return all(pr.depth[a] <= pr.depth[b] for a, b in zip(seq, seq[1:]))

    def monotone_age(seq, descending):
        if descending:
            return all(height[a] >= height[b] for a, b in zip(seq, seq[1:]))
        return all(height[a] <= height[b] for a, b in zip(seq, seq[1:]))

    def check_level(name, got, s, P, unfiltered, bad):
        if P.stateful:  # membership depends on the order of application: judged against the unfiltered order below
            pr.expect(name, len(got), len(filt(rt.preorder(s), P)), "C15.%s:exactly_once" % name, bad)
        else:
            pr.expect(name, sorted(got), sorted(filt(rt.preorder(s), P)), "C15.%s:exactly_once" % name, bad)
        ctx.check(monotone_depth(got), name + "_non_decreasing_depth", "C15.%s:depth_order" % name,
                  lambda: pr.detail(name + " depths %r" % [pr.depth[i] for i in got], got, "non-decreasing depth"))
        if unfiltered is not None:
            ctx.check(got == filt(unfiltered, P), name + "_filtered_is_subsequence_of_unfiltered",
                      "C15.%s:filtered_subsequence" % name, lambda: pr.detail(name, got, filt(unfiltered, P)))

    def check_age(name, got, s, P, include_leaves, descending, unfiltered, bad):
        base = [i for i in rt.preorder(s) if include_leaves or not isleaf[i]]
        if P.stateful:
            pr.expect(name, len(got), len(filt(base, P)), "C15.%s:exactly_once" % name, bad)
        else:
            pr.expect(name, sorted(got), sorted(filt(base, P)), "C15.%s:exactly_once" % name, bad)
        ctx.check(monotone_age(got, descending), name + "_monotone_age", "C15.%s:age_order" % name,
                  lambda: pr.detail(name + " ages %r descending=%r" % ([height[i] for i in got], descending), got,
                                    "monotone"))
        if unfiltered is not None:
            ctx.check(got == filt(unfiltered, P), name + "_filtered_is_subsequence_of_unfiltered",
                      "C15.%s:filtered_subsequence" % name, lambda: pr.detail(name, got, filt(unfiltered, P)))

    def check_inorder(name, thunk, s, P, bad, edges=False):
        if not inorder:
            return
        want = ref_inorder(rt, s)
        if want is not None:
            try:
                got = pr.run(name, thunk, edges=edges, allowed=(RecursionError,))
            except RecursionError:
                # in-order is implemented as one nested generator per tree level: a strictly bifurcating (sub)tree
                # deeper than the interpreter's recursion limit cannot be traversed.  Narrow key for exactly that.
                h = pr.height_below(s)
                ctx.fail(name + "_visits_every_node_of_a_deep_bifurcating_tree",
                         "C15.inorder:RecursionError:subtree_height>=%d" % DEEP if h >= DEEP
                         else "C15.exception:%s:RecursionError" % name,
                         pr.detail(name + ": RecursionError under the default recursion limit, subtree height %d" % h,
                                   None, None))
                ctx.cls("inorder:RecursionError_on_deep_bifurcating_subtree")
                return
            pr.expect(name, got, filt(want, P), bad=bad)
            ctx.cls("inorder:strictly_bifurcating" + (":1node" if len(want) == 1 else ""))
        else:
            try:
                got = pr.run(name, thunk, edges=edges, allowed=(TypeError,))
            except TypeError:
                ctx.cls("inorder:TypeError")
                return
            ctx.fail(name + "_rejects_non_bifurcating_subtree", "C15.%s:nonbinary" % name,
                     pr.detail(name, got, "TypeError"))

    # ---------------- Tree-level ----------------
    pre_all, post_all = rt.preorder(), rt.postorder()
    leaves_all = [i for i in pre_all if isleaf[i]]
    ints_pre = [i for i in pre_all if not isleaf[i]]
    ints_post = [i for i in post_all if not isleaf[i]]

    if precalc and ages:
        pr.lib("C15.exception:calc_node_ages", tree.calc_node_ages)

    # age-order first (the unfiltered call on a fresh tree computes the ages itself when precalc is False)
    age_unf = {}
    for il in ((True, False) if ages else ()):
        for desc in (False, True):
            for fs, P in zip(fspecs, psets):
                pr.where = "Tree, %s, include_leaves=%r descending=%r" % (ftag(fs), il, desc)
                f, bad = pr.mkfilter(P, False, [i for i in pre_all if il or not isleaf[i]])
                got = pr.run("tree_ageorder", lambda: tree.ageorder_node_iter(include_leaves=il, filter_fn=f,
                                                                             descending=desc))
                check_age("tree_ageorder", got, root, P, il, desc, age_unf.get((il, desc)), bad)
                if fs is None:
                    age_unf[(il, desc)] = got
    # calc_node_ages must have produced exactly our heights (harness sanity for the node-level age checks)
    for i in (range(n) if ages else ()):
        if obj[i].age != height[i]:
            pr.where = "Tree, after ageorder_node_iter%s" % (" preceded by calc_node_ages()" if precalc else "")
            ctx.fail("ages_of_exactly_ultrametric_tree", "C15.ages", pr.detail("node %d age" % i, obj[i].age, height[i]))
            raise runner.KnownSkip()

    pr.where = "Tree, no filter"
    got_len = pr.lib("C15.exception:len", len, tree)
    ctx.check(got_len == nleaves, "len_tree_is_number_of_leaves", "C15.len", lambda: pr.detail("len(tree)", got_len, nleaves))
    pr.expect("tree_iter", pr.run("tree_iter", lambda: iter(tree)), pre_all)
    pr.expect("tree_leaf_nodes", pr.run("tree_leaf_nodes", tree.leaf_nodes), leaves_all)
    pr.expect("tree_leaf_edges", pr.run("tree_leaf_edges", tree.leaf_edges, edges=True), leaves_all)
    for ex in (False, True):
        pr.where = "Tree, exclude_seed=%r" % ex
        w = [i for i in ints_pre if not (ex and i == root)]
        pr.expect("tree_internal_nodes", pr.run("tree_internal_nodes", lambda: tree.internal_nodes(exclude_seed_node=ex)), w)
        pr.expect("tree_internal_edges", pr.run("tree_internal_edges", lambda: tree.internal_edges(exclude_seed_edge=ex),
                                                edges=True), w)
    if root not in ints_pre:
        ctx.cls("exclude_seed:seed_is_leaf")

    lvl_unf = None
    lvl_edge_unf = None
    for fs, P in zip(fspecs, psets):
        pr.where = "Tree, " + ftag(fs)
        for name, call, want, edges in (
                ("tree_preorder_node", lambda f: tree.preorder_node_iter(filter_fn=f), pre_all, False),
                ("tree_nodes", lambda f: tree.nodes(filter_fn=f), pre_all, False),
                ("tree_postorder_node", lambda f: tree.postorder_node_iter(filter_fn=f), post_all, False),
                ("tree_leaf_node", lambda f: tree.leaf_node_iter(filter_fn=f), leaves_all, False),
                ("tree_preorder_edge", lambda f: tree.preorder_edge_iter(filter_fn=f), pre_all, True),
                ("tree_edges", lambda f: tree.edges(filter_fn=f), pre_all, True),
                ("tree_postorder_edge", lambda f: tree.postorder_edge_iter(filter_fn=f), post_all, True),
                ("tree_leaf_edge", lambda f: tree.leaf_edge_iter(filter_fn=f), leaves_all, True)):
            f, bad = pr.mkfilter(P, edges, want)
            pr.expect(name, pr.run(name, lambda: call(f), edges=edges), filt(want, P), bad=bad)
        for ex in (False, True):
            pr.where = "Tree, %s, exclude_seed=%r" % (ftag(fs), ex)
            for name, call, want, edges in (
                    ("tree_preorder_internal_node", lambda f: tree.preorder_internal_node_iter(filter_fn=f, exclude_seed_node=ex), ints_pre, False),
                    ("tree_postorder_internal_node", lambda f: tree.postorder_internal_node_iter(filter_fn=f, exclude_seed_node=ex), ints_post, False),
                    ("tree_preorder_internal_edge", lambda f: tree.preorder_internal_edge_iter(filter_fn=f, exclude_seed_edge=ex), ints_pre, True),
                    ("tree_postorder_internal_edge", lambda f: tree.postorder_internal_edge_iter(filter_fn=f, exclude_seed_edge=ex), ints_post, True)):
                members = [i for i in want if not (ex and i == root)]   # the class: internal, seed excluded on request
                f, bad = pr.mkfilter(P, edges, members)
                pr.expect(name, pr.run(name, lambda: call(f), edges=edges), filt(members, P), bad=bad)
        pr.where = "Tree, " + ftag(fs)
        # level order: nodes, then edges = edges of the nodes the node counterpart yields
        f, bad = pr.mkfilter(P, False, pre_all)
        got_n = pr.run("tree_levelorder_node", lambda: tree.levelorder_node_iter(filter_fn=f))
        check_level("tree_levelorder_node", got_n, root, P, lvl_unf, bad)
        f, bad = pr.mkfilter(P, True, pre_all)
        got_e = pr.run("tree_levelorder_edge", lambda: tree.levelorder_edge_iter(filter_fn=f), edges=True)
        check_level("tree_levelorder_edge", got_e, root, P, lvl_edge_unf, bad)
        ctx.check(got_e == got_n, "levelorder_edges_are_edges_of_levelorder_nodes", "C15.tree_levelorder_edge:counterpart",
                  lambda: pr.detail("levelorder_edge_iter vs levelorder_node_iter", got_e, got_n))
        if fs is None:
            lvl_unf, lvl_edge_unf = got_n, got_e
            ctx.cls("levelorder:left_to_right_within_level" if got_n == rt.levelorder() else "levelorder:other_order_within_level")
        # in-order
        f, bad = pr.mkfilter(P, False, pre_all)
        check_inorder("tree_inorder_node", lambda: tree.inorder_node_iter(filter_fn=f), root, P, bad)
        f, bad = pr.mkfilter(P, True, pre_all)
        check_inorder("tree_inorder_edge", lambda: tree.inorder_edge_iter(filter_fn=f), root, P, bad, edges=True)

    # deprecated aliases (same contracts)
    with warnings.catch_warnings(record=True):  # record: the library installs its own filter on first use
        warnings.simplefilter("always")
        fs, P = fspecs[-1], psets[-1]
        pr.where = "Tree deprecated alias, " + ftag(fs)
        f, bad = pr.mkfilter(P, False, pre_all)
        got = pr.run("tree_level_order_node", lambda: tree.level_order_node_iter(filter_fn=f))
        check_level("tree_level_order_node", got, root, P, lvl_unf, bad)
        f, bad = pr.mkfilter(P, True, pre_all)
        got = pr.run("tree_level_order_edge", lambda: tree.level_order_edge_iter(filter_fn=f), edges=True)
        check_level("tree_level_order_edge", got, root, P, lvl_edge_unf, bad)
        f, bad = pr.mkfilter(P, False, leaves_all)
        pr.expect("tree_leaf_iter", pr.run("tree_leaf_iter", lambda: tree.leaf_iter(filter_fn=f)), filt(leaves_all, P), bad=bad)
        if ages:
            f, bad = pr.mkfilter(P, False, ints_pre)
            got = pr.run("tree_age_order_node", lambda: tree.age_order_node_iter(include_leaves=False, filter_fn=f, descending=True))
            check_age("tree_age_order_node", got, root, P, False, True, age_unf[(False, True)], bad)

    # Tree.apply
    check_apply(ctx, pr, rt, tree.apply, root, "tree_apply", all_apply)

    # ---------------- Node-level ----------------
    for s in starts:
        nd = obj[s]
        sub_pre, sub_post = rt.preorder(s), rt.postorder(s)
        sub_leaves = [i for i in sub_pre if isleaf[i]]
        sub_ints_pre = [i for i in sub_pre if not isleaf[i]]
        sub_ints_post = [i for i in sub_post if not isleaf[i]]
        kids = list(rt.children[s])
        par = rt.parent[s]
        anc = rt.ancestors(s)[1:]
        sibs = [c for c in rt.children[par] if c != s] if par is not None else []
        skind = ("seed" if s == root else "leaf" if isleaf[s] else "internal")
        ctx.cls("start:" + skind)
        if par is not None and rt.children[par][-1] == s:
            ctx.cls("start:last_child")
        if len(kids) == 1:
            ctx.cls("start:unifurcation")

        pr.where = "Node %d, no filter" % s
        pr.expect("node_iter", pr.run("node_iter", lambda: iter(nd)), sub_pre)
        pr.expect("node_leaf_nodes", pr.run("node_leaf_nodes", nd.leaf_nodes), sub_leaves)
        pr.expect("node_child_nodes", pr.run("node_child_nodes", nd.child_nodes), kids)
        pr.expect("node_child_edges", pr.run("node_child_edges", nd.child_edges, edges=True), kids)
        pr.expect("node_sibling_nodes", pr.run("node_sibling_nodes", nd.sibling_nodes), sibs)
        pr.expect("node_sister_nodes", pr.run("node_sister_nodes", nd.sister_nodes), sibs)

        nlvl_unf = None
        nage_unf = {}
        for fs, P in zip(fspecs, psets):
            pr.where = "Node %d, %s" % (s, ftag(fs))
            for name, call, want, edges in (
                    ("node_preorder", lambda f: nd.preorder_iter(filter_fn=f), sub_pre, False),
                    ("node_postorder", lambda f: nd.postorder_iter(filter_fn=f), sub_post, False),
                    ("node_leaf", lambda f: nd.leaf_iter(filter_fn=f), sub_leaves, False),
                    ("node_child_node", lambda f: nd.child_node_iter(filter_fn=f), kids, False),
                    ("node_child_edge", lambda f: nd.child_edge_iter(filter_fn=f), kids, True),
                    ("node_ancestor", lambda f: nd.ancestor_iter(filter_fn=f), anc, False),
                    ("node_ancestor_inclusive", lambda f: nd.ancestor_iter(filter_fn=f, inclusive=True), [s] + anc, False),
                    ("node_ancestor_exclusive", lambda f: nd.ancestor_iter(filter_fn=f, inclusive=False), anc, False)):
                f, bad = pr.mkfilter(P, edges, want)
                pr.expect(name, pr.run(name, lambda: call(f), edges=edges), filt(want, P), bad=bad)
            for ex in (False, True):
                pr.where = "Node %d, %s, exclude_seed_node=%r" % (s, ftag(fs), ex)
                for name, call, want in (
                        ("node_preorder_internal", lambda f: nd.preorder_internal_node_iter(filter_fn=f, exclude_seed_node=ex), sub_ints_pre),
                        ("node_postorder_internal", lambda f: nd.postorder_internal_node_iter(filter_fn=f, exclude_seed_node=ex), sub_ints_post)):
                    members = [i for i in want if not (ex and i == root)]
                    f, bad = pr.mkfilter(P, False, members)
                    pr.expect(name, pr.run(name, lambda: call(f)), filt(members, P), bad=bad)
            pr.where = "Node %d, %s" % (s, ftag(fs))
            f, bad = pr.mkfilter(P, False, sub_pre)
            got = pr.run("node_levelorder", lambda: nd.levelorder_iter(filter_fn=f))
            check_level("node_levelorder", got, s, P, nlvl_unf, bad)
            if fs is None:
                nlvl_unf = got
            f, bad = pr.mkfilter(P, False, sub_pre)
            check_inorder("node_inorder", lambda: nd.inorder_iter(filter_fn=f), s, P, bad)
            for il in ((True, False) if ages else ()):
                for desc in (False, True):
                    pr.where = "Node %d, %s, include_leaves=%r descending=%r" % (s, ftag(fs), il, desc)
                    f, bad = pr.mkfilter(P, False, [i for i in sub_pre if il or not isleaf[i]])
                    got = pr.run("node_ageorder", lambda: nd.ageorder_iter(filter_fn=f, include_leaves=il, descending=desc))
                    check_age("node_ageorder", got, s, P, il, desc, nage_unf.get((il, desc)), bad)
                    if fs is None:
                        nage_unf[(il, desc)] = got
        with warnings.catch_warnings(record=True):  # record: the library installs its own filter on first use
            warnings.simplefilter("always")
            fs, P = fspecs[-1], psets[-1]
            pr.where = "Node %d deprecated alias, %s" % (s, ftag(fs))
            f, bad = pr.mkfilter(P, False, sub_pre)
            got = pr.run("node_level_order", lambda: nd.level_order_iter(filter_fn=f))
            check_level("node_level_order", got, s, P, nlvl_unf, bad)
            if ages:
                f, bad = pr.mkfilter(P, False, sub_pre)
                got = pr.run("node_age_order", lambda: nd.age_order_iter(include_leaves=True, filter_fn=f, descending=False))
                check_age("node_age_order", got, s, P, True, False, nage_unf[(True, False)], bad)
        check_apply(ctx, pr, rt, nd.apply, s, "node_apply", all_apply)

    # ---------------- classes ----------------
    arities = [len(c) for c in rt.children]
    if n == 1:
        ctx.cls("shape:single_node")
    if arities[root] == 1:
        ctx.cls("shape:unifurcating_root")
    if n >= 3 and max(arities) == 1:
        ctx.cls("shape:chain")
    if max(arities) >= 5:
        ctx.cls("shape:polytomy>=5")
    if any(a == 1 for a in arities):
        ctx.cls("shape:has_unifurcation")
    if ages:
        hs = [height[i] for i in range(n) if not isleaf[i]]
        if len(set(hs)) < len(hs):
            ctx.cls("age:tie_between_internal_nodes")
        if any(not isleaf[i] and height[i] == 0.0 for i in range(n)):
            ctx.cls("age:internal_node_of_age_0")
    for fs in filters:
        ctx.cls("filter:%s" % fs["kind"])
        ctx.cls("filter_values:%r/%r" % (TRUTHY[fs["tv"]], FALSY[fs["fv"]]))
        ctx.cls("filter_predicate:%s" % ("partial (raises outside the iterator's class)" if fs.get("partial", True) else "total"))
    ctx.cls("filtered_iterator_runs:partial_predicate", pr.runs["partial"])
    ctx.cls("filtered_iterator_runs:total_predicate", pr.runs["total"])
    ctx.cls("filtered_iterator_runs:stateful_predicate", pr.runs["stateful"])
    return rt, pr


class _Runaway(Exception):
    """Raised by our callbacks when apply() has called back far more often than the tree has nodes."""


APPLY_PATTERNS = [(1, 1, 1), (0, 1, 1), (1, 0, 1), (1, 1, 0), (0, 0, 1), (0, 1, 0), (1, 0, 0), (0, 0, 0)]


def check_apply(ctx, pr, rt, apply_fn, s, name, all_patterns):
    want_full = ref_brackets(rt, s)
    par = rt.parent[s]
    last_child_start = par is not None and rt.children[par][-1] == s
    for use in (APPLY_PATTERNS if all_patterns else APPLY_PATTERNS[:4]):
        events = []
        foreign = []

        def cb(kind):
            def fn(node):
                i = pr.node_ix.get(id(node))
                if i is None:
                    foreign.append(repr(node))
                else:
                    events.append((kind, i))
                if len(events) + len(foreign) > 4 * pr.limit:
                    raise _Runaway()
            return fn
        b = cb("B") if use[0] else None
        a = cb("A") if use[1] else None
        l = cb("L") if use[2] else None
        pr.where = "%s at node %d, callbacks before=%r after=%r leaf=%r" % (name, s, bool(b), bool(a), bool(l))
        try:
            pr.lib("C15.exception:" + name, apply_fn, b, a, l)
        except _Runaway:
            ctx.fail("apply_terminates", "C15.apply:runaway", pr.detail(name, ["%s%d" % e for e in events[:20]] + ["..."],
                                                                        "%d callbacks" % len(want_full)))
            raise runner.KnownSkip()
        want = [e for e in want_full if (e[0] == "B" and b) or (e[0] == "A" and a) or (e[0] == "L" and l)]
        ctx.check(not foreign, "apply_calls_back_with_nodes_of_the_tree", "C15.apply:foreign",
                  lambda: pr.detail(name + " called back with %r" % foreign[:3], None, None))
        if events != want:
            inside = set(rt.preorder(s))
            extra_outside = [e for e in events if e[1] not in inside]
            if last_child_start and extra_outside and [e for e in events if e[1] in inside] == want:
                key = "C15.apply:start_is_last_child"
            else:
                key = "C15.apply"
            ctx.fail("apply_callbacks_in_bracket_order_within_subtree", key,
                     pr.detail(name, ["%s%d" % e for e in events], ["%s%d" % e for e in want]))
        ctx.cls("apply:callbacks=%d%d%d" % use)


# ---------------------------------------------------------------------------
# sub-checks
# ---------------------------------------------------------------------------

def check_case(ctx, case):
    spec = shapes.copy_spec(case["spec"])
    n = len(shapes.spec_nodes(spec))
    if n <= 8:
        starts = list(range(n))
    else:
        starts = sorted(set([0] + [x % n for x in case["starts"]]))
    rt, pr = check_tree(ctx, spec, starts, case["filters"], precalc=case["precalc"])
    if n >= 3:
        ctx.nontrivial([rt.canon(ordered=True, lengths=True), starts, case["filters"]])
    sc = case.get("scale", 1.0)
    ctx.cls("height_scale:%s" % ("1" if sc == 1.0 else "tiny(all ages < 1e-7)" if sc < 1.0 else "2^20"))
    ctx.cls("nodes:%s" % ("1" if n == 1 else "2" if n == 2 else "3-8" if n <= 8 else "9-20" if n <= 20 else ">20"))
    ctx.sample("random:%s" % ("small" if n <= 8 else "large"), {"tree_with_preorder_indices": pr.newick, "starts": starts,
                                                                 "filters": case["filters"]})


_SHAPES = {}


def exhaustive_items(maxn):
    items = []
    for n in range(1, maxn + 1):
        for idx, spec in enumerate(all_ordered_shapes(n)):
            nn = len(shapes.spec_nodes(spec))
            items.append({"n": n, "idx": idx, "uni": None})
            for k in range(nn):
                items.append({"n": n, "idx": idx, "uni": k})
    return items


def check_exh(ctx, item):
    n = item["n"]
    if n not in _SHAPES:
        _SHAPES[n] = list(all_ordered_shapes(n))
    spec = shapes.copy_spec(_SHAPES[n][item["idx"]])
    if item["uni"] is not None:
        insert_unifurcation(spec, item["uni"])
    m = sum(1 for s in shapes.spec_nodes(spec) if s["ch"])
    set_heights(spec, [8] * m)
    nn = len(shapes.spec_nodes(spec))
    rt, pr = check_tree(ctx, spec, list(range(nn)), FIXED_FILTERS, precalc=bool(item["idx"] % 2), all_apply=True)
    if nn >= 3:
        ctx.nontrivial([rt.canon(ordered=True, lengths=True), "exhaustive"])
    ctx.cls("exhaustive:%s" % ("plain" if item["uni"] is None else "with_unifurcation"))
    ctx.sample("exhaustive", {"tree_with_preorder_indices": pr.newick, "item": item})


# ---------------------------------------------------------------------------
# histories: caches filled, then the tree restructured through public calls that do not refresh them
# ---------------------------------------------------------------------------

CACHES = ["encode", "ages", "rootdist"]
HOPS = ["new_child", "remove_child", "prune_taxa", "reroot", "prune_subtree", "set_length"]


@st.composite
def history_cases(draw, max_leaves):
    spec = draw(shapes.shapes(min_leaves=3, max_leaves=max_leaves, max_arity=5, unifurcations=True))
    m = sum(1 for s in shapes.spec_nodes(spec) if s["ch"])
    set_heights(spec, draw(st.lists(st.sampled_from([1, 1, 2, 3, 8]), min_size=m, max_size=m)))
    ops = draw(st.lists(st.fixed_dictionaries({"op": st.sampled_from(HOPS + ["new_child", "remove_child", "prune_taxa"]),
                                               "target": st.integers(0, 10 ** 6), "k": st.integers(0, 63)}),
                        min_size=0, max_size=3))
    return {"spec": spec, "rooted": draw(st.sampled_from([True, False, None])),
            "caches": draw(st.lists(st.sampled_from(CACHES), min_size=1, max_size=3, unique=True)),
            "ops": ops, "recalc": draw(st.booleans()),
            "starts": draw(st.lists(st.integers(0, 10 ** 6), min_size=3, max_size=3)),
            "filters": draw(st.lists(filter_specs(), min_size=1, max_size=1))}


def apply_history_op(ctx, tree, rt, op, counter):
    """One public restructuring call chosen on the current snapshot rt; none of them refreshes cached bipartitions,
    ages or root distances (default flags).  Returns a short description or None when the op has no valid target."""
    n = len(rt.parent)
    nodes = rt.preorder()
    root = rt.root
    name, target, k = op["op"], op["target"], op["k"]
    if name == "new_child":
        i = nodes[target % n]
        counter[0] += 1
        taxon = tree.taxon_namespace.require_taxon(label="N%d" % counter[0])
        if k % 2:
            rt.obj[i].new_child(taxon=taxon, edge_length=(k % 8) / 8.0)
        else:
            rt.obj[i].insert_new_child(0, taxon=taxon, edge_length=(k % 8) / 8.0)
        return "new_child@%d" % i
    if name in ("remove_child", "prune_subtree"):
        cand = [i for i in nodes if i != root and len(rt.children[rt.parent[i]]) >= 2]
        if not cand:
            return None
        i = cand[target % len(cand)]
        if name == "remove_child":
            rt.obj[rt.parent[i]].remove_child(rt.obj[i])
        else:
            tree.prune_subtree(rt.obj[i])
        return "%s@%d" % (name, i)
    if name == "prune_taxa":
        labs = [rt.taxon[i] for i in nodes if not rt.children[i] and rt.taxon[i] is not None]
        if len(labs) < 3:
            return None
        cnt = 1 + k % (len(labs) - 2)
        off = target % len(labs)
        picked = [labs[(off + j) % len(labs)] for j in range(cnt)]
        tree.prune_taxa_with_labels(picked)
        return "prune_taxa_with_labels(%d of %d)" % (cnt, len(labs))
    if name == "reroot":
        cand = [i for i in nodes if i != root and rt.children[i]]
        if not cand or len(rt.children[root]) < 2:
            return None
        i = cand[target % len(cand)]
        tree.reroot_at_node(rt.obj[i])
        return "reroot_at_node@%d" % i
    if name == "set_length":
        i = nodes[target % n]
        rt.obj[i].edge.length = k / 8.0
        return "set_length@%d" % i
    raise runner.HarnessError(name)


def check_history(ctx, case):
    spec = shapes.copy_spec(case["spec"])
    tree = shapes.build_tree(spec, is_rooted=case["rooted"])
    rt, problems = snapshot(tree)
    if problems:
        raise runner.HarnessError("built tree not well formed: %r" % problems)
    done = []
    # 1. fill caches (per-tree bipartition encoding, per-node ages / root distances)
    for c in case["caches"]:
        try:
            if c == "encode":
                tree.encode_bipartitions()
            elif c == "ages":
                tree.calc_node_ages()
            elif c == "rootdist":
                tree.calc_node_root_distances()
            else:
                raise runner.HarnessError(c)
        except runner.HarnessError:
            raise
        except Exception as e:  # not this property's business; the traversals are still checked below
            ctx.cls("history:cache_step_raised:%s:%s" % (c, type(e).__name__))
            continue
        done.append(c)
    # 2. restructure without refreshing anything
    counter = [0]
    for op in case["ops"]:
        rt, problems = snapshot(tree)
        if problems:
            ctx.cls("history:malformed_tree_abandoned")
            return
        try:
            what = apply_history_op(ctx, tree, rt, op, counter)
        except runner.HarnessError:
            raise
        except Exception as e:
            ctx.cls("history:op_raised:%s:%s" % (op["op"], type(e).__name__))
            continue
        if what is None:
            ctx.cls("history:op_without_target:" + op["op"])
        else:
            ctx.cls("history:op:" + op["op"])
            done.append(what)
    rt, problems = snapshot(tree)
    if problems:
        ctx.cls("history:malformed_tree_abandoned")
        return
    n = len(rt.parent)
    # 3. ages: only documented to be current after an explicit calc_node_ages() on an ultrametric tree
    ages = bool(case["recalc"])
    if ages:
        h = {}
        for i in rt.postorder():
            h[i] = 1.0 + max(h[c] for c in rt.children[i]) if rt.children[i] else 0.0
        for i in rt.preorder():
            if i != rt.root:
                rt.obj[i].edge.length = h[rt.parent[i]] - h[i]
        rt, problems = snapshot(tree)
        done.append("ultrametric lengths + calc_node_ages")
    if n <= 8:
        starts = list(range(n))
    else:
        starts = sorted(set([0] + [x % n for x in case["starts"]]))
    label = "history " + " -> ".join(done)
    rt, pr = check_built(ctx, tree, rt, starts, case["filters"], precalc=True, all_apply=False, ages=ages, label=label)
    pr_desc = "%s after %s" % (pr.newick, label)
    if case["ops"] and n >= 3:
        ctx.nontrivial([RefTree.from_spec(spec).canon(ordered=True), case["rooted"], case["caches"], case["ops"], ages])
    for c in case["caches"]:
        ctx.cls("history:cache:" + c)
    ctx.cls("history:ages_%s" % ("recomputed" if ages else "stale_skipped"))
    ctx.sample("history", {"result": pr_desc, "caches": case["caches"], "ops": case["ops"]})


def history_items(maxn):
    items = []
    for n in range(3, maxn + 1):
        for idx, spec in enumerate(all_ordered_shapes(n)):
            nn = len(shapes.spec_nodes(spec))
            for caches in (["encode"], ["ages", "rootdist"], ["encode", "ages", "rootdist"]):
                for op in ("new_child", "remove_child", "prune_taxa", "reroot", "prune_subtree"):
                    for tg in range(nn):
                        items.append({"n": n, "idx": idx, "caches": caches, "op": op, "target": tg})
    return items


def check_history_exh(ctx, item):
    n = item["n"]
    if n not in _SHAPES:
        _SHAPES[n] = list(all_ordered_shapes(n))
    spec = shapes.copy_spec(_SHAPES[n][item["idx"]])
    m = sum(1 for s in shapes.spec_nodes(spec) if s["ch"])
    set_heights(spec, [8] * m)
    tg = item["target"]
    check_history(ctx, {"spec": spec, "rooted": [True, False, None][(item["idx"] + tg) % 3], "caches": item["caches"],
                        "ops": [{"op": item["op"], "target": tg, "k": tg}], "recalc": bool((item["idx"] + tg) % 2),
                        "starts": [0, 1, 2], "filters": [FIXED_FILTERS[tg % len(FIXED_FILTERS)]]})


# ---------------------------------------------------------------------------
# large trees (size-triggered behaviour): deterministic list
# ---------------------------------------------------------------------------

LARGE_FAMILIES = ["caterpillar", "balanced", "star", "random", "bushy"]
DEEP_FAMILIES = ["chain", "broom"]   # depth far beyond the default recursion limit through unifurcations


def large_spec(family, n_nodes, seed):
    """A spec with exactly n_nodes nodes, built without recursion.  Randomness only from `seed`."""
    import random
    mk_leaf = shapes.leaf
    counter = [0]

    def leaf():
        counter[0] += 1
        return mk_leaf(counter[0] - 1)
    if family == "star":
        return shapes.internal([leaf() for _ in range(n_nodes - 1)])
    if family == "chain":                # n_nodes - 1 unifurcations above a single leaf
        cur = leaf()
        for _ in range(n_nodes - 1):
            cur = shapes.internal([cur])
        return cur
    if family == "broom":                # (leaf, chain of unifurcations ending in a cherry, ladder) below the seed:
        n_chain = (n_nodes - 2) // 2     # the two deep parts hang below START nodes, not only below the seed
        n_ladder = n_nodes - 2 - n_chain
        if n_ladder % 2 == 0:
            n_ladder -= 1
            n_chain += 1
        chain = shapes.internal([leaf(), leaf()])
        for _ in range(n_chain - 3):
            chain = shapes.internal([chain])
        ladder = leaf()
        for j in range((n_ladder - 1) // 2):
            ladder = shapes.internal([ladder, leaf()] if j % 2 else [leaf(), ladder])
        return shapes.internal([leaf(), chain, ladder])
    if family in ("caterpillar", "balanced"):
        nl = (n_nodes + 1) // 2          # 2*nl - 1 nodes, one unifurcation more when n_nodes is even
        if family == "caterpillar":
            cur = leaf()
            for j in range(nl - 1):
                cur = shapes.internal([cur, leaf()] if j % 3 else [leaf(), cur])
        else:
            level = [leaf() for _ in range(nl)]
            while len(level) > 1:
                nxt = [shapes.internal([level[j], level[j + 1]]) for j in range(0, len(level) - 1, 2)]
                if len(level) % 2:
                    nxt.append(level[-1])
                level = nxt
            cur = level[0]
        if n_nodes % 2 == 0:
            cur = shapes.internal([cur])
        return cur
    rng = random.Random(seed)
    root = {"t": None, "lab": None, "len": None, "ch": []}
    nodes = [root]
    if family == "random":               # random recursive tree: mixed arities, unifurcations, depth ~ log n
        for _ in range(n_nodes - 1):
            c = {"t": None, "lab": None, "len": None, "ch": []}
            rng.choice(nodes)["ch"].append(c)
            nodes.append(c)
    elif family == "bushy":              # children in blocks of 1-40: wide levels at moderate depth
        frontier = [root]
        left = n_nodes - 1
        while left > 0:
            par = frontier.pop(0) if rng.random() < 0.7 else frontier.pop(rng.randrange(len(frontier)))
            k = min(left, rng.choice([1, 2, 2, 3, 5, 40]))
            for _ in range(k):
                c = {"t": None, "lab": None, "len": None, "ch": []}
                par["ch"].append(c)
                nodes.append(c)
                frontier.append(c)
            left -= k
    else:
        raise runner.HarnessError(family)
    for s in nodes:
        if not s["ch"]:
            s["t"] = counter[0]
            counter[0] += 1
    return root


def large_items(tier):
    thorough = tier == "thorough"
    around = [1023, 1024, 1025, 1026, 1027, 1028, 2047, 2048, 2049, 2050, 2051]
    items = []
    for fam in LARGE_FAMILIES:
        sizes = [1100, 2050]
        if thorough or fam in ("caterpillar", "star", "random"):
            sizes.append(5000)
        if thorough and fam != "caterpillar":
            sizes.append(20000)
        for nn in sizes:
            items.append({"family": fam, "nodes": nn, "seed": nn})
    for j, nn in enumerate(around):
        for f, fam in enumerate(LARGE_FAMILIES):
            # quick: every family right at the 1024 boundary, one family (rotating) at the other sizes
            if thorough or nn in (1025, 1026, 1027) or j % len(LARGE_FAMILIES) == f:
                items.append({"family": fam, "nodes": nn, "seed": 7 * nn + 1})
    # depth clearly beyond the default recursion limit: ladders of 1100+ tips (the 5000-node caterpillar above has
    # 2500), unifurcation chains, and both below non-seed start nodes (broom)
    items.append({"family": "caterpillar", "nodes": 2199, "seed": 1})       # 1100 tips
    items.append({"family": "chain", "nodes": 1500, "seed": 1})
    items.append({"family": "chain", "nodes": 3000, "seed": 1})
    items.append({"family": "broom", "nodes": 5000, "seed": 1})
    if thorough:
        items.append({"family": "caterpillar", "nodes": 9999, "seed": 1})   # 5000 tips
        items.append({"family": "chain", "nodes": 10000, "seed": 1})
        items.append({"family": "broom", "nodes": 12000, "seed": 1})
    items.sort(key=lambda it: -it["nodes"])  # heavy items spread over the shards
    return items


LARGE_FILTER = {"kind": "parity", "p": 1, "mask": 0, "tv": 1, "fv": 3}


def check_large(ctx, item):
    spec = large_spec(item["family"], item["nodes"], item["seed"])
    m = sum(1 for s in shapes.spec_nodes(spec) if s["ch"])
    set_heights(spec, [8] * m)
    # the Tree constructor walks the tree itself (update_taxon_namespace): a library traversal like any other, so it
    # also runs under the user's recursion limit and a RecursionError in it is reported, not a harness error
    with user_recursion_limit():
        tree = ctx.call("C15.exception:Tree_constructor", shapes.build_tree, spec)
    rt, problems = snapshot(tree)
    n = len(rt.parent)
    if problems or n != item["nodes"]:
        raise runner.HarnessError("large tree: %d nodes built for %r, problems %r" % (n, item, problems))
    label = "%s tree" % item["family"]
    pr0 = Probe(ctx, tree, rt, label)
    depth = max(pr0.depth)
    kids = rt.children[rt.root]
    # start nodes: seed, its biggest child subtree, a node in the middle of the preorder, the last node
    size = [1] * n
    for i in reversed(rt.preorder()):
        if rt.parent[i] is not None:
            size[rt.parent[i]] += size[i]
    starts = [0]
    if kids:
        starts.append(max(kids, key=lambda c: size[c]))
    starts += [n // 2, n - 1]
    starts = sorted(set(starts))
    rt, pr = check_built(ctx, tree, rt, starts, [LARGE_FILTER], precalc=bool(item["nodes"] % 2), all_apply=False,
                         ages=True, inorder=True, label=label, user_limit=True)
    ctx.nontrivial(["large", item["family"], item["nodes"], item["seed"]])
    ctx.cls("large:%s" % item["family"])
    ctx.cls("large:depth%s" % ("<=100" if depth <= 100 else "101-999" if depth < 1000 else ">=1000 (beyond the default recursion limit)"))
    for st_ in starts[1:]:
        if pr.height_below(st_) >= 1000:
            ctx.cls("large:non_seed_start_above_subtree_of_height>=1000")
    ctx.cls("large:subtree_below_2nd_start>1025" if len(starts) > 1 and size[starts[1]] > 1026 else "large:subtree_below_2nd_start<=1025")
    ctx.sample("large", {"tree": pr.newick, "item": item, "depth": depth, "starts": starts})


SUBCHECKS = {"random": check_case, "exhaustive": check_exh, "history": check_history, "history_exhaustive": check_history_exh,
             "large": check_large}



def run(ctx):
    quick = ctx.tier == "quick"
    total = 3000 if quick else 50000
    runner.run_given(ctx, "random", cases(10 if quick else 30), check_case, total // ctx.nshards)
    runner.run_items(ctx, "exhaustive", exhaustive_items(5 if quick else 6), check_exh)
    runner.run_given(ctx, "history", history_cases(8 if quick else 20), check_history, (600 if quick else 12000) // ctx.nshards)
    runner.run_items(ctx, "history_exhaustive", history_items(4 if quick else 5), check_history_exh)
    runner.run_items(ctx, "large", large_items(ctx.tier), check_large)
