"""C14 - path distances and common ancestors are exact, and NJ / UPGMA invert them.

Oracle: everything that says "path", "edge count", "common ancestor", "cluster", "split" is evaluated in RefTree on the
generating spec or on a raw-link snapshot (identity of node objects through RefTree.obj); UPGMA on general matrices is
compared with an exact (Fraction) reference implementation of average linkage."""
import io
import itertools
import warnings
from fractions import Fraction

from hypothesis import strategies as st

from lib import runner, shapes
from lib.refmodel import RefTree, all_ordered_shapes
from lib.snapshot import snapshot

CONFIG = {
    "shards": {"quick": 8, "thorough": 16},
    "budget_s": {"quick": 120, "thorough": 2400},
    "rule": ("history: one PhylogeneticDistanceMatrix object and two trees over one namespace (3-8 / <= 14 taxa; second "
             "tree on the same / a superset / a subset / an overlapping taxon set); after the first compile_from_tree and "
             "after each of 2-6 drawn steps (scale_edges, set one length, raw subtree move, reroot_at_node / "
             "to_outgroup_position without update_bipartitions, encode_bipartitions, recompile the same object from the "
             "current tree, recompile it from the other tree) every matrix answer is compared with the snapshot the "
             "matrix was last compiled from (documented: a matrix is a snapshot) and treemeasure.patristic_distance with "
             "the tree as it is now.  pdm: shape (2-12 leaves quick / <= 40 thorough; polytomies up to arity 5, unifurcations anywhere incl. "
             "chains and above leaves/root) x rooting flag {True,False,None} x length pattern (none, unit, small ints "
             "incl. 0, dyadic, general floats, partially missing = counted as zero) x namespace history (unused and "
             "removed taxa) x is_store_path_edges; every ordered pair of leaf taxa and (trees with <= 60 nodes) every pair of nodes is compared, "
             "plus drawn filter subsets for MPD/MNTD.  mrca: same shapes x query form (taxa / taxon_labels / "
             "leafset_bitmask) x subsets (singletons, pairs, full set, random, with a namespace taxon that is not on "
             "the tree) x start_node, first with a current encoding, then after raw remove_child/add_child edits with "
             "is_bipartitions_updated=False.  nj: binary unrooted trees (3-12 / <= 30 leaves, bi- or trifurcating seed) "
             "with dyadic lengths, internal >= 1/4, leaf >= 0; matrix built from the tree, from our own CSV / dict of "
             "RefTree distances, or through write_csv -> from_csv (delimiters , ; TAB).  upgma: binary rooted trees "
             "from dyadic node heights strictly increasing toward the root, except that cherries may have height 0 "
             "(distance 0 between two distinct taxa; the matrix is then rebuilt with up to 4 rotated taxon orders), "
             "same routes; upgma_general: arbitrary dyadic symmetric matrices (zero entries included) / non-"
             "ultrametric tree distances against an exact average-linkage reference. "
             "Exhaustive: every ordered shape with 2-5 (quick) / 2-6 (thorough) leaves x 2 rootings x 2 length "
             "patterns x (no unifurcation | one unifurcation above each node): all pairs, all node pairs and all "
             "non-empty taxon subsets in all three mrca query forms.  Non-trivial = tree with a polytomy or >= 3 "
             "levels (pdm/mrca/exhaustive), >= 5 taxa (nj/upgma), >= 1 step applied (history); distinct = whole case."),
    "exhaustive_note": {"quick": "all ordered shapes with 2-5 leaves x rooting x length pattern x single-unifurcation "
                                 "variants: all leaf pairs, node pairs and taxon subsets",
                        "thorough": "all ordered shapes with 2-6 leaves x rooting x length pattern x single-"
                                    "unifurcation variants: all leaf pairs, node pairs and taxon subsets"},
    "assumptions": ["every leaf carries a distinct taxon; the root edge has no length; internal nodes (seed included) "
                    "may carry taxa of their own (in about a third of the pdm / mrca / history / tree-route cases and one "
                    "exhaustive variant per shape): the matrix is then still over the leaf taxa only, and no query names "
                    "an internal node's taxon",
                    "a missing edge length counts as zero (property statement)",
                    "edge counts are those of the tree as drawn (compile_from_tree documents that a basal bifurcation "
                    "of an unrooted tree counts as two steps)",
                    "Tree.mrca is asserted only with a current encoding or is_bipartitions_updated=False; on trees "
                    "not flagged rooted the refresh may collapse a basal bifurcation (documented by encode_bipartitions)"
                    ", so the expected node is computed on the tree as it is after the call",
                    "exact equality for dyadic/integer lengths, 1e-9 relative otherwise and for all means / NJ / UPGMA "
                    "lengths",
                    "normalisation by tree size: weighted values are divided by the total edge length, step counts by "
                    "the number of edges counting one edge per node (the seed's own edge included, as compile_from_tree, "
                    "path_edge_count and Tree.edges() do); weighted normalisation on a tree of total length 0 raises "
                    "ZeroDivisionError in the library and is not asserted",
                    "UPGMA on general matrices: topology and join heights compared only when the exact reference run meets no tie (otherwise the result depends on the iteration order of a set of Taxon objects)",
                    "treemeasure.patristic_distance is not asserted on trees with partially missing lengths whose "
                    "refresh collapses an unrooted basal bifurcation (None + x there is unsettled, DESIGN 2.1)"],
}

TOL = 1e-9
EXACT_PATTERNS = ("none", "unit", "smallint", "dyadic", "partial", "inc", "missing", "zero")


def close(a, b, scale=1.0):
    return abs(a - b) <= TOL * (1.0 + abs(scale))


# ---------------------------------------------------------------------------
# shared helpers
# ---------------------------------------------------------------------------

def build(case, rooted):
    spec = case["spec"]
    n = shapes.n_leaves(spec)
    hist = case.get("hist") or shapes.plain_history(n)
    ns, taxa, bits = shapes.build_namespace(hist)
    tree = shapes.build_tree(spec, ns, taxa, is_rooted=rooted)
    add_inner_taxa(ns, tree, case.get("inner_taxa"))
    pre, problems = snapshot(tree)
    if problems:
        raise runner.HarnessError("built tree not well formed: %r" % problems)
    return n, ns, taxa, bits, tree, pre


INNER_TAXA = st.one_of(st.just([]), st.just([]), st.lists(st.integers(0, 12), min_size=1, max_size=3))


def add_inner_taxa(ns, tree, picks):
    """Gives internal nodes (pick 0 = the seed) taxa 'I<j>' of their own, added to the namespace after the leaf taxa.

    The statements checked are about leaf taxa; clean behaviour: compile_from_tree, encode_bipartitions and Tree.mrca
    look at the taxa of leaves only, so such trees must give the same answers for every pair / set of leaf taxa."""
    import dendropy
    if not picks:
        return {}
    rt, _ = snapshot(tree)
    internals = rt.internals()
    out = {}
    for j, k in enumerate(picks):
        nd = rt.obj[internals[k % len(internals)]]
        if nd.taxon is None:
            t = dendropy.Taxon(label="I%d" % j)
            ns.add_taxon(t)
            nd.taxon = t
            out[t.label] = t
    return out


def inner_taxa_classes(ctx, prefix, rt):
    inner = [i for i in rt.internals() if rt.taxon[i] is not None]
    if inner:
        ctx.cls(prefix + ":taxon_on_internal_node")
    if rt.taxon[rt.root] is not None and rt.children[rt.root]:
        ctx.cls(prefix + ":taxon_on_seed")


def idx_of(label):
    return int(label[1:])


def shape_is_nontrivial(rt):
    poly = any(len(rt.children[i]) > 2 for i in rt.nodes())
    deep = max(rt.depth_edges(i) for i in rt.leaves()) >= 2
    return poly or deep


def same_structure(a, b):
    """Two snapshots describe the same objects in the same arrangement with the same lengths."""
    if len(a.obj) != len(b.obj):
        return False
    for i in range(len(a.obj)):
        if a.obj[i] is not b.obj[i] or a.parent[i] != b.parent[i] or a.children[i] != b.children[i]:
            return False
        if a.length[i] != b.length[i] or a.taxon[i] != b.taxon[i]:
            return False
    return True


def expected_mrca(rt, cl, want, start=None):
    """Deepest node (below `start`) whose leaf set includes `want`; None when the start node does not cover it."""
    cur = rt.root if start is None else start
    if not want <= cl[cur]:
        return None
    while True:
        nxt = None
        for c in rt.children[cur]:
            if want <= cl[c]:
                nxt = c
                break
        if nxt is None:
            return cur
        cur = nxt


def describe(rt, i):
    if i is None:
        return "None"
    return "node#%d over %s" % (i, sorted(rt.clusters()[i]))


def node_index(rt, obj):
    for i, o in enumerate(rt.obj):
        if o is obj:
            return i
    return None


# ---------------------------------------------------------------------------
# sub-check "pdm"
# ---------------------------------------------------------------------------

@st.composite
def pdm_cases(draw, max_leaves):
    sl = draw(shapes.with_lengths(
        shapes.shapes(min_leaves=2, max_leaves=max_leaves, max_arity=5, unifurcations=True),
        patterns=("none", "unit", "smallint", "dyadic", "dyadic", "float", "partial", "partial")))
    if draw(st.sampled_from([False, False, False, False, False, True])):
        for k, nd in enumerate(shapes.spec_nodes(sl["spec"])):
            nd["len"] = 0.0 if k else None
        sl["lenpat"] = "zero"
    n = shapes.n_leaves(sl["spec"])
    hist = draw(shapes.namespace_history(n, max_extra=2))
    subsets = draw(st.lists(st.lists(st.integers(0, n - 1), unique=True, min_size=0, max_size=n), min_size=1, max_size=3))
    pairs = draw(st.lists(st.tuples(st.integers(0, n - 1), st.integers(0, n - 1)), min_size=1, max_size=4))
    return {"spec": sl["spec"], "lenpat": sl["lenpat"], "rooted": draw(st.sampled_from([True, False, None])),
            "hist": hist, "store_edges": draw(st.booleans()), "subsets": subsets, "tm_pairs": [list(p) for p in pairs],
            "via_class": draw(st.booleans()), "csv": draw(st.sampled_from([None, None, ",", "\t", ";"])),
            "csv_names": draw(st.sampled_from([[True, True], [True, True], [True, False], [False, True]])),
            "inner_taxa": draw(INNER_TAXA)}


def check_pdm(ctx, case):
    with warnings.catch_warnings():
        warnings.simplefilter("ignore")
        _check_pdm(ctx, case)


def _check_pdm(ctx, case, ndm_node_limit=60, count=True):
    import dendropy
    from dendropy.calculate import phylogeneticdistance, treemeasure
    from dendropy.utility.error import NullAssemblageException
    n, ns, taxa, bits, tree, pre = build(case, case["rooted"])
    exact = case["lenpat"] in EXACT_PATTERNS
    leaves = pre.leaves()
    lab = dict((i, pre.taxon[i]) for i in leaves)
    tx = dict((i, taxa[idx_of(pre.taxon[i])]) for i in leaves)
    tag = "rooted=%r store_edges=%r tree=%s" % (case["rooted"], case["store_edges"], pre.canon(ordered=True, lengths=True))

    kw = {"is_store_path_edges": True} if case["store_edges"] else {}
    if case.get("via_class"):
        pdm = ctx.call("C14.pdm.compile", phylogeneticdistance.PhylogeneticDistanceMatrix.from_tree, tree, **kw)
    else:
        pdm = ctx.call("C14.pdm.compile", tree.phylogenetic_distance_matrix, **kw)
    post, problems = snapshot(tree)
    ctx.check(not problems and same_structure(pre, post), "from_tree_leaves_the_tree_unchanged", "C14.pdm.tree_unchanged",
              lambda: "%s problems=%r after=%s" % (tag, problems, post.canon(ordered=True, lengths=True)))
    ctx.check(pdm.taxon_namespace is ns, "matrix_uses_tree_namespace", "C14.pdm.namespace", tag)
    path, scale, eq = verify_matrix(ctx, pdm, pre, tx, case["subsets"], case["store_edges"], exact, tag)
    total = pre.total_length(include_root=True)
    nodes = pre.nodes()
    _check_pdm_rest(ctx, case, ndm_node_limit, count, n, ns, tree, pre, pdm, leaves, lab, tx, path, scale, eq, tag, nodes)


def verify_matrix(ctx, pdm, pre, tx, subsets, store_edges, exact, tag):
    """Every answer of the matrix against the RefTree `pre` it was compiled from (tx: leaf index -> Taxon)."""
    from dendropy.utility.error import NullAssemblageException
    leaves = pre.leaves()
    lab = dict((i, pre.taxon[i]) for i in leaves)
    path = {}
    for a in leaves:
        for b in leaves:
            path[(a, b)] = pre.path(a, b)
    scale = max(v[0] for v in path.values())
    eq = (lambda x, y: x == y) if exact else (lambda x, y: close(x, y, scale))
    case = {"store_edges": store_edges, "subsets": subsets}

    # -- every ordered pair (diagonal included): distance, steps, common ancestor
    for a in leaves:
        for b in leaves:
            d, e, m = path[(a, b)]
            ta, tb = tx[a], tx[b]
            got = ctx.call("C14.pdm.patristic_distance", pdm.patristic_distance, ta, tb)
            ctx.check(eq(got, d), "patristic_distance_is_path_sum", "C14.pdm.patristic_distance",
                      lambda: "%s-%s got %r want %r; %s" % (lab[a], lab[b], got, d, tag))
            gote = ctx.call("C14.pdm.path_edge_count", pdm.path_edge_count, ta, tb)
            ctx.check(gote == e, "path_edge_count_is_number_of_edges", "C14.pdm.path_edge_count",
                      lambda: "%s-%s got %r want %r; %s" % (lab[a], lab[b], gote, e, tag))
            gotm = ctx.call("C14.pdm.mrca", pdm.mrca, ta, tb)
            ctx.check(gotm is pre.obj[m], "mrca_is_where_the_path_turns", "C14.pdm.mrca",
                      lambda: "%s-%s got %s want %s; %s" % (lab[a], lab[b], describe(pre, node_index(pre, gotm)), describe(pre, m), tag))
            g2 = ctx.call("C14.pdm.call", pdm, ta, tb)
            g3 = ctx.call("C14.pdm.distance", pdm.distance, ta, tb)
            g4 = ctx.call("C14.pdm.distance", pdm.distance, ta, tb, is_weighted_edge_distances=False)
            ctx.check(eq(g2, d) and eq(g3, d) and g4 == e, "call_and_distance_aliases", "C14.pdm.aliases",
                      lambda: "%s-%s call %r distance %r/%r want %r/%r; %s" % (lab[a], lab[b], g2, g3, g4, d, e, tag))
            if case["store_edges"] and a != b:
                pe = ctx.call("C14.pdm.path_edges", pdm.path_edges, ta, tb)
                want_edges = []
                for x in (a, b):
                    while x != m:
                        want_edges.append(id(pre.obj[x]._edge))
                        x = pre.parent[x]
                ctx.check(sorted(id(x) for x in pe) == sorted(want_edges), "path_edges_are_the_edges_of_the_path",
                          "C14.pdm.path_edges", lambda: "%s-%s got %d edges want %d; %s" % (lab[a], lab[b], len(pe), len(want_edges), tag))

    # -- collections
    pairs = list(itertools.combinations(leaves, 2))
    want_d = sorted(path[p][0] for p in pairs)
    want_e = sorted(path[p][1] for p in pairs)
    got_d = sorted(ctx.call("C14.pdm.distances", pdm.distances))
    got_e = sorted(ctx.call("C14.pdm.distances", pdm.distances, is_weighted_edge_distances=False))
    ctx.check(len(got_d) == len(want_d) and all(eq(x, y) for x, y in zip(got_d, want_d)), "distances_lists_each_pair_once",
              "C14.pdm.distances", lambda: "got %r want %r; %s" % (got_d, want_d, tag))
    ctx.check(got_e == want_e, "step_distances_list_each_pair_once", "C14.pdm.distances_steps",
              lambda: "got %r want %r; %s" % (got_e, want_e, tag))
    sd = ctx.call("C14.pdm.sum_of_distances", pdm.sum_of_distances)
    ctx.check(close(sd, sum(want_d), scale * len(pairs)), "sum_of_distances", "C14.pdm.sum_of_distances",
              lambda: "got %r want %r; %s" % (sd, sum(want_d), tag))
    got_taxa = sorted(t.label for t in pdm.taxon_iter())
    ctx.check(got_taxa == sorted(lab.values()), "mapped_taxa_are_the_leaf_taxa", "C14.pdm.taxon_iter",
              lambda: "got %r; %s" % (got_taxa, tag))
    got_pairs = sorted(tuple(sorted([x.label, y.label])) for x, y in pdm.distinct_taxon_pair_iter())
    ctx.check(got_pairs == sorted(tuple(sorted([lab[a], lab[b]])) for a, b in pairs), "distinct_pairs_each_once",
              "C14.pdm.pair_iter", lambda: "got %r; %s" % (got_pairs, tag))
    for weighted, col in ((True, 0), (False, 1)):
        mp = ctx.call("C14.pdm.max_pairwise_distance_taxa", pdm.max_pairwise_distance_taxa, is_weighted_edge_distances=weighted)
        best = max(path[p][col] for p in pairs)
        ok = mp is not None and len(mp) == 2
        if ok:
            byl = dict((lab[i], i) for i in leaves)
            v = path[(byl[mp[0].label], byl[mp[1].label])][col]
            ok = eq(v, best) if weighted else v == best
        ctx.check(ok, "max_pairwise_distance_taxa_attain_the_maximum", "C14.pdm.max_pair",
                  lambda: "weighted=%r got %r want distance %r; %s" % (weighted, mp and [t.label for t in mp], best, tag))

    # -- MPD / MNTD with filter subsets
    total = pre.total_length(include_root=True)
    # "tree size": total edge length (weighted) / number of edges (unweighted).  compile_from_tree, like Tree.edges(),
    # counts one edge per node, the seed's own edge included.
    tree_size = {True: total, False: len(pre.nodes())}
    subsets = [None] + [s for s in case["subsets"]]
    for sub in subsets:
        if sub is None:
            members = list(leaves)
            fn = None
        else:
            chosen = set("T%d" % k for k in sub)
            members = [i for i in leaves if lab[i] in chosen]
            fn = (lambda chosen: (lambda t: t.label in chosen))(chosen)
        ctx.cls("pdm:filter:%s" % ("all" if sub is None else "empty" if not members else "single" if len(members) == 1 else "subset"))
        for weighted, col in ((True, 0), (False, 1)):
            mpairs = list(itertools.combinations(members, 2))
            for name, meth in (("mean_pairwise_distance", pdm.mean_pairwise_distance),
                               ("mean_nearest_taxon_distance", pdm.mean_nearest_taxon_distance)):
                if name == "mean_pairwise_distance":
                    want = sum(path[p][col] for p in mpairs) / float(len(mpairs)) if mpairs else None
                else:
                    want = (sum(min(path[(a, b)][col] for b in members if b != a) for a in members) / float(len(members))
                            if len(members) >= 2 else None)
                try:
                    got = ctx.call("C14.pdm." + name, meth, filter_fn=fn, is_weighted_edge_distances=weighted,
                                   _allowed=(NullAssemblageException,))
                except NullAssemblageException:
                    got = "refused"
                if want is None:
                    ctx.check(got == "refused", name + "_refuses_assemblage_without_pairs", "C14.pdm.%s_null" % name,
                              lambda: "subset %r weighted=%r got %r; %s" % (sub, weighted, got, tag))
                    continue
                ctx.check(got != "refused" and close(got, want, scale), name + "_is_the_stated_average", "C14.pdm." + name,
                          lambda: "subset %r weighted=%r got %r want %r; %s" % (sub, weighted, got, want, tag))
                size = tree_size[weighted]
                if size > 0:
                    gotn = ctx.call("C14.pdm." + name, meth, filter_fn=fn, is_weighted_edge_distances=weighted,
                                    is_normalize_by_tree_size=True)
                    ctx.check(close(gotn, want / size, (scale if weighted else want) / size), name + "_normalized_by_tree_size",
                              "C14.pdm.%s_normalized" % name,
                              lambda: "subset %r weighted=%r got %r want %r (tree size %r); %s" % (sub, weighted, gotn, want / size, size, tag))
    # -- the remaining functions that take the two flags, under all four combinations
    for weighted, col in ((True, 0), (False, 1)):
        size = tree_size[weighted]
        for normalize in (False, True):
            if normalize and not size > 0:
                # weighted distances on a tree of total length 0: the library divides by zero (ZeroDivisionError);
                # nothing is documented for that, so nothing is asserted
                ctx.cls("pdm:normalize_skipped_zero_tree_length")
                continue
            div = float(size) if normalize else 1.0
            sc = (scale if weighted else max(path[p][1] for p in pairs)) / div
            combo = "weighted=%r normalize=%r tree_size=%r" % (weighted, normalize, size)
            want_l = sorted(path[p][col] / div for p in pairs)
            got_l = sorted(ctx.call("C14.pdm.distances", pdm.distances, is_weighted_edge_distances=weighted,
                                    is_normalize_by_tree_size=normalize))
            ctx.check(len(got_l) == len(want_l) and all(close(x, y, sc) for x, y in zip(got_l, want_l)),
                      "distances_under_both_flags", "C14.pdm.distances_flags", lambda: "%s got %r want %r; %s" % (combo, got_l, want_l, tag))
            got_s = ctx.call("C14.pdm.sum_of_distances", pdm.sum_of_distances, is_weighted_edge_distances=weighted,
                             is_normalize_by_tree_size=normalize)
            ctx.check(close(got_s, sum(want_l), sc * len(pairs)), "sum_of_distances_under_both_flags", "C14.pdm.sum_of_distances_flags",
                      lambda: "%s got %r want %r; %s" % (combo, got_s, sum(want_l), tag))
            for a, b in ((leaves[0], leaves[-1]), (leaves[-1], leaves[0]), (leaves[0], leaves[0])):
                want = path[(a, b)][col] / div
                g1 = ctx.call("C14.pdm.distance", pdm.distance, tx[a], tx[b], is_weighted_edge_distances=weighted,
                              is_normalize_by_tree_size=normalize)
                meth = pdm.patristic_distance if weighted else pdm.path_edge_count
                g2 = ctx.call("C14.pdm.pair_normalized", meth, tx[a], tx[b], is_normalize_by_tree_size=normalize)
                ctx.check(close(g1, want, sc) and close(g2, want, sc), "pair_distance_under_both_flags", "C14.pdm.pair_flags",
                          lambda: "%s %s-%s distance() %r direct %r want %r; %s" % (combo, lab[a], lab[b], g1, g2, want, tag))
    return path, scale, eq


def _check_pdm_rest(ctx, case, ndm_node_limit, count, n, ns, tree, pre, pdm, leaves, lab, tx, path, scale, eq, tag, nodes):
    from dendropy.calculate import phylogeneticdistance, treemeasure

    # -- CSV hop: the table read back holds the same entries (weighted and step counts)
    if case.get("csv"):
        delim = case["csv"]
        rown, coln = case.get("csv_names", [True, True])
        sizes = {True: pre.total_length(include_root=True), False: len(nodes)}
        for weighted, col, normalize in ((True, 0, False), (False, 1, False), (True, 0, True), (False, 1, True)):
            if normalize and not sizes[weighted] > 0:
                continue
            div = float(sizes[weighted]) if normalize else 1.0
            out = io.StringIO()
            ctx.call("C14.csv.write", pdm.write_csv, out, is_normalize_by_tree_size=normalize,
                     is_weighted_edge_distances=weighted, delimiter=delim, is_first_row_column_names=rown,
                     is_first_column_row_names=coln)
            back = ctx.call("C14.csv.read", phylogeneticdistance.PhylogeneticDistanceMatrix.from_csv,
                            io.StringIO(out.getvalue()), taxon_namespace=ns, delimiter=delim,
                            is_first_row_column_names=rown, is_first_column_row_names=coln)
            ctx.check(sorted(t.label for t in back.taxon_iter()) == sorted(lab.values()) and
                      all(t in tx.values() for t in back.taxon_iter()), "csv_round_trip_keeps_the_taxa", "C14.csv.taxa",
                      lambda: "delimiter %r text %r; %s" % (delim, out.getvalue()[:200], tag))
            for a in leaves:
                for b in leaves:
                    got = ctx.call("C14.csv.read", back.patristic_distance, tx[a], tx[b])
                    ctx.check(close(got, path[(a, b)][col] / div, (scale if weighted else 0.0) / div), "csv_round_trip_keeps_the_entries", "C14.csv.values",
                              lambda: "weighted=%r normalize=%r %s-%s got %r want %r; %s" % (weighted, normalize, lab[a], lab[b], got, path[(a, b)][col] / div, tag))
        ctx.cls("pdm:csv_hop:%r" % delim)
        ctx.cls("pdm:csv_names:row=%r,col=%r" % (rown, coln))

    # -- NodeDistanceMatrix: every pair of nodes
    if len(nodes) <= ndm_node_limit:
        ndm = ctx.call("C14.ndm.compile", tree.node_distance_matrix)
        post, problems = snapshot(tree)
        ctx.check(not problems and same_structure(pre, post), "node_matrix_leaves_the_tree_unchanged", "C14.ndm.tree_unchanged", tag)
        all_d, all_e = [], []
        for x in nodes:
            for y in nodes:
                d, e, m = pre.path(x, y)
                ox, oy = pre.obj[x], pre.obj[y]
                got = ctx.call("C14.ndm.patristic_distance", ndm.patristic_distance, ox, oy)
                gote = ctx.call("C14.ndm.path_edge_count", ndm.path_edge_count, ox, oy)
                gotm = ctx.call("C14.ndm.mrca", ndm.mrca, ox, oy)
                ctx.check(eq(got, d) and gote == e, "node_distance_is_path_sum_and_edge_count", "C14.ndm.distance",
                          lambda: "%s / %s got %r,%r want %r,%r; %s" % (describe(pre, x), describe(pre, y), got, gote, d, e, tag))
                ctx.check(gotm is pre.obj[m], "node_mrca_is_lowest_common_ancestor", "C14.ndm.mrca",
                          lambda: "%s / %s got %s want %s; %s" % (describe(pre, x), describe(pre, y),
                                                                 describe(pre, node_index(pre, gotm)), describe(pre, m), tag))
                if x < y:
                    all_d.append(d)
                    all_e.append(e)
        gd = sorted(ctx.call("C14.ndm.distances", ndm.distances))
        ge = sorted(ctx.call("C14.ndm.distances", ndm.distances, is_weighted_edge_distances=False))
        all_d.sort()
        ctx.check(len(gd) == len(all_d) and all(eq(p, q) for p, q in zip(gd, all_d)) and ge == sorted(all_e),
                  "node_distances_list_each_pair_once", "C14.ndm.distances", lambda: "got %r want %r; %s" % (gd, all_d, tag))
        ctx.cls("pdm:node_matrix_checked")

    # -- treemeasure.patristic_distance (refreshes the encoding itself: last, it may redraw an unrooted tree)
    mixed = not (pre.all_lengths_present() or pre.all_lengths_absent())
    redraws = case["rooted"] is not True and len(pre.children[pre.root]) == 2
    for (ka, kb) in case["tm_pairs"]:
        if mixed and redraws:
            # the refresh collapses the basal bifurcation; what `None + x` is there is not settled (DESIGN 2.1)
            ctx.cls("pdm:treemeasure_skipped_mixed_lengths_basal_bifurcation")
            break
        a, b = leaves[ka % len(leaves)], leaves[kb % len(leaves)]
        got = ctx.call("C14.treemeasure.patristic_distance", treemeasure.patristic_distance, tree, tx[a], tx[b])
        ctx.check(eq(got, path[(a, b)][0]), "treemeasure_patristic_distance_is_path_sum", "C14.treemeasure.patristic_distance",
                  lambda: "%s-%s got %r want %r; %s" % (lab[a], lab[b], got, path[(a, b)][0], tag))

    if count and shape_is_nontrivial(pre):
        ctx.nontrivial(["pdm", case])
    ctx.cls("pdm:lenpat:" + case["lenpat"])
    ctx.cls("pdm:leaves:%s" % ("2-4" if n <= 4 else "5-8" if n <= 8 else "9-12" if n <= 12 else ">12"))
    if any(len(pre.children[i]) > 2 for i in nodes):
        ctx.cls("pdm:polytomy")
    if any(len(pre.children[i]) == 1 for i in nodes):
        ctx.cls("pdm:unifurcation")
    inner_taxa_classes(ctx, "pdm", pre)
    ctx.sample("pdm", {"newick": shapes.spec_to_newick(case["spec"]), "rooted": case["rooted"], "lenpat": case["lenpat"]})


# ---------------------------------------------------------------------------
# sub-check "history": answers after earlier calls, tree edits and recompilation of the same matrix object
# ---------------------------------------------------------------------------

HISTORY_OPS = ["move", "reroot", "switch", "scale", "setlen", "move", "reroot", "outgroup", "encode", "recompile", "switch"]


@st.composite
def history_cases(draw, max_leaves):
    total = draw(st.integers(3, max_leaves))
    kind = draw(st.sampled_from(["same", "superset", "superset", "subset", "overlap"]))
    universe = list(range(total))
    if kind == "same":
        a = b = universe
    elif kind == "superset":
        a = sorted(draw(st.lists(st.sampled_from(universe), unique=True, min_size=2, max_size=max(2, total - 1))))
        b = universe
    elif kind == "subset":
        a = universe
        b = sorted(draw(st.lists(st.sampled_from(universe), unique=True, min_size=2, max_size=max(2, total - 1))))
    else:
        a = sorted(draw(st.lists(st.sampled_from(universe), unique=True, min_size=2, max_size=total)))
        b = sorted(draw(st.lists(st.sampled_from(universe), unique=True, min_size=2, max_size=total)))
    trees = []
    for members in (a, b):
        sl = draw(shapes.with_lengths(shapes.shapes(min_leaves=len(members), max_leaves=len(members), max_arity=4),
                                      patterns=("none", "unit", "smallint", "dyadic", "dyadic")))
        for nd in shapes.spec_nodes(sl["spec"]):
            if nd["t"] is not None:
                nd["t"] = members[nd["t"]]
        trees.append({"spec": sl["spec"], "lenpat": sl["lenpat"], "rooted": draw(st.sampled_from([True, True, False, None])),
                      "inner_taxa": draw(INNER_TAXA)})
    ops = draw(st.lists(st.fixed_dictionaries({"op": st.sampled_from(HISTORY_OPS), "x": st.integers(0, 100), "y": st.integers(0, 100),
                                               "k": st.integers(0, 16)}), min_size=2, max_size=6))
    return {"total": total, "kind": kind, "trees": trees, "ops": ops, "store_edges": draw(st.booleans()),
            "subsets": draw(st.lists(st.lists(st.integers(0, total - 1), unique=True, max_size=total), min_size=1, max_size=2)),
            "tm_pairs": [list(p) for p in draw(st.lists(st.tuples(st.integers(0, 40), st.integers(0, 40)), min_size=2, max_size=4))]}


def check_history(ctx, case):
    with warnings.catch_warnings():
        warnings.simplefilter("ignore")
        _check_history(ctx, case)


def _check_history(ctx, case):
    from dendropy.calculate import phylogeneticdistance, treemeasure
    ns, taxa, bits = shapes.build_namespace(shapes.plain_history(case["total"]))
    trees = [shapes.build_tree(t["spec"], ns, taxa, is_rooted=t["rooted"]) for t in case["trees"]]
    by_label = dict((t.label, t) for t in taxa.values())
    for k, t in enumerate(case["trees"]):
        # the two trees get distinct internal taxa ('I<j>' / 'J<j>' would clash otherwise: one namespace)
        extra = add_inner_taxa(ns, trees[k], t.get("inner_taxa"))
        for lab_, tx_ in extra.items():
            tx_.label = "%s_tree%d" % (lab_, k)
            by_label[tx_.label] = tx_
        inner_taxa_classes(ctx, "history", snapshot(trees[k])[0])
    cur = 0
    log = []

    def snap(k):
        rt, problems = snapshot(trees[k])
        if problems:
            ctx.fail("tree_well_formed_in_history", "C14.history.wellformed", "%r after %r" % (problems, log))
        return rt

    def tx_of(rt):
        return dict((i, by_label[rt.taxon[i]]) for i in rt.leaves())

    def usable(rt):
        # every leaf carries a taxon (an emptied internal node or a left-behind seed would be a taxon-less leaf)
        return all(rt.taxon[i] is not None for i in rt.leaves()) and rt.n_leaves() >= 2

    kw = {"is_store_path_edges": True} if case["store_edges"] else {}
    pdm = phylogeneticdistance.PhylogeneticDistanceMatrix(**kw)
    compiled = snap(cur)
    ctx.call("C14.history.compile", pdm.compile_from_tree, trees[cur])
    log.append("compile(tree0)")

    def ask():
        tag = "history %r; matrix compiled from %s" % (log, compiled.canon(ordered=True, lengths=True))
        # the matrix is a snapshot of the tree it was last compiled from
        verify_matrix(ctx, pdm, compiled, tx_of(compiled), case["subsets"], case["store_edges"], True, tag)
        # treemeasure.patristic_distance answers for the tree as it is now
        for k, tree in enumerate(trees):
            now = snap(k)
            if not usable(now):
                continue
            leaves = now.leaves()
            want = dict(((a, b), now.path(a, b)[0]) for a in leaves for b in leaves)
            tx = tx_of(now)
            pairs = [(leaves[ka % len(leaves)], leaves[kb % len(leaves)]) for ka, kb in case["tm_pairs"]]
            if len(leaves) <= 5:
                pairs = [(a, b) for a in leaves for b in leaves]
            for a, b in pairs:
                got = ctx.call("C14.history.treemeasure", treemeasure.patristic_distance, tree, tx[a], tx[b])
                ctx.check(got == want[(a, b)], "treemeasure_patristic_distance_follows_the_current_tree",
                          "C14.history.treemeasure_patristic_distance",
                          lambda: "tree%d %s-%s got %r want %r; tree before the call %s; history %r" % (
                              k, now.taxon[a], now.taxon[b], got, want[(a, b)], now.canon(ordered=True, lengths=True), log))

    ask()
    applied = []
    for op in case["ops"]:
        tree = trees[cur]
        rt = snap(cur)
        name = op["op"]
        nonroot = [i for i in rt.nodes() if i != rt.root]
        if name == "scale":
            ctx.call("C14.history.scale_edges", tree.scale_edges, op["k"] / 4.0)
        elif name == "setlen":
            if case["trees"][cur]["lenpat"] == "none":
                continue
            rt.obj[nonroot[op["x"] % len(nonroot)]].edge.length = op["k"] / 8.0
        elif name == "move":
            cand = [i for i in nonroot if len(rt.children[rt.parent[i]]) >= 2]
            if not cand:
                continue
            x = cand[op["x"] % len(cand)]
            sub = set(rt.preorder(x))
            targets = [i for i in rt.internals() if i not in sub and i != rt.parent[x]]
            if not targets:
                continue
            rt.obj[rt.parent[x]].remove_child(rt.obj[x])
            rt.obj[targets[op["y"] % len(targets)]].add_child(rt.obj[x])
        elif name == "reroot":
            cand = [i for i in rt.internals() if i != rt.root]
            if not cand or len(rt.children[rt.root]) < 2:
                continue
            ctx.call("C14.history.reroot_at_node", tree.reroot_at_node, rt.obj[cand[op["x"] % len(cand)]], update_bipartitions=False)
        elif name == "outgroup":
            if len(rt.children[rt.root]) < 2 or not nonroot:
                continue
            ctx.call("C14.history.to_outgroup_position", tree.to_outgroup_position, rt.obj[nonroot[op["x"] % len(nonroot)]],
                     update_bipartitions=False)
        elif name == "encode":
            ctx.call("C14.history.encode", tree.encode_bipartitions)
        elif name == "recompile":
            now = snap(cur)
            if not usable(now):
                continue
            compiled = now
            ctx.call("C14.history.compile", pdm.compile_from_tree, tree)
        elif name == "switch":
            now = snap(1 - cur)
            if not usable(now):
                continue
            cur = 1 - cur
            compiled = now
            ctx.call("C14.history.compile", pdm.compile_from_tree, trees[cur])
        log.append("%s(tree%d,x=%d,y=%d,k=%d)" % (name, cur, op["x"], op["y"], op["k"]))
        applied.append(name)
        if not usable(snap(cur)):
            # a re-rooting left a taxon-less leaf behind (C07 known finding territory): stop the history here
            ctx.cls("history:stopped_taxonless_leaf")
            return
        if name in ("recompile", "switch"):
            ctx.check(pdm.taxon_namespace is ns, "matrix_uses_tree_namespace", "C14.history.namespace", repr(log))
        ask()
    for name in set(applied):
        ctx.cls("history:op:" + name)
    ctx.cls("history:taxa_of_second_tree:" + case["kind"])
    if applied:
        ctx.nontrivial(["history", case])
    ctx.sample("history", {"trees": [shapes.spec_to_newick(t["spec"]) for t in case["trees"]], "ops": log})


# ---------------------------------------------------------------------------
# sub-check "mrca"
# ---------------------------------------------------------------------------

@st.composite
def query(draw, n):
    kind = draw(st.sampled_from(["single", "pair", "full", "random", "random", "offtree"]))
    if kind == "single":
        s = [draw(st.integers(0, n - 1))]
    elif kind == "pair":
        s = draw(st.lists(st.integers(0, n - 1), unique=True, min_size=min(2, n), max_size=2))
    elif kind == "full":
        s = list(range(n))
    else:
        s = draw(st.lists(st.integers(0, n - 1), unique=True, min_size=1, max_size=n))
    if kind == "offtree":
        s = s + [n + draw(st.integers(0, 1))]
    return {"form": draw(st.sampled_from(["taxa", "labels", "mask"])), "set": list(draw(st.permutations(s))),
            "start": draw(st.one_of(st.none(), st.none(), st.integers(0, 100))),
            "flag": draw(st.sampled_from(["default", True]))}


@st.composite
def mrca_cases(draw, max_leaves):
    spec = draw(shapes.shapes(min_leaves=2, max_leaves=max_leaves, max_arity=5, unifurcations=True))
    n = shapes.n_leaves(spec)
    return {"spec": spec, "rooted": draw(st.sampled_from([True, True, False, None])),
            "hist": draw(shapes.namespace_history(n, max_extra=2)),
            "encode_first": draw(st.sampled_from([True, True, True, False])),
            "su": draw(st.booleans()), "cb": draw(st.booleans()),
            "queries": draw(st.lists(query(n), min_size=1, max_size=5)),
            "edits": draw(st.lists(st.tuples(st.integers(0, 100), st.integers(0, 100)), min_size=draw(st.sampled_from([0, 1, 1, 2])), max_size=3)),
            "stale_queries": draw(st.lists(query(n), min_size=1, max_size=4)), "inner_taxa": draw(INNER_TAXA)}


def run_query(ctx, tree, ns, taxa, bits, q, rt_before, stale, tag):
    """One Tree.mrca call.  rt_before: snapshot taken before the call (used to pick the start node).
    Returns the snapshot after the call."""
    members = [k for k in q["set"] if k in taxa]
    if not members:
        members = [0]
    want = frozenset("T%d" % k for k in members)
    kwargs = {}
    if q["form"] == "taxa":
        kwargs["taxa"] = [taxa[k] for k in members]
    elif q["form"] == "labels":
        kwargs["taxon_labels"] = ["T%d" % k for k in members]
    else:
        m = 0
        for k in members:
            m |= 1 << bits[k]
        kwargs["leafset_bitmask"] = m
    start_obj = None
    rooted = tree.is_rooted is True
    if q["start"] is not None and (rooted or not stale):
        # on a tree not flagged rooted a refresh may delete a child of the seed: start nodes only where none happens
        start_obj = rt_before.obj[rt_before.nodes()[q["start"] % len(rt_before.nodes())]]
        kwargs["start_node"] = start_obj
    if stale:
        kwargs["is_bipartitions_updated"] = False
    elif q["flag"] is True:
        kwargs["is_bipartitions_updated"] = True
    got = ctx.call("C14.mrca.call", tree.mrca, **kwargs)
    after, problems = snapshot(tree)
    ctx.check(not problems, "tree_well_formed_after_mrca", "C14.mrca.wellformed", lambda: "%s %r" % (tag, problems))
    if stale:
        if rooted:
            ctx.check(same_structure(rt_before, after), "refresh_keeps_a_rooted_tree_as_drawn", "C14.mrca.refresh_structure",
                      lambda: "%s before=%s after=%s" % (tag, rt_before.canon(ordered=True), after.canon(ordered=True)))
        else:
            ctx.check(rt_before.unrooted_split_set() == after.unrooted_split_set(), "refresh_keeps_the_unrooted_tree",
                      "C14.mrca.refresh_structure", lambda: "%s before=%s after=%s" % (tag, rt_before.canon(ordered=True), after.canon(ordered=True)))
    else:
        ctx.check(same_structure(rt_before, after), "query_with_current_encoding_leaves_tree_unchanged", "C14.mrca.query_structure",
                  lambda: "%s before=%s after=%s" % (tag, rt_before.canon(ordered=True), after.canon(ordered=True)))
    cl = after.clusters()
    start_idx = None
    if start_obj is not None:
        start_idx = node_index(after, start_obj)
        if start_idx is None:
            raise runner.HarnessError("start node vanished")
    exp = expected_mrca(after, cl, want, start_idx)
    want_obj = None if exp is None else after.obj[exp]
    ctx.check(got is want_obj, "mrca_is_deepest_node_covering_the_set",
              "C14.mrca.%s%s" % (q["form"], ".refresh" if stale else ""),
              lambda: "%s form=%s set=%s start=%s stale=%r: got %s want %s; tree now %s" % (
                  tag, q["form"], sorted(want), describe(after, start_idx), stale,
                  "None" if got is None else describe(after, node_index(after, got)), describe(after, exp), after.canon(ordered=True)))
    ctx.cls("mrca:%s:%s" % ("refresh" if stale else "current", "none_expected" if exp is None else
                            "single" if len(want) == 1 else "full" if want == cl[after.root] else "subset"))
    if start_obj is not None:
        ctx.cls("mrca:start_node_given")
    return after


def check_mrca(ctx, case):
    with warnings.catch_warnings():
        warnings.simplefilter("ignore")
        _check_mrca(ctx, case)


def _check_mrca(ctx, case):
    n, ns, taxa, bits, tree, pre = build(case, case["rooted"])
    tag = "rooted=%r encode_first=%r su=%r cb=%r spec=%s" % (case["rooted"], case["encode_first"], case["su"], case["cb"],
                                                          pre.canon(ordered=True))
    cur = pre
    if case["encode_first"]:
        ctx.call("C14.mrca.encode", tree.encode_bipartitions, suppress_unifurcations=case["su"],
                 collapse_unrooted_basal_bifurcation=case["cb"])
        cur, problems = snapshot(tree)
        if problems:
            ctx.fail("tree_well_formed_after_encoding", "C14.mrca.wellformed", "%s %r" % (tag, problems))
        for q in case["queries"]:
            cur = run_query(ctx, tree, ns, taxa, bits, q, cur, False, tag)
    # raw structural edits: the encoding (if any) is now stale
    moved = 0
    for (xi, yi) in case["edits"]:
        cur, problems = snapshot(tree)
        cand = [i for i in cur.nodes() if i != cur.root and len(cur.children[cur.parent[i]]) >= 2]
        if not cand:
            continue
        x = cand[xi % len(cand)]
        sub = set(cur.preorder(x))
        targets = [i for i in cur.internals() if i not in sub and i != cur.parent[x]]
        if not targets:
            continue
        y = targets[yi % len(targets)]
        cur.obj[cur.parent[x]].remove_child(cur.obj[x])
        cur.obj[y].add_child(cur.obj[x])
        moved += 1
    cur, problems = snapshot(tree)
    if problems:
        raise runner.HarnessError("edit broke the tree: %r" % problems)
    tag2 = tag + " after %d raw moves" % moved
    first = True
    for q in case["stale_queries"]:
        # the first call asks for a refresh; afterwards the encoding is current again
        cur = run_query(ctx, tree, ns, taxa, bits, q, cur, first, tag2)
        first = False
    ctx.cls("mrca:moves=%d" % moved)
    inner_taxa_classes(ctx, "mrca", pre)
    ctx.cls("mrca:%s" % ("encoded_first" if case["encode_first"] else "never_encoded"))
    if shape_is_nontrivial(pre):
        ctx.nontrivial(["mrca", case])
    ctx.sample("mrca", {"newick": shapes.spec_to_newick(case["spec"]), "rooted": case["rooted"], "queries": case["queries"][:2]})


# ---------------------------------------------------------------------------
# distance-matrix routes shared by nj / upgma
# ---------------------------------------------------------------------------

ROUTES = ["tree", "tree", "tree_csv", "own_csv", "own_csv", "dict"]
DELIMS = [",", ",", "\t", ";"]


@st.composite
def route(draw, n):
    return {"route": draw(st.sampled_from(ROUTES)), "delim": draw(st.sampled_from(DELIMS)),
            "ns_given": draw(st.booleans()), "order": list(draw(st.permutations(list(range(n))))),
            "lower_garbage": draw(st.booleans()), "hist": draw(shapes.namespace_history(n, max_extra=2)),
            "inner_taxa": draw(INNER_TAXA)}


def own_csv_text(labels, dist, delim, lower_garbage):
    """CSV text with header row and name column; the documented reader looks at the upper right triangle only."""
    rows = [delim.join([""] + labels)]
    for i, a in enumerate(labels):
        cells = [a]
        for j, b in enumerate(labels):
            if i == j:
                v = 0.0
            elif j < i and lower_garbage:
                v = 977.0 + i + j
            else:
                v = dist[frozenset([a, b])]
            cells.append(repr(float(v)))
        rows.append(delim.join(cells))
    return "\n".join(rows) + "\n"


def matrix_by_route(ctx, r, spec, dist, labels, weighted=True):
    """PhylogeneticDistanceMatrix for the label->distance table `dist` (frozenset pair -> float) via the drawn route.

    Routes starting from a tree build `spec`; the others never touch compile_from_tree."""
    import dendropy
    from dendropy.calculate.phylogeneticdistance import PhylogeneticDistanceMatrix
    n = len(labels)
    kind = r["route"]
    if spec is None and kind in ("tree", "tree_csv"):
        kind = "own_csv"
    if not weighted and kind in ("own_csv", "dict"):
        kind = "tree"
    ctx.cls("route:" + kind)
    ns, taxa, bits = shapes.build_namespace(r["hist"])
    if kind in ("tree", "tree_csv"):
        tree = shapes.build_tree(spec, ns, taxa, is_rooted=None)
        if add_inner_taxa(ns, tree, r.get("inner_taxa")):
            ctx.cls("route:tree_with_taxon_on_internal_node")
        pdm = ctx.call("C14.route.from_tree", tree.phylogenetic_distance_matrix)
        if kind == "tree":
            return pdm, weighted
        out = io.StringIO()
        ctx.call("C14.route.write_csv", pdm.write_csv, out, is_normalize_by_tree_size=False,
                 is_weighted_edge_distances=weighted, delimiter=r["delim"])
        text = out.getvalue()
        ctx.cls("route:delimiter:%r" % r["delim"])
        header = text.splitlines()[0] if text else ""
        ctx.check(header.count(r["delim"]) == n, "write_csv_uses_the_requested_delimiter", "C14.csv.write_delimiter",
                  lambda: "delimiter %r: first line %r" % (r["delim"], header))
        pdm2 = ctx.call("C14.route.from_csv", PhylogeneticDistanceMatrix.from_csv, io.StringIO(text),
                        taxon_namespace=ns if r["ns_given"] else None, delimiter=r["delim"])
        if r["ns_given"]:
            ctx.check(pdm2.taxon_namespace is ns, "from_csv_uses_given_namespace", "C14.csv.namespace", "")
        return pdm2, True
    ordered = [labels[k] for k in r["order"]]
    if kind == "own_csv":
        text = own_csv_text(ordered, dist, r["delim"], r["lower_garbage"])
        ctx.cls("route:delimiter:%r" % r["delim"])
        pdm = ctx.call("C14.route.from_csv", PhylogeneticDistanceMatrix.from_csv, io.StringIO(text),
                       taxon_namespace=ns if r["ns_given"] else None, delimiter=r["delim"])
        if r["ns_given"]:
            ctx.check(pdm.taxon_namespace is ns, "from_csv_uses_given_namespace", "C14.csv.namespace", "")
        return pdm, True
    # dict
    d = {}
    for a in ordered:
        ta = taxa[idx_of(a)]
        d[ta] = {}
        for b in ordered:
            if a != b:
                d[ta][taxa[idx_of(b)]] = dist[frozenset([a, b])]
    pdm = PhylogeneticDistanceMatrix()
    ctx.call("C14.route.compile_from_dict", pdm.compile_from_dict, d, ns)
    return pdm, True


def check_matrix_values(ctx, pdm, dist, labels, key):
    """The matrix handed to NJ/UPGMA holds exactly the table (exact: dyadic values, repr round trip through CSV)."""
    by = dict((t.label, t) for t in pdm.taxon_iter())
    ctx.check(sorted(by) == sorted(labels), "matrix_taxa_are_the_table_taxa", key + ".taxa", lambda: "got %r want %r" % (sorted(by), sorted(labels)))
    for a, b in itertools.combinations(labels, 2):
        want = dist[frozenset([a, b])]
        g1 = pdm.patristic_distance(by[a], by[b])
        g2 = pdm.patristic_distance(by[b], by[a])
        ctx.check(g1 == want and g2 == want, "matrix_holds_the_table_symmetrically", key + ".values",
                  lambda: "%s-%s got %r / %r want %r" % (a, b, g1, g2, want))


def table_of(rt):
    return dict((k, v[0]) for k, v in rt.leaf_paths().items())


# ---------------------------------------------------------------------------
# sub-check "nj"
# ---------------------------------------------------------------------------

@st.composite
def nj_cases(draw, max_leaves):
    spec = draw(shapes.shapes(min_leaves=3, max_leaves=max_leaves, binary=True))
    if draw(st.booleans()):
        # trifurcating seed: dissolve one internal child of the seed
        for k, c in enumerate(spec["ch"]):
            if c["ch"]:
                spec["ch"][k:k + 1] = c["ch"]
                break
    for k, s in enumerate(shapes.spec_nodes(spec)):
        if k == 0:
            continue
        if s["ch"]:
            s["len"] = draw(st.integers(2, 40)) / 8.0
        else:
            s["len"] = draw(st.one_of(st.integers(0, 40), st.integers(1, 40))) / 8.0
    n = shapes.n_leaves(spec)
    return {"spec": spec, "r": draw(route(n)), "weighted": draw(st.sampled_from([True, True, True, False]))}


def check_nj(ctx, case):
    with warnings.catch_warnings():
        warnings.simplefilter("ignore")
        _check_nj(ctx, case)


def _check_nj(ctx, case):
    spec = case["spec"]
    exp = RefTree.from_spec(spec)
    if not case["weighted"]:
        for i in exp.nodes():
            exp.length[i] = None if i == exp.root else 1.0
    labels = sorted(exp.leafset())
    dist = table_of(exp)
    pdm, weighted = matrix_by_route(ctx, case["r"], spec, dist, labels, weighted=case["weighted"])
    if weighted:
        check_matrix_values(ctx, pdm, dist, labels, "C14.nj.matrix")
    tree = ctx.call("C14.nj.call", pdm.nj_tree, is_weighted_edge_distances=weighted)
    got, problems = snapshot(tree)
    tag = "route=%s weighted=%r generating=%s got=%s" % (case["r"]["route"], case["weighted"], exp.canon(lengths=True), got.canon(lengths=True))
    ctx.check(not problems, "nj_tree_well_formed", "C14.nj.wellformed", lambda: "%s %r" % (tag, problems))
    ctx.check(tree.taxon_namespace is pdm.taxon_namespace, "nj_tree_uses_matrix_namespace", "C14.nj.namespace", tag)
    ctx.check(sorted(str(got.taxon[i]) for i in got.leaves()) == labels, "nj_leaves_are_the_matrix_taxa", "C14.nj.leafset", tag)
    es, gs = exp.split_lengths(False), got.split_lengths(False)
    ctx.check(set(es) == set(gs), "nj_recovers_unrooted_topology", "C14.nj.topology", tag)
    scale = max(dist.values())
    for k in es:
        if k in gs:
            ctx.check(gs[k] is not None and close(gs[k], es[k] or 0.0, scale), "nj_recovers_edge_lengths", "C14.nj.lengths",
                      lambda: "split %s got %r want %r; %s" % (sorted(map(sorted, k)), gs[k], es[k], tag))
    n = len(labels)
    if n >= 5:
        ctx.nontrivial(["nj", case])
    ctx.cls("nj:%s" % ("weighted" if case["weighted"] else "steps"))
    ctx.cls("nj:taxa:%s" % ("3-4" if n <= 4 else "5-8" if n <= 8 else "9+"))
    ctx.cls("nj:seed_arity_%d" % len(spec["ch"]))
    ctx.sample("nj", {"newick": shapes.spec_to_newick(spec), "route": case["r"]["route"], "weighted": case["weighted"]})


# ---------------------------------------------------------------------------
# sub-check "upgma" (ultrametric inputs) and "upgma_general" (reference average linkage)
# ---------------------------------------------------------------------------

@st.composite
def upgma_cases(draw, max_leaves):
    spec = draw(shapes.shapes(min_leaves=2, max_leaves=max_leaves, binary=True))
    height = {}

    def rec(s):
        if not s["ch"]:
            height[id(s)] = 0
            return 0
        below = max(rec(c) for c in s["ch"])
        if zero_cherries and all(not c["ch"] for c in s["ch"]):
            # a cherry of two identical samples: distance 0 between two distinct taxa.  Only cherries: a zero-height
            # cluster of >= 3 taxa would have no unique binary resolution.
            h = below + draw(st.sampled_from([0, 0, 1, 2, 5]))
        else:
            h = below + draw(st.integers(1, 12))
        height[id(s)] = h
        return h
    zero_cherries = draw(st.booleans())
    rec(spec)

    def setlen(s):
        for c in s["ch"]:
            c["len"] = (height[id(s)] - height[id(c)]) / 8.0
            setlen(c)
    setlen(spec)
    n = shapes.n_leaves(spec)
    return {"spec": spec, "r": draw(route(n))}


def check_upgma(ctx, case):
    with warnings.catch_warnings():
        warnings.simplefilter("ignore")
        _check_upgma(ctx, case)


def _check_upgma(ctx, case):
    spec = case["spec"]
    exp = RefTree.from_spec(spec)
    labels = sorted(exp.leafset())
    dist = table_of(exp)
    zeros = sum(1 for v in dist.values() if v == 0)
    # The order in which upgma_tree scans the pairs follows the iteration order of a set of Taxon objects (hashed by
    # address).  With zero distances present the matrix is therefore built a few times with the taxa created in rotated
    # order, so that a zero pair is met early, in the middle and late in the scan.
    reps = min(4, len(labels)) if zeros else 1
    for rep in range(reps):
        _check_upgma_once(ctx, case, rotate_route(case["r"], rep * max(1, len(labels) // reps)), spec, exp, labels, dist)
    n = len(labels)
    if n >= 5:
        ctx.nontrivial(["upgma", case])
    ctx.cls("upgma:taxa:%s" % ("2-4" if n <= 4 else "5-8" if n <= 8 else "9+"))
    ctx.cls("upgma:zero_distance_pairs:%s" % ("0" if not zeros else "1" if zeros == 1 else "2+"))
    ctx.sample("upgma", {"newick": shapes.spec_to_newick(spec), "route": case["r"]["route"]})
    if zeros:
        ctx.sample("upgma_zero_cherry", {"newick": shapes.spec_to_newick(spec), "route": case["r"]["route"]})


def rotate_route(r, k):
    """The same route with the accession / column order of the taxa rotated by k."""
    if not k:
        return r
    r = dict(r)
    r["order"] = r["order"][k:] + r["order"][:k]
    h = dict(r["hist"])
    kk = k % len(h["order"])
    h["order"] = h["order"][kk:] + h["order"][:kk]
    r["hist"] = h
    return r


def _check_upgma_once(ctx, case, r, spec, exp, labels, dist):
    pdm, _ = matrix_by_route(ctx, r, spec, dist, labels)
    check_matrix_values(ctx, pdm, dist, labels, "C14.upgma.matrix")
    tree = ctx.call("C14.upgma.call", pdm.upgma_tree)
    got, problems = snapshot(tree)
    tag = "route=%s generating=%s got=%s" % (r["route"], exp.canon(lengths=True), got.canon(lengths=True))
    ctx.check(not problems, "upgma_tree_well_formed", "C14.upgma.wellformed", lambda: "%s %r" % (tag, problems))
    ctx.check(tree.taxon_namespace is pdm.taxon_namespace, "upgma_tree_uses_matrix_namespace", "C14.upgma.namespace", tag)
    ctx.check(got.rooted_cluster_multiset() == exp.rooted_cluster_multiset(), "upgma_recovers_rooted_clusters", "C14.upgma.topology", tag)
    es, gs = exp.split_lengths(True), got.split_lengths(True)
    scale = max(dist.values())
    full = exp.leafset()
    for k in es:
        if k in gs and k != full:
            ctx.check(gs[k] is not None and close(gs[k], es[k], scale), "upgma_recovers_edge_lengths", "C14.upgma.lengths",
                      lambda: "cluster %s got %r want %r; %s" % (sorted(k), gs[k], es[k], tag))


@st.composite
def upgma_general_cases(draw, max_leaves):
    src = draw(st.sampled_from(["random", "random", "tree"]))
    if src == "tree":
        sl = draw(shapes.with_lengths(shapes.shapes(min_leaves=3, max_leaves=max_leaves, max_arity=4), patterns=("posdyadic", "posdyadic", "dyadic")))
        n = shapes.n_leaves(sl["spec"])
        return {"src": src, "spec": sl["spec"], "r": draw(route(n))}
    n = draw(st.integers(3, max_leaves))
    tri = draw(st.lists(st.one_of(st.integers(1, 400), st.integers(1, 400), st.integers(0, 400)), min_size=n * (n - 1) // 2, max_size=n * (n - 1) // 2))
    return {"src": src, "n": n, "tri": tri, "r": draw(route(n))}


def ref_upgma(labels, dist):
    """Exact average linkage.  Returns (dict cluster -> height as Fraction, tie_met)."""
    active = [frozenset([x]) for x in labels]
    d = {}
    for a, b in itertools.combinations(active, 2):
        d[frozenset([a, b])] = Fraction(dist[frozenset([next(iter(a)), next(iter(b))])])
    heights = dict((c, Fraction(0)) for c in active)
    tie = False
    while len(active) > 1:
        best = None
        cands = []
        for a, b in itertools.combinations(active, 2):
            v = d[frozenset([a, b])]
            if best is None or v < best:
                best, cands = v, [(a, b)]
            elif v == best:
                cands.append((a, b))
        if len(cands) > 1:
            tie = True
        a, b = cands[0]
        new = a | b
        heights[new] = best / 2
        active = [c for c in active if c is not a and c is not b]
        for c in active:
            d[frozenset([new, c])] = (d[frozenset([a, c])] * len(a) + d[frozenset([b, c])] * len(b)) / (len(a) + len(b))
        active.append(new)
    return heights, tie


def check_upgma_general(ctx, case):
    with warnings.catch_warnings():
        warnings.simplefilter("ignore")
        _check_upgma_general(ctx, case)


def _check_upgma_general(ctx, case):
    if case["src"] == "tree":
        spec = case["spec"]
        gen = RefTree.from_spec(spec)
        labels = sorted(gen.leafset())
        dist = table_of(gen)
    else:
        spec = None
        labels = ["T%d" % i for i in range(case["n"])]
        dist = {}
        for k, (a, b) in enumerate(itertools.combinations(labels, 2)):
            dist[frozenset([a, b])] = case["tri"][k] / 8.0
        labels.sort()
    heights, tie = ref_upgma(labels, dist)
    zeros = sum(1 for v in dist.values() if v == 0)
    reps = min(4, len(labels)) if zeros and not tie else 1
    for rep in range(reps):
        _check_upgma_general_once(ctx, case, rotate_route(case["r"], rep * max(1, len(labels) // reps)), spec, labels, dist, heights, tie)
    ctx.cls("upgma_general:%s:%s" % (case["src"], "tie" if tie else "no_tie"))
    if zeros:
        ctx.cls("upgma_general:zero_entries:%s" % ("tie" if tie else "no_tie"))
    if len(labels) >= 5:
        ctx.nontrivial(["upgma_general", case])
    ctx.sample("upgma_general", {"src": case["src"], "table": sorted((sorted(k), v) for k, v in dist.items())[:10]})


def _check_upgma_general_once(ctx, case, r, spec, labels, dist, heights, tie):
    pdm, _ = matrix_by_route(ctx, r, spec, dist, labels)
    check_matrix_values(ctx, pdm, dist, labels, "C14.upgma_general.matrix")
    tree = ctx.call("C14.upgma.call", pdm.upgma_tree)
    got, problems = snapshot(tree)
    tag = "src=%s route=%s table=%s got=%s" % (case["src"], r["route"],
                                              sorted((sorted(k), v) for k, v in dist.items()), got.canon(lengths=True))
    ctx.check(not problems, "upgma_tree_well_formed", "C14.upgma.wellformed", lambda: "%s %r" % (tag, problems))
    ctx.check(sorted(str(got.taxon[i]) for i in got.leaves()) == labels, "upgma_leaves_are_the_matrix_taxa", "C14.upgma.leafset", tag)
    scale = max(dist.values())
    cl = got.clusters()
    for i in got.internals():
        if not ctx.check(len(got.children[i]) == 2, "upgma_tree_is_binary", "C14.upgma.binary", tag):
            return
    # With a tie in the exact reference run the library's choice depends on the iteration order of a set of Taxon
    # objects (hashed by address), so a verdict would not be a function of the case: those cases stop here.
    if not tie:
        ctx.check(set(cl.values()) == set(heights), "upgma_joins_the_closest_pair_each_round", "C14.upgma.greedy_topology",
                  lambda: "reference clusters %s; %s" % (sorted(sorted(c) for c in heights if len(c) > 1), tag))
        # definitional invariant: ultrametric, height of a join = half the mean distance between its two sides
        for i in got.internals():
            kids = got.children[i]
            mean = sum(Fraction(dist[frozenset([a, b])]) for a in cl[kids[0]] for b in cl[kids[1]]) / (len(cl[kids[0]]) * len(cl[kids[1]]))
            want = float(mean / 2)
            for lf in got.leaves(i):
                h = got.path(lf, i)[0]
                ctx.check(close(h, want, scale), "upgma_join_height_is_half_the_mean_cross_distance", "C14.upgma.average_linkage",
                          lambda: "join over %s: height from %s is %r, want %r; %s" % (sorted(cl[i]), got.taxon[lf], h, want, tag))


# ---------------------------------------------------------------------------
# exhaustive part
# ---------------------------------------------------------------------------

_SHAPES = {}


def shapes_of(n):
    if n not in _SHAPES:
        _SHAPES[n] = list(all_ordered_shapes(n))
    return _SHAPES[n]


def exhaustive_items(maxn):
    items = []
    for n in range(2, maxn + 1):
        for idx, spec in enumerate(shapes_of(n)):
            nn = len(shapes.spec_nodes(spec))
            for rooted in (True, False):
                for lens in ("inc", "missing"):
                    for unif in [None] + list(range(nn)):
                        items.append({"n": n, "idx": idx, "rooted": rooted, "lens": lens, "unif": unif})
                    # every internal node (seed included) carries a taxon of its own
                    items.append({"n": n, "idx": idx, "rooted": rooted, "lens": lens, "unif": None, "inner": True})
    return items


def exh_spec(item):
    spec = shapes.copy_spec(shapes_of(item["n"])[item["idx"]])
    if item["unif"] is not None:
        nd = shapes.spec_nodes(spec)[item["unif"]]
        inner = {"t": nd["t"], "lab": None, "len": None, "ch": nd["ch"]}
        nd["t"] = None
        nd["ch"] = [inner]
    for k, s in enumerate(shapes.spec_nodes(spec)):
        if k == 0:
            continue
        if item["lens"] == "missing" and k % 3 == 1:
            s["len"] = None
        else:
            s["len"] = (k + 1) / 8.0
    return spec


def check_exh(ctx, item):
    with warnings.catch_warnings():
        warnings.simplefilter("ignore")
        _check_exh(ctx, item)


def _check_exh(ctx, item):
    spec = exh_spec(item)
    n = item["n"]
    case = {"spec": spec, "lenpat": item["lens"], "rooted": item["rooted"], "hist": None, "store_edges": item["unif"] is None,
            "subsets": [], "tm_pairs": [[0, n - 1]], "via_class": False,
            "inner_taxa": list(range(len(shapes.spec_nodes(spec)))) if item.get("inner") else []}
    _check_pdm(ctx, case, count=False)
    # all non-empty subsets x three query forms; current encoding first, then a never-encoded tree with refresh
    for fresh in (False, True):
        n_, ns, taxa, bits, tree, cur = build(case, item["rooted"])
        tag = "exhaustive rooted=%r fresh=%r spec=%s" % (item["rooted"], fresh, cur.canon(ordered=True))
        if not fresh:
            tree.encode_bipartitions(suppress_unifurcations=False, collapse_unrooted_basal_bifurcation=False)
        for size in range(1, n + 1):
            for sub in itertools.combinations(range(n), size):
                for form in ("taxa", "labels", "mask"):
                    if fresh and form != "taxa" and size not in (1, n):
                        continue
                    q = {"form": form, "set": list(sub), "start": None, "flag": "default"}
                    cur = run_query(ctx, tree, ns, taxa, bits, q, cur, fresh, tag)
    if shape_is_nontrivial(cur):
        ctx.nontrivial(["exh", item])


SUBCHECKS = {"history": check_history, "pdm": check_pdm, "mrca": check_mrca, "nj": check_nj, "upgma": check_upgma,
             "upgma_general": check_upgma_general, "exhaustive": check_exh}


def run(ctx):
    quick = ctx.tier == "quick"
    n = ctx.nshards
    runner.run_items(ctx, "exhaustive", exhaustive_items(5 if quick else 6), check_exh)
    runner.run_given(ctx, "pdm", pdm_cases(12 if quick else 40), check_pdm, (1200 if quick else 16000) // n)
    runner.run_given(ctx, "history", history_cases(8 if quick else 14), check_history, (1000 if quick else 16000) // n)
    runner.run_given(ctx, "mrca", mrca_cases(12 if quick else 40), check_mrca, (1600 if quick else 32000) // n)
    runner.run_given(ctx, "nj", nj_cases(12 if quick else 30), check_nj, (1200 if quick else 16000) // n)
    runner.run_given(ctx, "upgma", upgma_cases(12 if quick else 30), check_upgma, (800 if quick else 12000) // n)
    runner.run_given(ctx, "upgma_general", upgma_general_cases(9 if quick else 16), check_upgma_general,
                     (800 if quick else 12000) // n)
