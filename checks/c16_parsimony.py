"""C16 - parsimony scores are minimal change counts and pure functions of (tree, matrix).

Sub-checks (all cases are plain data; DendroPy objects are built inside the functions):

  score    @given.  One bifurcating tree (rooted, or unrooted = trifurcating seed node) x one DNA / RNA / protein /
           standard matrix over the type's full symbol set x weights x gaps_as_missing.  Oracle: our own Sankoff
           dynamic program over the RefTree snapshot with leaf state sets from our own symbol tables; brute force over
           all internal-node assignments for <= 5 leaves; per-character list; child-order permutation; re-rooting at
           every edge and every internal vertex (done in RefTree, tree rebuilt); fitch_down_pass routes; inputs
           left unchanged.
  history  @given.  ONE tree object scored with a sequence of calls over 1-4 different matrices (different types,
           widths, gap treatment, weights; repeats; optional fitch_up_pass in between); every call must return what a
           freshly built copy of tree + matrix returns (and what the oracle says).
  edits    @given.  ONE matrix object (and one tree object): score, then edit the matrix in place through the public
           sequence API (set one or several cells incl. ambiguity/gap/missing, set_at, swap two rows, replace a row,
           append a column to every row, delete a column from every row), score the SAME matrix object again on the
           same tree and on a fresh tree; every score must equal the oracle on the edited data and the score of a
           freshly built matrix + tree holding the same data.
  subset   @given.  Scoring a selection of columns: taxon_state_sets_map(char_indices=...) with the indices given as a
           list, tuple or range - repeated columns (bootstrap replicates), any order - fed to fitch_down_pass with
           weights and a per-character list.  The map's state-set lists must follow char_indices position by
           position (repeats included); score and per-character list must equal the oracle computed over the
           selected columns in the given order with the given weights.  (One-shot iterators are not generated: the
           unchanged library walks char_indices once per taxon, so a generator gives every taxon after the first an
           empty list.)
  concat   @given.  Multi-alphabet route: 2-3 StandardCharacterMatrix partitions coded over DIFFERENT state alphabets
           (new_standard_state_alphabet("01"), ("012"), ("0123"), ("3210"), ("23"), ...) on one namespace, joined with
           StandardCharacterMatrix.concatenate (cells keep the state objects of their own alphabets).  The concatenated
           score must equal the oracle computed column by column with that column's own alphabet, the per-character
           list must be those minima, and the total must equal the sum of the partition scores.
  final    @given.  fitch_down_pass + fitch_up_pass on a rooted bifurcating tree with unambiguous cells: the final
           state set of every internal node is the set of states the node takes in at least one most-parsimonious
           reconstruction (Fitch 1971 / Hartigan 1973), computed here by a two-directional Sankoff pass.
"""
import itertools

from hypothesis import strategies as st

from lib import runner, shapes
from lib.snapshot import snapshot

CONFIG = {
    "shards": {"quick": 8, "thorough": 16},
    "budget_s": {"quick": 120, "thorough": 1500},
    "rule": ("Hypothesis @given over plain-data cases: strictly bifurcating tree shapes from lib/shapes.py "
             "(random/caterpillar/balanced, 2-9 leaves quick, 2-30 thorough), either rooted (binary seed) or unrooted "
             "(one child edge of the seed contracted -> trifurcating seed); DNA/RNA/protein/standard matrices built "
             "with <Type>CharacterMatrix.from_dict, 1-6 (thorough 1-12) columns, every cell drawn from the type's full "
             "symbol set (fundamental states, gap, missing, every ambiguity code, case synonyms) with a per-column "
             "2-3 state palette so columns are informative; weights None, ints 0-5, ints mixed with dyadic fractions "
             "(0.125 .. 3.75, exact arithmetic, exact comparison) or with decimal fractions (0.1, 0.3, 0.7, 1.1, 2.6, "
             "compared with relative tolerance 1e-9), plus the clause 'all weights x k => score x k' for k in "
             "0.25/0.5/1.5/2/4 wherever weights are passed; gaps_as_missing True/False/"
             "default.  score: non-trivial = tree with >= 3 leaves and at least one column needing >= 1 change; "
             "distinct = (shape, rows, type, weights, gap flag).  history: non-trivial = some call whose expected score "
             "differs from the expected score of the preceding call on the same tree object; distinct = whole case; "
             "before a third of the later calls the same tree object is restructured with a library operation "
             "(reroot_at_edge/_node/_midpoint, reseed_at, to_outgroup_position, a new seed node added by hand above "
             "the old one, prune_taxa) and the reference is the tree as it is at the time of the call.  "
             "final: non-trivial = some internal non-root node whose final set differs from its down-pass set.  "
             "edits: one matrix object scored, edited in place (cells set / rows swapped or replaced / column "
             "appended or deleted) and re-scored on the same and on a fresh tree over 2-5 steps; non-trivial = a "
             "re-score after a shape-keeping edit, with a gap flag already used before, whose expected score differs "
             "from the previous step's.  "
             "subset: char_indices as list/tuple/range with repeats and any order (bootstrap replicates, "
             "permutations, descending ranges) x weights over the selection; non-trivial = the expected per-character "
             "list differs from what the sorted duplicate-free selection would give.  "
             "concat: 2-3 standard partitions over different alphabets (symbol sets 01, 012, 0123, 3210, 23, 10, "
             "0-9, ab, ba0) joined by StandardCharacterMatrix.concatenate; non-trivial = >= 2 distinct alphabets, a gap "
             "or missing symbol in columns of two different alphabets, and >= 1 change."),
    "assumptions": [
        "weights may be any real numbers (the unchanged library adds the weight once per change and returns int, "
        "float or Fraction accordingly); generated: non-negative ints and floats; negative weights, bools and "
        "Fractions are not generated",
        "char_indices is passed as a re-iterable (list, tuple, range) only: the unchanged library iterates it once "
        "per taxon, so a one-shot iterator leaves every taxon after the first with an empty list (observed, not "
        "asserted either way)",
        "taxa carried by internal nodes or the seed node (with or without a row in the matrix) do not take part: the "
        "score is the minimum over assignments to ALL internal nodes given the cells of the leaves only (the "
        "statement; also what the unchanged library does on such trees); about 40 % of the generated trees carry "
        "1-3 such taxa",
        "ambiguity tables are hard-coded here from the library's declared alphabets: IUPAC nucleotide codes, X as a "
        "synonym of N for DNA/RNA, protein B={D,N}, Z={E,Q}, X=all 20 residues and '*'",
        "missing data '?' is compatible with every state including the gap state when gaps are a state "
        "(DiscreteCharacterMatrix.taxon_state_sets_map docstring)",
        "per-character scores are the weighted per-character contributions (the only reading under which they add up "
        "to the weighted total)",
        "a trifurcating seed node (unrooted binary tree) is inside the domain: the statement quantifies over all "
        "rootings and the down pass folds extra children sequentially, which is exact for one trifurcation at the "
        "seed; polytomies elsewhere and unifurcations are never generated",
        "fitch_down_pass called directly with state_sets_attr_name='state_sets' documents that sets already stored on "
        "nodes win over the map, so the history clause is asserted for parsimony_score (and for the attribute-free "
        "route) only",
        "the final-set clause is asserted only for cells that are single states (or the gap as its own state)",
        "concatenate() keeps each cell's StateIdentity of its source alphabet (observed; the fresh default alphabet "
        "of the result - C09 known finding - plays no part in scoring); every column is scored over the alphabet of "
        "the partition it came from; the namespace holds exactly the tree's taxa, as concatenate requires",
    ],
}

GAP = "-"
MISSING = "?"

_NUC = {"N": "ACGT", "R": "AG", "Y": "CT", "M": "AC", "W": "AT", "S": "CG", "K": "GT", "V": "ACG", "H": "ACT",
        "D": "AGT", "B": "CGT"}


def _mk_type(cls_name, fund, amb, extra_syn, caseless):
    """symbol -> tuple of fundamental symbols (our own table); gap and missing are handled in leaf_set()."""
    table = {}
    for f in fund:
        table[f] = (f,)
    for a, members in amb.items():
        table[a] = tuple(members)
    for s, target in extra_syn.items():
        table[s] = table[target]
    if caseless:
        for s in list(fund) + list(amb):
            if s.lower() != s:
                table[s.lower()] = table[s]
    fundsyms = list(fund)
    ambsyms = sorted(k for k in table if len(table[k]) > 1)
    lowers = sorted(k for k in table if len(table[k]) == 1 and k not in fund)
    # palette pool: fundamental states, those named by a narrow ambiguity code listed more often
    pool = list(fundsyms)
    if len(fundsyms) > 10:
        for a in ambsyms:
            if len(table[a]) <= 3:
                pool += list(table[a]) * 3
    return {"cls": cls_name, "fund": tuple(fund), "table": table, "fundsyms": fundsyms, "ambsyms": ambsyms,
            "lowers": lowers, "pool": pool,
            "all": fundsyms + ambsyms + lowers + [GAP, GAP, GAP, MISSING, MISSING]}


TYPES = {
    "dna": _mk_type("DnaCharacterMatrix", "ACGT", _NUC, {"X": "N"}, True),
    "rna": _mk_type("RnaCharacterMatrix", "ACGU", dict((k, v.replace("T", "U")) for k, v in _NUC.items()),
                    {"X": "N"}, True),
    "protein": _mk_type("ProteinCharacterMatrix", "ACDEFGHIKLMNPQRSTVWY*",
                        {"B": "DN", "Z": "EQ", "X": "ACDEFGHIKLMNPQRSTVWY*"}, {}, True),
    "standard": _mk_type("StandardCharacterMatrix", "0123456789", {}, {}, False),
}
DTYPES = ["dna", "dna", "protein", "standard", "rna"]
# standard alphabets over different symbol sets / orders, used by the multi-alphabet (concatenate) route
STD_FUNDS = ["01", "012", "0123", "3210", "23", "10", "0123456789", "ab", "ba0"]
for _f in STD_FUNDS:
    TYPES["std:" + _f] = dict(_mk_type("StandardCharacterMatrix", _f, {}, {}, False), alphabet_fund=_f)
INF = 10 ** 9


def leaf_set(dtype, sym, gam):
    """State set denoted by one cell; the gap state is the token '-' when gaps are a state."""
    T = TYPES[dtype]
    if sym == GAP:
        return frozenset(T["fund"]) if gam else frozenset([GAP])
    if sym == MISSING:
        return frozenset(T["fund"]) if gam else frozenset(T["fund"] + (GAP,))
    return frozenset(T["table"][sym])


def universe(dtype, gam):
    T = TYPES[dtype]
    return list(T["fund"]) + ([] if gam else [GAP])


# ---------------------------------------------------------------------------
# reference computations on RefTree
# ---------------------------------------------------------------------------

def sankoff_down(rt, sets, states):
    """dict node -> list of minimal subtree change counts per state at the node (unit costs, leaves restricted to
    their sets).  Works for any out-degree (true minimum over assignments)."""
    cost = {}
    ns = len(states)
    for i in rt.postorder():
        ch = rt.children[i]
        if not ch:
            s = sets[i]
            cost[i] = [0 if x in s else INF for x in states]
        else:
            acc = [0] * ns
            for c in ch:
                cc = cost[c]
                m = min(cc) + 1
                for k in range(ns):
                    v = cc[k]
                    acc[k] += v if v < m else m
            cost[i] = acc
    return cost


def min_changes(rt, sets, states):
    return min(sankoff_down(rt, sets, states)[rt.root])


def mpr_sets(rt, sets, states):
    """dict internal node -> frozenset of states the node takes in at least one optimal assignment."""
    down = sankoff_down(rt, sets, states)
    ns = len(states)
    best = min(down[rt.root])

    def eff(vec):
        m = min(vec) + 1
        return [v if v < m else m for v in vec]
    # up[i][s]: minimal cost of everything outside the subtree of i (including the edge above i) given state s at i
    up = {rt.root: [0] * ns}
    total = {rt.root: down[rt.root]}
    for i in rt.preorder():
        ch = rt.children[i]
        if not ch:
            continue
        effs = dict((c, eff(down[c])) for c in ch)
        for c in ch:
            # cost of the rest of the tree as a function of the state at i (parent of c), excluding c's subtree
            rest = list(up[i])
            for d in ch:
                if d != c:
                    for k in range(ns):
                        rest[k] += effs[d][k]
            # as a function of the state at c
            up[c] = eff(rest)
            total[c] = [down[c][k] + up[c][k] if down[c][k] < INF else INF for k in range(ns)]
    out = {}
    for i in rt.internals():
        if min(total[i]) != best:
            raise runner.HarnessError("two-directional Sankoff pass inconsistent")
        out[i] = frozenset(states[k] for k in range(ns) if total[i][k] == best)
    return out


def brute_changes(rt, sets, states, cap=20000):
    """Minimum over all assignments of states to internal nodes, by enumeration.  States with the same membership
    pattern over the leaf sets are interchangeable (renaming one to the other never adds a change), so one
    representative per pattern is enumerated.  Returns None when the enumeration would exceed `cap`."""
    leaves = rt.leaves()
    internals = rt.internals()
    reps = {}
    for x in states:
        sig = tuple(x in sets[l] for l in leaves)
        reps.setdefault(sig, x)
    reps = list(reps.values())
    if len(reps) ** len(internals) > cap:
        return None
    pos = dict((v, k) for k, v in enumerate(internals))
    edges_int = []
    edges_leaf = []
    for i in rt.nodes():
        p = rt.parent[i]
        if p is None:
            continue
        if rt.children[i]:
            edges_int.append((pos[p], pos[i]))
        else:
            edges_leaf.append((pos[p], sets[i]))
    best = INF
    for a in itertools.product(reps, repeat=len(internals)):
        c = 0
        for p, i in edges_int:
            if a[p] != a[i]:
                c += 1
        for p, s in edges_leaf:
            if a[p] not in s:
                c += 1
        if c < best:
            best = c
    return best


def reroot_on_edge(rt, v):
    """The same unrooted tree drawn with a new degree-2 root placed on the edge above v."""
    r = rt.copy()
    p = r.parent[v]
    mid = r.add(p)
    r.children[p].remove(v)
    r.children[mid].append(v)
    r.parent[v] = mid
    return r.rerooted_at(mid).suppress_unifurcations()


def reroot_at_vertex(rt, v):
    return rt.rerooted_at(v).suppress_unifurcations()


def degree_profile(rt):
    """(out-degree of root, set of out-degrees of the other internal nodes)"""
    return len(rt.children[rt.root]), set(len(rt.children[i]) for i in rt.internals() if i != rt.root)


# ---------------------------------------------------------------------------
# builders
# ---------------------------------------------------------------------------

def build_ns(n, ms=(), spec=None):
    """Namespace T0..T(n-1) for the tree's leaves, followed by one taxon per extra matrix row (taxa that are not
    leaves of the tree) and per taxon index carried by an internal node of `spec`."""
    if isinstance(ms, dict):
        ms = [ms]
    size = n
    for m in ms or ():
        size = max(size, n + len(m.get("extra_rows") or []))
    if spec is not None:
        size = max(size, 1 + max(x["t"] for x in shapes.spec_nodes(spec) if x["t"] is not None))
    return shapes.build_namespace(shapes.plain_history(size))


def internal_taxa(spec):
    """[(taxon index, is_seed)] for the internal nodes of spec that carry a taxon."""
    out = []
    for k, x in enumerate(shapes.spec_nodes(spec)):
        if x["ch"] and x["t"] is not None:
            out.append((x["t"], k == 0))
    return out


def count_internal_taxa(ctx, prefix, spec, n, ms):
    it = internal_taxa(spec)
    if not it:
        ctx.cls(prefix + ".internal_taxa:none")
        return
    ctx.cls(prefix + ".internal_taxa:some")
    if any(seed for _, seed in it):
        ctx.cls(prefix + ".taxon_on_seed_node")
    for m in ms:
        r = len(m.get("extra_rows") or [])
        if any(t < n + r for t, _ in it):
            ctx.cls(prefix + ".internal_taxon_has_matrix_row")
        if any(t >= n + r for t, _ in it):
            ctx.cls(prefix + ".internal_taxon_without_matrix_row")


def build_tree(spec, ns, taxa, rooting):
    return shapes.build_tree(spec, ns=ns, taxa=taxa, is_rooted=(rooting == "rooted"))


def build_matrix(m, ns, taxa):
    import dendropy
    cls = getattr(dendropy, TYPES[m["dtype"]]["cls"])
    kw = {}
    if TYPES[m["dtype"]].get("alphabet_fund"):
        kw["default_state_alphabet"] = dendropy.new_standard_state_alphabet(TYPES[m["dtype"]]["alphabet_fund"])
    d = {}
    for i, row in enumerate(list(m["rows"]) + list(m.get("extra_rows") or [])):
        d[taxa[i]] = row
    return cls.from_dict(d, taxon_namespace=ns, **kw)


def matrix_symbols(mat, taxa, n):
    return [[str(c.symbol) for c in mat[taxa[i]]] for i in range(n)]


def eff_gam(g):
    return True if g is None else bool(g)


def expected_changes(rt, m, gam):
    """Per-column minimal change counts from the oracle; rt leaves carry labels T<i> -> row i."""
    nchar = len(m["rows"][0])
    states = universe(m["dtype"], gam)
    leaves = rt.leaves()
    out = []
    for c in range(nchar):
        sets = {}
        for l in leaves:
            idx = int(rt.taxon[l][1:])
            sets[l] = leaf_set(m["dtype"], m["rows"][idx][c], gam)
        out.append((min_changes(rt, sets, states), sets, states))
    return out


def weighted(changes, weights):
    if weights is None:
        return list(changes)
    return [w * c for w, c in zip(weights, changes)]


# Weights are ints, dyadic floats (multiples of 1/8: every product and sum met here is exact in binary floating
# point, so equality stays exact) or decimal floats such as 0.1 (the library adds a weight once per change, the
# oracle multiplies: compared with relative tolerance 1e-9).
INT_WEIGHTS = [0, 1, 1, 2, 3, 4, 5]
DYADIC_WEIGHTS = [0.5, 0.25, 2.25, 1.5, 0.125, 3.75, 0.75]
DECIMAL_WEIGHTS = [0.1, 0.3, 0.7, 1.1, 2.6]
SCALES = [0.5, 2, 0.25, 1.5, 4]
TOL = 1e-9


def exact_value(x):
    return isinstance(x, int) or (isinstance(x, float) and float(x * 4096).is_integer())


def neq(a, b):
    """Equality of two scores: exact when both are exactly representable small dyadic numbers, else within TOL."""
    if isinstance(a, bool) or isinstance(b, bool) or not isinstance(a, (int, float)) or not isinstance(b, (int, float)):
        return False
    if exact_value(a) and exact_value(b):
        return a == b
    return abs(a - b) <= TOL * (1.0 + abs(b))


def leq(a, b):
    if a is None or b is None:
        return a is None and b is None
    return isinstance(a, list) and len(a) == len(b) and all(neq(x, y) for x, y in zip(a, b))


def weight_class(weights):
    if weights is None:
        return "none"
    if all(isinstance(w, int) for w in weights):
        return "ints_with0" if 0 in weights else "ints_positive"
    if all(exact_value(w) for w in weights):
        return "dyadic_fractions"
    return "decimal_fractions"


def check_scaling(ctx, key, score_fn, weights, nchar, k, got, lst, desc):
    """Metamorphic: all weights multiplied by k => total and per-character scores multiplied by k.
    score_fn(weights) -> (total, per-character list or None) on freshly built objects."""
    base = [1] * nchar if weights is None else list(weights)
    scaled = [w * k for w in base]
    got_k, lst_k = score_fn(scaled)
    ctx.check(neq(got_k, got * k) and (lst is None or leq(lst_k, [x * k for x in lst])),
              "multiplying every weight by k multiplies the score by k", key,
              lambda: "weights %r give %r %r, weights x %r = %r give %r %r; %s" % (
                  weights, got, lst, k, scaled, got_k, lst_k, desc()))
    ctx.cls("scaling_clause_evaluated")
    if got and not all(float(w).is_integer() for w in scaled):
        ctx.cls("scaling_clause_with_fractional_weight_and_nonzero_score")


@st.composite
def weight_vectors(draw, size, allow_none=True):
    """None, or `size` weights: all ints / ints + dyadic fractions / anything incl. decimal fractions."""
    kind = draw(st.sampled_from((["none", "none"] if allow_none else []) + ["ints", "ints", "dyadic", "dyadic",
                                                                            "decimal"]))
    if kind == "none":
        return None
    if kind == "ints":
        el = st.sampled_from(INT_WEIGHTS)
    elif kind == "dyadic":
        el = st.one_of(st.sampled_from(INT_WEIGHTS), st.sampled_from(DYADIC_WEIGHTS), st.sampled_from(DYADIC_WEIGHTS))
    else:
        el = st.one_of(st.sampled_from(INT_WEIGHTS), st.sampled_from(DYADIC_WEIGHTS), st.sampled_from(DECIMAL_WEIGHTS),
                       st.sampled_from(DECIMAL_WEIGHTS))
    return draw(st.lists(el, min_size=size, max_size=size))


def call_score(tree, mat, gam, weights, per_char):
    from dendropy.model import parsimony
    kw = {}
    if gam is not None:
        kw["gaps_as_missing"] = gam
    if weights is not None:
        kw["weights"] = list(weights)
    lst = None
    if per_char:
        lst = []
        kw["score_by_character_list"] = lst
    return parsimony.parsimony_score(tree, mat, **kw), lst


def snap(ctx, tree, what):
    rt, problems = snapshot(tree)
    if problems:
        raise runner.HarnessError("tree built by the harness is malformed (%s): %r" % (what, problems))
    return rt


def fresh_score(ctx, spec, rooting, m, gam, weights, per_char=False):
    n = len(m["rows"])
    ns, taxa, _ = build_ns(n, m, spec)
    tree = build_tree(spec, ns, taxa, rooting)
    mat = build_matrix(m, ns, taxa)
    return call_score(tree, mat, gam, weights, per_char)


# ---------------------------------------------------------------------------
# sub-check: score
# ---------------------------------------------------------------------------

def size_class(n):
    return "2" if n == 2 else "3-5" if n <= 5 else "6-9" if n <= 9 else "10-19" if n <= 19 else "20+"


def check_score(ctx, case):
    from dendropy.model import parsimony
    from dendropy.calculate import treescore
    spec, rooting, m = case["spec"], case["rooting"], case["m"]
    gam_arg, weights = m["gam"], m["weights"]
    gam = eff_gam(gam_arg)
    n = len(m["rows"])
    nchar = len(m["rows"][0])
    dtype = m["dtype"]

    ns, taxa, _ = build_ns(n, m, spec)
    tree = build_tree(spec, ns, taxa, rooting)
    mat = build_matrix(m, ns, taxa)
    rt = snap(ctx, tree, "base")
    rdeg, ideg = degree_profile(rt)
    if rdeg != (2 if rooting == "rooted" else 3) or (ideg - set([2])) or rt.n_leaves() != n:
        raise runner.HarnessError("generator produced a tree outside the domain: %r" % (case,))
    canon_before = rt.canon(ordered=True)
    syms_before = matrix_symbols(mat, taxa, n)

    exp = expected_changes(rt, m, gam)
    changes = [e[0] for e in exp]
    want_list = weighted(changes, weights)
    want = sum(want_list)
    desc = lambda: "type=%s rooting=%s tree=%s rows=%r rows_of_non_leaf_taxa=%r weights=%r gaps_as_missing=%r" % (
        dtype, rooting, rt.canon(ordered=True), m["rows"], m.get("extra_rows") or [], weights, gam_arg)

    # -- bookkeeping
    ctx.cls("score.type:" + dtype)
    ctx.cls("score.rooting:" + rooting)
    ctx.cls("score.leaves:" + size_class(n))
    ctx.cls("score.gam:%s" % gam_arg)
    ctx.cls("score.weights:" + weight_class(weights))
    ctx.cls("score.total:" + ("0" if sum(changes) == 0 else "1-3" if sum(changes) <= 3 else "4+"))
    cells = "".join(m["rows"])
    if GAP in cells:
        ctx.cls("score.has_gap")
        other = sum(e[0] for e in expected_changes(rt, m, not gam))
        if other != sum(changes):
            ctx.cls("score.gap_treatment_matters")
    if MISSING in cells:
        ctx.cls("score.has_missing")
    if m.get("extra_rows"):
        ctx.cls("score.matrix_has_rows_for_taxa_not_at_leaves")
    count_internal_taxa(ctx, "score", spec, n, [m])
    if any(len(TYPES[dtype]["table"].get(s, "x")) > 1 for s in cells):
        ctx.cls("score.has_ambiguity_code")
    if weights is not None and want != sum(changes):
        ctx.cls("score.weights_matter")
    if n >= 3 and sum(changes) >= 1:
        ctx.nontrivial(["score", rt.canon(ordered=True), dtype, m["rows"], weights, gam_arg])
    ctx.sample("score:" + rooting, case)

    # -- brute force (oracle cross-check, then the library against it)
    if n <= 5:
        done = 0
        for c, (ch, sets, states) in enumerate(exp):
            b = brute_changes(rt, sets, states)
            if b is None:
                ctx.cls("score.brute_skipped_column")
                continue
            done += 1
            if b != ch:
                raise runner.HarnessError("oracle disagreement: Sankoff %d, brute force %d on %s column %d" % (
                    ch, b, desc(), c))
        if done == nchar:
            ctx.cls("score.brute_force_confirmed")

    # -- the library: total and per-character list (clauses that involve a trifurcating seed carry their own key:
    # the down-pass docstring asks for a bifurcating root, see CONFIG["assumptions"])
    tri = "" if rooting == "rooted" else "_trifurcating_seed"
    got, lst = call_score(tree, mat, gam_arg, weights, True)
    ctx.check(neq(got, want), "score equals the weighted minimum number of changes", "C16.score_minimal" + tri,
              lambda: "got %r want %r (per column minimal changes %r); %s" % (got, want, changes, desc()))
    ctx.check(isinstance(lst, list) and len(lst) == nchar, "per-character list has one entry per column",
              "C16.per_char_len", lambda: "list %r for %d columns; %s" % (lst, nchar, desc()))
    ctx.check(neq(sum(lst), got), "per-character scores add up to the total", "C16.per_char_sum",
              lambda: "sum(%r) = %r but total %r; %s" % (lst, sum(lst), got, desc()))
    ctx.check(leq(list(lst), want_list), "per-character scores are the weighted per-column minima",
              "C16.per_char_values", lambda: "got %r want %r; %s" % (lst, want_list, desc()))

    # -- scaling the weights scales the score
    check_scaling(ctx, "C16.weight_scaling" + tri,
                  lambda w: call_score(build_tree(spec, ns, taxa, rooting), mat, gam_arg, w, True),
                  weights, nchar, case.get("scale", 0.5), got, lst, desc)

    # -- inputs untouched
    rt_after = snap(ctx, tree, "after scoring")
    ctx.check(rt_after.canon(ordered=True) == canon_before, "scoring leaves the tree structure alone",
              "C16.inputs_unchanged", lambda: "tree %s -> %s" % (canon_before, rt_after.canon(ordered=True)))
    ctx.check(matrix_symbols(mat, taxa, n) == syms_before, "scoring leaves the matrix alone",
              "C16.inputs_unchanged", lambda: "matrix changed; %s" % desc())

    # -- same result without the list, through calculate.treescore, and through the documented down-pass routes
    t2 = build_tree(spec, ns, taxa, rooting)
    kw = {}
    if gam_arg is not None:
        kw["gaps_as_missing"] = gam_arg
    got2 = treescore.parsimony_score(t2, mat, weights=(None if weights is None else tuple(weights)), **kw)
    ctx.check(neq(got2, want), "score without per-character list (treescore route, tuple weights)",
              "C16.score_minimal" + tri, lambda: "got %r want %r; %s" % (got2, want, desc()))
    tsm = mat.taxon_state_sets_map(gaps_as_missing=gam)
    for attr in (None, "c16_sets"):
        t3 = build_tree(spec, ns, taxa, rooting)
        l3 = []
        got3 = parsimony.fitch_down_pass(t3.postorder_node_iter(), state_sets_attr_name=attr,
                                         taxon_state_sets_map=tsm, weights=weights, score_by_character_list=l3)
        ctx.check(neq(got3, want) and leq(l3, want_list), "fitch_down_pass on a fresh tree gives the same score",
                  "C16.down_pass_route" + tri, lambda: "attr=%r got %r %r want %r %r; %s" % (
                      attr, got3, l3, want, want_list, desc()))

    # -- child order
    pspec = case["perm_spec"]
    tp = build_tree(pspec, ns, taxa, rooting)
    rtp = snap(ctx, tp, "permuted")
    if rtp.canon() != rt.canon() or degree_profile(rtp) != (rdeg, ideg):
        raise runner.HarnessError("permuted spec is a different tree")
    if rtp.canon(ordered=True) != rt.canon(ordered=True):
        ctx.cls("score.child_order_really_changed")
    gotp, lstp = call_score(tp, mat, gam_arg, weights, True)
    ctx.check(neq(gotp, got) and leq(lstp, lst), "score independent of child order", "C16.child_order" + tri,
              lambda: "order %s gives %r %r, order %s gives %r %r; rows=%r weights=%r gam=%r" % (
                  rt.canon(ordered=True), got, lst, rtp.canon(ordered=True), gotp, lstp, m["rows"], weights, gam_arg))

    # -- root position: every edge, every internal vertex
    idx = dict(("T%d" % i, i) for i in range(len(taxa)))
    nroot = 0
    for v in rt.nodes():
        if v == rt.root:
            continue
        variants = [("edge", reroot_on_edge(rt, v))]
        if rt.children[v]:
            variants.append(("vertex", reroot_at_vertex(rt, v)))
        for kind, rr in variants:
            rd, idg = degree_profile(rr)
            if rd != (2 if kind == "edge" else 3) or (idg - set([2])) or rr.leafset() != rt.leafset() \
                    or rr.unrooted_split_set() != rt.unrooted_split_set():
                raise runner.HarnessError("re-rooting in the reference model went wrong: %s -> %s" % (
                    rt.canon(ordered=True), rr.canon(ordered=True)))
            tr = build_tree(rr.to_spec(taxon_index=idx), ns, taxa, "rooted" if kind == "edge" else "unrooted")
            gotr, lstr = call_score(tr, mat, gam_arg, weights, True)
            nroot += 1
            ctx.check(neq(gotr, got) and leq(lstr, lst), "score independent of root position",
                      "C16.rerooting" + ("_trifurcating_seed" if (tri or kind == "vertex") else ""),
                      lambda: "rooting %s gives %r %r, rooting %s (%s) gives %r %r; rows=%r weights=%r gam=%r" % (
                          rt.canon(ordered=True), got, lst, rr.canon(ordered=True), kind, gotr, lstr, m["rows"],
                          weights, gam_arg))
    ctx.cls("score.rerooted_trees_scored", nroot)


# ---------------------------------------------------------------------------
# sub-check: history
# ---------------------------------------------------------------------------

TREE_OPS = ["reroot_at_edge", "reroot_at_edge", "reroot_at_node", "reseed_at", "to_outgroup_position",
            "reroot_at_midpoint", "new_seed_above", "prune_leaf"]


def apply_tree_op(tree, rt, op, v):
    """Restructure the SAME tree object between two scoring calls with the library's own operations (several of them
    replace or add the seed node).  Returns False when the operation does not apply to this tree."""
    import dendropy
    nonroot = [i for i in rt.preorder() if i != rt.root]
    inner = [i for i in nonroot if rt.children[i]]
    leaves = rt.leaves()
    pick = lambda cand: rt.obj[cand[v % len(cand)]]
    if op == "reroot_at_edge":
        tree.reroot_at_edge(pick(nonroot).edge)
    elif op == "reroot_at_node":
        if not inner:
            return False
        tree.reroot_at_node(pick(inner))
    elif op == "reseed_at":
        if not inner:
            return False
        tree.reseed_at(pick(inner))
    elif op == "to_outgroup_position":
        tree.to_outgroup_position(pick(nonroot))
    elif op == "reroot_at_midpoint":
        for i in nonroot:
            rt.obj[i].edge.length = 1.0 + ((i * 7 + v) % 3)
        tree.reroot_at_midpoint()
    elif op == "new_seed_above":
        # root an unrooted drawing by hand: a new seed node above the old one takes over the old seed's last child
        old = rt.obj[rt.root]
        kids = old.child_nodes()
        if len(kids) != 3:
            return False
        moved = kids[v % 3]
        old.remove_child(moved)
        new = dendropy.Node()
        new.add_child(old)
        new.add_child(moved)
        tree.seed_node = new
    elif op == "prune_leaf":
        if len(leaves) < 4:
            return False
        tree.prune_taxa([pick(leaves).taxon])
    else:
        raise runner.HarnessError("unknown tree op " + op)
    return True


def check_history(ctx, case):
    from dendropy.model import parsimony
    spec, rooting, mats, calls = case["spec"], case["rooting"], case["mats"], case["calls"]
    n = len(mats[0]["rows"])
    ns, taxa, _ = build_ns(n, mats, spec)
    tree = build_tree(spec, ns, taxa, rooting)
    rt = snap(ctx, tree, "history base")
    count_internal_taxa(ctx, "history", spec, n, mats)
    rdeg, ideg = degree_profile(rt)
    if rdeg != (2 if rooting == "rooted" else 3) or (ideg - set([2])):
        raise runner.HarnessError("generator produced a tree outside the domain: %r" % (case,))
    built = [build_matrix(m, ns, taxa) for m in mats]
    ctx.cls("history.matrices:%d" % len(mats))
    ctx.cls("history.calls:%d" % len(calls))
    ctx.cls("history.rooting:" + rooting)
    prev_want = None
    interesting = False
    log = []
    idx = dict(("T%d" % i, i) for i in range(len(taxa)))
    restructured = False
    for k, c in enumerate(calls):
        m = mats[c["m"]]
        gam_arg = c["gam"]
        gam = eff_gam(gam_arg)
        weights = m["weights"] if c["use_weights"] else None
        route = c["route"]
        top = c.get("tree_op")
        if top is not None and k > 0:
            # tree surgery is another property's subject (C03/C07): an operation that raises or leaves the documented
            # domain of the scorer (strictly bifurcating, seed with 2 or 3 children) ends the case without a verdict
            old_seed = tree.seed_node
            try:
                applied = apply_tree_op(tree, rt, top["op"], top["v"])
            except Exception as e:
                if not runner.exc_in_dendropy(e):
                    raise
                ctx.cls("history.tree_op_raised:" + top["op"])
                return
            if applied:
                rt2, problems = snapshot(tree)
                rd2, id2 = degree_profile(rt2)
                if problems or rd2 not in (2, 3) or (id2 - set([2])) or rt2.n_leaves() < 2 \
                        or any(rt2.taxon[l] is None for l in rt2.leaves()):
                    ctx.cls("history.tree_op_left_domain:" + top["op"])
                    return
                rt = rt2
                spec = rt.to_spec(taxon_index=idx)
                rooting = "rooted" if rd2 == 2 else "unrooted"
                restructured = True
                ctx.cls("history.tree_op:" + top["op"])
                if tree.seed_node is not old_seed:
                    ctx.cls("history.tree_op_replaced_seed_node")
                    pc = calls[k - 1]
                    if pc["m"] != c["m"] or eff_gam(pc["gam"]) != gam:
                        ctx.cls("history.other_data_or_gap_flag_after_seed_node_replaced")
        changes = [e[0] for e in expected_changes(rt, m, gam)]
        want_list = weighted(changes, weights)
        want = sum(want_list)
        if route == "score":
            got, lst = call_score(tree, built[c["m"]], gam_arg, weights, c["per_char"])
        else:
            lst = [] if c["per_char"] else None
            got = parsimony.fitch_down_pass(tree.postorder_node_iter(), state_sets_attr_name=None,
                                            taxon_state_sets_map=built[c["m"]].taxon_state_sets_map(gaps_as_missing=gam),
                                            weights=weights, score_by_character_list=lst)
        fresh, flst = fresh_score(ctx, spec, rooting, m, gam_arg, weights, c["per_char"])
        log.append({"call": k, "tree_op_before": top, "tree": rt.canon(ordered=True), "matrix": c["m"],
                    "type": m["dtype"], "rows": m["rows"], "gam": gam_arg,
                    "weights": weights, "route": route, "got": got, "fresh": fresh, "oracle": want})
        ctx.cls("history.route:" + route)
        if k > 0:
            pc = calls[k - 1]
            if pc["m"] != c["m"]:
                ctx.cls("history.call_after_other_matrix")
                if mats[pc["m"]]["dtype"] != m["dtype"]:
                    ctx.cls("history.call_after_other_type")
                if len(mats[pc["m"]]["rows"][0]) != len(m["rows"][0]):
                    ctx.cls("history.call_after_other_width")
            elif eff_gam(pc["gam"]) != gam:
                ctx.cls("history.call_after_other_gap_treatment")
            else:
                ctx.cls("history.repeat_call")
            if prev_want != (want, want_list):
                interesting = True
                ctx.cls("history.expected_differs_from_previous_call")
        prev_want = (want, want_list)
        ctx.check(neq(fresh, want) and (flst is None or leq(flst, want_list)),
                  "score of a freshly built tree equals the weighted minimum number of changes",
                  "C16.score_minimal" + ("" if rooting == "rooted" else "_trifurcating_seed"),
                  lambda: "fresh copy gives %r %r, oracle %r %r; tree=%s call=%r" % (
                      fresh, flst, want, want_list, rt.canon(ordered=True), log[-1]))
        ctx.check(neq(got, fresh) and leq(lst, flst),
                  "a call on an already-scored tree equals the score of a fresh copy",
                  "C16.history_equals_fresh" if route == "score" else "C16.history_equals_fresh_down_pass",
                  lambda: "call %d on the reused tree returned %r %r, a fresh copy of tree+matrix returns %r %r; "
                          "tree=%s history=%r" % (k, got, lst, fresh, flst, rt.canon(ordered=True), log))
        ctx.cls("history.weights:" + weight_class(weights))
        check_scaling(ctx, "C16.weight_scaling" + ("" if rooting == "rooted" else "_trifurcating_seed"),
                      lambda w: fresh_score(ctx, spec, rooting, m, gam_arg, w, c["per_char"]),
                      weights, len(m["rows"][0]), case.get("scale", 0.5), fresh, flst,
                      lambda: "tree=%s call=%r" % (rt.canon(ordered=True), log[-1]))
        if c["up_pass_after"] and rooting == "rooted" and route == "score" and not restructured:
            parsimony.fitch_up_pass(tree.preorder_node_iter())
            ctx.cls("history.up_pass_between_calls")
    if interesting:
        ctx.nontrivial(["history", rt.canon(ordered=True), mats, calls])
    if len(mats) >= 2:
        ctx.sample("history", case)


# ---------------------------------------------------------------------------
# sub-check: one matrix object edited in place between calls
# ---------------------------------------------------------------------------

def apply_edit(mat, taxa, rows, e):
    """Apply edit e to the DendroPy matrix and to the model `rows` (list of lists of symbols)."""
    alpha = mat.default_state_alphabet
    kind = e["kind"]
    if kind == "set":
        for r, c, sym in e["cells"]:
            if e["via"] == "set_at":
                mat[taxa[r]].set_at(c, alpha[sym])
            else:
                mat[taxa[r]][c] = alpha[sym]
            rows[r][c] = sym
    elif kind == "swap_rows":
        a, b = e["a"], e["b"]
        sa, sb = mat[taxa[a]], mat[taxa[b]]
        mat[taxa[a]] = sb
        mat[taxa[b]] = sa
        rows[a], rows[b] = rows[b], rows[a]
    elif kind == "replace_row":
        mat[taxa[e["r"]]] = mat.coerce_values(e["row"])
        rows[e["r"]] = list(e["row"])
    elif kind == "append_col":
        for r, sym in enumerate(e["col"]):
            mat[taxa[r]].append(alpha[sym])
            rows[r].append(sym)
    elif kind == "drop_col":
        for r in range(len(rows)):
            del mat[taxa[r]][e["c"]]
            del rows[r][e["c"]]
    else:
        raise runner.HarnessError("unknown edit %r" % (e,))


def check_edits(ctx, case):
    spec, rooting, m0, steps, wpool = case["spec"], case["rooting"], case["m"], case["steps"], case["wpool"]
    dtype = m0["dtype"]
    n = len(m0["rows"])
    ns, taxa, _ = build_ns(n, m0, spec)
    tree = build_tree(spec, ns, taxa, rooting)
    rt = snap(ctx, tree, "edits base")
    count_internal_taxa(ctx, "edits", spec, n, [m0])
    rdeg, ideg = degree_profile(rt)
    if rdeg != (2 if rooting == "rooted" else 3) or (ideg - set([2])):
        raise runner.HarnessError("generator produced a tree outside the domain: %r" % (case,))
    mat = build_matrix(m0, ns, taxa)
    # model of the whole matrix: the rows of the tree's leaves, then the rows of taxa that are not leaves
    rows = [list(r) for r in list(m0["rows"]) + list(m0.get("extra_rows") or [])]
    n_all = len(rows)
    tri = "" if rooting == "rooted" else "_trifurcating_seed"
    log = []
    scored_gams = set()
    prev = None
    interesting = False
    for k, stp in enumerate(steps):
        e = stp["edit"]
        shape_kept = None
        if e is not None:
            apply_edit(mat, taxa, rows, e)
            shape_kept = e["kind"] in ("set", "swap_rows", "replace_row")
            ctx.cls("edits.edit:" + e["kind"])
            got_syms = matrix_symbols(mat, taxa, n_all)
            # compare by denoted state set: the matrix reports canonical symbols (x -> N, a -> A)
            denote = lambda table: [[leaf_set(dtype, c, False) for c in r] for r in table]
            ctx.check(denote(got_syms) == denote(rows), "the in-place edit is visible in the matrix",
                      "C16.matrix_edit_applied",
                      lambda: "after %r the matrix reads %r, expected %r" % (e, got_syms, rows))
        cur = {"dtype": dtype, "rows": ["".join(r) for r in rows[:n]],
               "extra_rows": ["".join(r) for r in rows[n:]]}
        gam_arg = stp["gam"]
        gam = eff_gam(gam_arg)
        width = len(rows[0])
        weights = wpool[:width] if stp["use_weights"] else None
        changes = [x[0] for x in expected_changes(rt, cur, gam)]
        want_list = weighted(changes, weights)
        want = sum(want_list)
        fresh, flst = fresh_score(ctx, spec, rooting, cur, gam_arg, weights, stp["per_char"])
        ctx.check(neq(fresh, want) and (flst is None or leq(flst, want_list)),
                  "score of a freshly built tree + matrix equals the weighted minimum number of changes",
                  "C16.score_minimal" + tri,
                  lambda: "fresh copy gives %r %r, oracle %r %r; tree=%s rows=%r weights=%r gam=%r" % (
                      fresh, flst, want, want_list, rt.canon(ordered=True), cur["rows"], weights, gam_arg))
        ctx.cls("edits.weights:" + weight_class(weights))
        check_scaling(ctx, "C16.weight_scaling" + tri,
                      lambda w: fresh_score(ctx, spec, rooting, cur, gam_arg, w, stp["per_char"]),
                      weights, width, case.get("scale", 0.5), fresh, flst,
                      lambda: "tree=%s rows=%r gam=%r" % (rt.canon(ordered=True), cur["rows"], gam_arg))
        results = []
        for where in stp["trees"]:
            t = tree if where == "same" else build_tree(spec, ns, taxa, rooting)
            got, lst = call_score(t, mat, gam_arg, weights, stp["per_char"])
            results.append((where, got, lst))
        log.append({"step": k, "edit": e, "rows": cur["rows"], "extra_rows": cur["extra_rows"], "gam": gam_arg, "weights": weights,
                    "scores": results, "fresh": fresh, "oracle": want})
        for where, got, lst in results:
            ctx.check(neq(got, fresh) and leq(lst, flst),
                      "scoring a matrix object that was scored before and then edited in place equals scoring a "
                      "freshly built matrix with the same data", "C16.matrix_edit_equals_fresh",
                      lambda: "step %d (%s tree object): reused matrix object gives %r %r, fresh matrix + tree give "
                              "%r %r; tree=%s history=%r" % (k, where, got, lst, fresh, flst, rt.canon(ordered=True),
                                                             log))
        if e is not None and prev is not None:
            if shape_kept and gam in scored_gams:
                ctx.cls("edits.rescored_after_shape_keeping_edit_same_gap_flag")
                if prev != (want, want_list):
                    ctx.cls("edits.shape_keeping_edit_changed_expected_score")
                    interesting = True
            elif not shape_kept:
                ctx.cls("edits.rescored_after_shape_changing_edit")
        elif e is None and k > 0:
            ctx.cls("edits.rescored_without_edit")
        scored_gams.add(gam)
        prev = (want, want_list)
    ctx.cls("edits.type:" + dtype)
    ctx.cls("edits.steps:%d" % len(steps))
    if interesting:
        ctx.nontrivial(["edits", rt.canon(ordered=True), m0, steps, wpool])
    ctx.sample("edits", case)


# ---------------------------------------------------------------------------
# sub-check: column selections (char_indices)
# ---------------------------------------------------------------------------

def selection_of(sel):
    """case data -> (the indices as a plain list, the object handed to the library)"""
    if sel["as"] == "range":
        r = range(sel["start"], sel["stop"], sel["step"])
        return list(r), r
    idx = list(sel["idx"])
    return idx, (tuple(idx) if sel["as"] == "tuple" else list(idx))


def check_subset(ctx, case):
    from dendropy.model import parsimony
    spec, rooting, m, sel, weights = case["spec"], case["rooting"], case["m"], case["sel"], case["weights"]
    gam_arg = m["gam"]
    gam = eff_gam(gam_arg)
    n = len(m["rows"])
    nchar = len(m["rows"][0])
    idx, arg = selection_of(sel)
    if not idx or min(idx) < 0 or max(idx) >= nchar or (weights is not None and len(weights) != len(idx)):
        raise runner.HarnessError("bad selection in %r" % (case,))
    ns, taxa, _ = build_ns(n, m, spec)
    tree = build_tree(spec, ns, taxa, rooting)
    mat = build_matrix(m, ns, taxa)
    rt = snap(ctx, tree, "subset base")
    rdeg, ideg = degree_profile(rt)
    if rdeg != (2 if rooting == "rooted" else 3) or (ideg - set([2])):
        raise runner.HarnessError("generator produced a tree outside the domain: %r" % (case,))
    tri = "" if rooting == "rooted" else "_trifurcating_seed"
    desc = lambda: "type=%s tree=%s rows=%r char_indices=%r weights=%r gaps_as_missing=%r" % (
        m["dtype"], rt.canon(ordered=True), m["rows"], arg, weights, gam_arg)

    # oracle: the selected columns, in the given order, repeats included
    picked = {"dtype": m["dtype"], "rows": ["".join(r[i] for i in idx) for r in m["rows"]]}
    changes = [e[0] for e in expected_changes(rt, picked, gam)]
    want_list = weighted(changes, weights)
    want = sum(want_list)

    kw = {} if gam_arg is None else {"gaps_as_missing": gam_arg}
    full = mat.taxon_state_sets_map(**kw)
    tsm = mat.taxon_state_sets_map(char_indices=arg, **kw)
    for i in range(len(taxa)):
        t = taxa[i]
        if t not in full:
            continue
        got_sets = [set(x) for x in tsm[t]]
        want_sets = [set(full[t][j]) for j in idx]
        ctx.check(got_sets == want_sets,
                  "taxon_state_sets_map(char_indices) lists the selected columns position by position",
                  "C16.subset_map_positions",
                  lambda: "taxon %s: got %r want %r (full map %r); %s" % (t.label, got_sets, want_sets, full[t], desc()))
    for attr in (None, "state_sets"):
        t3 = build_tree(spec, ns, taxa, rooting)
        lst = []
        got = parsimony.fitch_down_pass(t3.postorder_node_iter(), state_sets_attr_name=attr,
                                        taxon_state_sets_map=tsm, weights=weights, score_by_character_list=lst)
        ctx.check(neq(got, want), "score over a column selection equals the weighted minimum over the selected columns",
                  "C16.subset_score_minimal" + tri,
                  lambda: "got %r want %r (minima of the selected columns %r); %s" % (got, want, changes, desc()))
        ctx.check(leq(lst, want_list) and neq(sum(lst), got),
                  "per-character list over a column selection follows the selection position by position",
                  "C16.subset_per_char" + tri, lambda: "got %r want %r; %s" % (lst, want_list, desc()))
    # consistency with the whole matrix: entry k is weight k times the score of column idx[k]
    lfull = []
    call = call_score(build_tree(spec, ns, taxa, rooting), mat, gam_arg, None, False)
    parsimony.fitch_down_pass(build_tree(spec, ns, taxa, rooting).postorder_node_iter(), state_sets_attr_name=None,
                              taxon_state_sets_map=full, score_by_character_list=lfull)
    ctx.check(call[0] == sum(lfull) and leq(want_list, weighted([lfull[j] for j in idx], weights)),
              "selection scores are the whole-matrix per-character scores of the selected columns",
              "C16.subset_vs_full" + tri, lambda: "whole matrix per character %r, selection expects %r; %s" % (
                  lfull, want_list, desc()))

    # -- bookkeeping
    ctx.cls("subset.as:" + sel["as"])
    rep_ = len(set(idx)) < len(idx)
    unordered = any(idx[k] > idx[k + 1] for k in range(len(idx) - 1))
    if rep_:
        ctx.cls("subset.repeated_columns")
    if unordered:
        ctx.cls("subset.not_ascending")
    if rep_ and len(idx) == nchar:
        ctx.cls("subset.bootstrap_replicate")
    if not rep_ and not unordered:
        ctx.cls("subset.sorted_duplicate_free")
    ctx.cls("subset.weights:" + weight_class(weights))
    if weights is not None and len(set(weights)) > 1:
        ctx.cls("subset.weights_not_uniform")

    def subset_score(w):
        l = []
        sc = parsimony.fitch_down_pass(build_tree(spec, ns, taxa, rooting).postorder_node_iter(),
                                       state_sets_attr_name=None, taxon_state_sets_map=tsm, weights=w,
                                       score_by_character_list=l)
        return sc, l
    check_scaling(ctx, "C16.weight_scaling" + tri, subset_score, weights, len(idx), case.get("scale", 0.5),
                  want, want_list, desc)
    same_if_normalised = weighted([e[0] for e in expected_changes(
        rt, {"dtype": m["dtype"], "rows": ["".join(r[i] for i in sorted(set(idx))) for r in m["rows"]]}, gam)],
        None if weights is None else weights[:len(set(idx))])
    if same_if_normalised != want_list:
        ctx.cls("subset.order_or_repeats_matter")
        ctx.nontrivial(["subset", rt.canon(ordered=True), m, sel, weights])
    count_internal_taxa(ctx, "subset", spec, n, [m])
    ctx.sample("subset:" + sel["as"], case)


# ---------------------------------------------------------------------------
# sub-check: matrices mixing state alphabets (concatenate)
# ---------------------------------------------------------------------------

def check_concat(ctx, case):
    import dendropy
    spec, rooting, parts = case["spec"], case["rooting"], case["parts"]
    gam_arg, weights = case["gam"], case["weights"]
    gam = eff_gam(gam_arg)
    n = len(parts[0]["rows"])
    widths = [len(p["rows"][0]) for p in parts]
    ns, taxa, _ = build_ns(n, parts, spec)
    if len(ns) != n + len(parts[0].get("extra_rows") or []):
        raise runner.HarnessError("concat: every taxon of the namespace needs a row in every partition")
    count_internal_taxa(ctx, "concat", spec, n, parts[:1])
    tree = build_tree(spec, ns, taxa, rooting)
    rt = snap(ctx, tree, "concat base")
    rdeg, ideg = degree_profile(rt)
    if rdeg != (2 if rooting == "rooted" else 3) or (ideg - set([2])):
        raise runner.HarnessError("generator produced a tree outside the domain: %r" % (case,))
    mats = [build_matrix(p, ns, taxa) for p in parts]
    combined = dendropy.StandardCharacterMatrix.concatenate(mats)
    desc = lambda: "tree=%s parts=%r weights=%r gaps_as_missing=%r" % (
        rt.canon(ordered=True), [(p["dtype"], p["rows"]) for p in parts], weights, gam_arg)
    # what concatenate is documented to deliver: same taxa, columns side by side
    ctx.check(len(combined) == len(ns) and all(len(combined[taxa[i]]) == sum(widths) for i in range(n)),
              "concatenate puts the partitions' columns side by side", "C16.concat_shape", desc)
    got_syms = matrix_symbols(combined, taxa, n)
    want_syms = [list("".join(p["rows"][i] for p in parts)) for i in range(n)]
    ctx.check(got_syms == want_syms, "concatenate keeps every cell's symbol", "C16.concat_shape",
              lambda: "symbols %r want %r" % (got_syms, want_syms))

    changes = []
    exp_all = []
    for p in parts:
        e = expected_changes(rt, p, gam)
        exp_all.extend(e)
        changes.extend(x[0] for x in e)
    if n <= 5:
        for c, (ch, sets, states) in enumerate(exp_all):
            b = brute_changes(rt, sets, states)
            if b is not None and b != ch:
                raise runner.HarnessError("oracle disagreement: Sankoff %d, brute force %d; %s column %d" % (
                    ch, b, desc(), c))
    want_list = weighted(changes, weights)
    want = sum(want_list)
    tri = "" if rooting == "rooted" else "_trifurcating_seed"

    got, lst = call_score(tree, combined, gam_arg, weights, True)
    ctx.check(neq(got, want), "score of a matrix mixing state alphabets equals the weighted minimum number of changes",
              "C16.concat_score_minimal" + tri,
              lambda: "got %r want %r (per column minima %r); %s" % (got, want, changes, desc()))
    ctx.check(leq(lst, want_list) and neq(sum(lst), got),
              "per-character scores of a matrix mixing state alphabets are the weighted per-column minima",
              "C16.concat_per_char" + tri, lambda: "got %r (total %r) want %r; %s" % (lst, got, want_list, desc()))
    # additivity over the partitions, each scored on its own fresh tree with its slice of the weights
    part_scores = []
    pos = 0
    for p, mt, w in zip(parts, mats, widths):
        wslice = None if weights is None else weights[pos:pos + w]
        pos += w
        sc, _ = call_score(build_tree(spec, ns, taxa, rooting), mt, gam_arg, wslice, False)
        part_scores.append(sc)
    ctx.check(neq(got, sum(part_scores)), "score of the concatenated matrix equals the sum of the partition scores",
              "C16.concat_equals_partition_sum" + tri,
              lambda: "concatenated %r, partitions %r; %s" % (got, part_scores, desc()))

    check_scaling(ctx, "C16.weight_scaling" + tri,
                  lambda w: call_score(build_tree(spec, ns, taxa, rooting), combined, gam_arg, w, True),
                  weights, sum(widths), case.get("scale", 0.5), got, lst, desc)

    # -- bookkeeping
    ctx.cls("concat.weights:" + weight_class(weights))
    funds = [p["dtype"] for p in parts]
    ctx.cls("concat.parts:%d" % len(parts))
    ctx.cls("concat.distinct_alphabets:%d" % len(set(funds)))
    cols = []
    for p in parts:
        for c in range(len(p["rows"][0])):
            cols.append((p["dtype"], set(r[c] for r in p["rows"])))
    shared = False
    for sym in (GAP, MISSING):
        if len(set(f for f, ss in cols if sym in ss)) >= 2:
            shared = True
    if shared:
        ctx.cls("concat.gap_or_missing_in_columns_of_two_alphabets")
    ctx.cls("concat.leaves:" + size_class(n))
    if len(set(funds)) >= 2 and shared and sum(changes) >= 1:
        ctx.nontrivial(["concat", rt.canon(ordered=True), parts, weights, gam_arg])
    ctx.sample("concat", case)


# ---------------------------------------------------------------------------
# sub-check: final state sets (up pass)
# ---------------------------------------------------------------------------

def check_final(ctx, case):
    from dendropy.model import parsimony
    spec, m = case["spec"], case["m"]
    gam = eff_gam(m["gam"])
    n = len(m["rows"])
    nchar = len(m["rows"][0])
    ns, taxa, _ = build_ns(n, m, spec)
    tree = build_tree(spec, ns, taxa, "rooted")
    mat = build_matrix(m, ns, taxa)
    rt = snap(ctx, tree, "final base")
    count_internal_taxa(ctx, "final", spec, n, [m])
    if degree_profile(rt) not in ((2, set([2])), (2, set())):
        raise runner.HarnessError("final: tree not strictly bifurcating: %r" % (case,))
    states = universe(m["dtype"], gam)
    # index of a state in the library's numbering = position in our fundamental-state order (gap last): this is the
    # documented meaning of "fundamental state indexes" and is itself checked against the oracle here
    sidx = dict((s, k) for k, s in enumerate(states))
    exp = expected_changes(rt, m, gam)
    tsm = mat.taxon_state_sets_map(gaps_as_missing=gam)
    score = parsimony.fitch_down_pass(tree.postorder_node_iter(), taxon_state_sets_map=tsm)
    ctx.check(score == sum(e[0] for e in exp), "down pass score", "C16.score_minimal",
              lambda: "got %r want %r rows=%r tree=%s" % (score, sum(e[0] for e in exp), m["rows"], rt.canon(True)))
    down_sets = dict((i, [set(s) for s in rt.obj[i].state_sets]) for i in rt.internals())
    parsimony.fitch_up_pass(tree.preorder_node_iter())
    differs = False
    for c in range(nchar):
        ch, sets, sts = exp[c]
        want = mpr_sets(rt, sets, sts)
        for i in rt.internals():
            got = set(rt.obj[i].state_sets[c])
            w = set(sidx[s] for s in want[i])
            if i != rt.root and got != down_sets[i][c]:
                differs = True
            ctx.check(got == w, "final state set = states of the node over all most-parsimonious reconstructions",
                      "C16.final_sets",
                      lambda: "column %d node above %s: final set %r, optimal states %r (state order %r); rows=%r "
                              "tree=%s gam=%r" % (c, sorted(rt.clusters()[i]), sorted(got), sorted(w), states,
                                                  m["rows"], rt.canon(ordered=True), m["gam"]))
    ctx.cls("final.type:" + m["dtype"])
    ctx.cls("final.leaves:" + size_class(n))
    if differs:
        ctx.cls("final.up_pass_changed_a_set")
        ctx.nontrivial(["final", rt.canon(ordered=True), m])
    ctx.sample("final", case)


SUBCHECKS = {"score": check_score, "history": check_history, "final": check_final, "concat": check_concat, "subset": check_subset,
             "edits": check_edits}


# ---------------------------------------------------------------------------
# strategies (plain data)
# ---------------------------------------------------------------------------

def contract_root_child(spec, prefer_first):
    """Binary-rooted spec with >= 3 leaves -> the unrooted drawing: one internal child of the root is dissolved."""
    ch = spec["ch"]
    order = [0, 1] if prefer_first else [1, 0]
    for k in order:
        if ch[k]["ch"]:
            new = ch[:k] + ch[k]["ch"] + ch[k + 1:]
            return {"t": None, "lab": None, "len": None, "ch": new}
    raise runner.HarnessError("no internal child below the root")


@st.composite
def trees(draw, max_leaves, rootings=("rooted", "unrooted")):
    """(spec, rooting, number of leaves, number of internal nodes carrying a taxon).

    Leaves carry taxon indices 0..n-1.  In about 40 % of the trees 1-3 internal nodes (the seed node included, with
    extra weight) carry a taxon of their own, indices n, n+1, ... - what reading "((A,B)F,C)R;" with
    suppress_internal_node_taxa=False produces.  Whether the matrix has a row for such a taxon is decided by the
    number of extra rows drawn with the matrix."""
    spec = draw(shapes.shapes(min_leaves=2, max_leaves=max_leaves, binary=True))
    n = shapes.n_leaves(spec)
    rooting = draw(st.sampled_from(list(rootings)))
    if rooting == "unrooted" and n >= 3:
        spec = contract_root_child(spec, draw(st.booleans()))
    else:
        rooting = "rooted"
    k = 0
    if draw(st.integers(0, 4)) < 2:
        inner = [x for x in shapes.spec_nodes(spec) if x["ch"]]
        want = draw(st.integers(1, min(3, len(inner))))
        picks = draw(st.lists(st.sampled_from([0, 0] + list(range(len(inner)))), min_size=want, max_size=want,
                              unique=True))
        for j in sorted(picks):
            inner[j]["t"] = n + k
            k += 1
    return spec, rooting, n, k


def draw_extra_rows(draw, m, k, always=None):
    """Rows for taxa that are not leaves of the tree: the first rows belong to the k internal-node taxa (so they
    may or may not be covered), further rows to taxa that are in the namespace only."""
    if always is not None:
        r = always
    elif k:
        r = draw(st.integers(0, k + 1))
    else:
        r = draw(st.sampled_from([0, 0, 0, 1, 2]))
    if r:
        cell = st.sampled_from(TYPES[m["dtype"]]["all"])
        width = len(m["rows"][0])
        m["extra_rows"] = draw(st.lists(st.lists(cell, min_size=width, max_size=width).map("".join),
                                        min_size=r, max_size=r))
    return m


@st.composite
def matrices(draw, n, max_chars, unambiguous=False, dtypes=None, min_chars=1):
    dtype = draw(st.sampled_from(dtypes or DTYPES))
    T = TYPES[dtype]
    nchar = draw(st.integers(min_chars, max_chars))
    cols = []
    for c in range(nchar):
        k = draw(st.integers(2, 3))
        palette = draw(st.lists(st.sampled_from(T["pool"]), min_size=k, max_size=k))
        if unambiguous:
            cell = st.sampled_from(palette + [GAP])
        else:
            # symbols whose state set overlaps the palette without being a single palette state: these are the
            # cells for which the exact meaning of a code decides the score
            related = [s for s in T["ambsyms"] if set(T["table"][s]) & set(palette)] + [GAP, MISSING]
            mode = draw(st.sampled_from(["clean", "mixed", "mixed", "related", "related", "gappy", "wild"]))
            if mode == "clean":
                cell = st.sampled_from(palette)
            elif mode == "mixed":
                cell = st.one_of(st.sampled_from(palette), st.sampled_from(palette), st.sampled_from(T["all"]))
            elif mode == "related":
                cell = st.one_of(st.sampled_from(palette), st.sampled_from(related))
            elif mode == "gappy":
                cell = st.sampled_from(palette + [GAP, MISSING])
            else:
                cell = st.sampled_from(T["all"])
        cols.append(draw(st.lists(cell, min_size=n, max_size=n)))
    rows = ["".join(cols[c][i] for c in range(nchar)) for i in range(n)]
    weights = draw(weight_vectors(nchar))
    gam = draw(st.sampled_from([True, False, False, None]))
    return {"dtype": dtype, "rows": rows, "weights": weights, "gam": gam}


@st.composite
def score_cases(draw, max_leaves, max_chars):
    spec, rooting, n, k = draw(trees(max_leaves))
    m = draw_extra_rows(draw, draw(matrices(n, max_chars)), k)
    perm = shapes.permute_children(draw, spec)
    return {"spec": spec, "rooting": rooting, "m": m, "perm_spec": perm, "scale": draw(st.sampled_from(SCALES))}


@st.composite
def history_cases(draw, max_leaves, max_chars):
    spec, rooting, n, kint = draw(trees(max_leaves))
    k = draw(st.integers(1, 4))
    mats = [draw_extra_rows(draw, draw(matrices(n, max_chars)), kint) for _ in range(k)]
    ncalls = draw(st.integers(max(2, k), 6))
    calls = []
    for j in range(ncalls):
        calls.append({"m": draw(st.integers(0, k - 1)),
                      "gam": draw(st.sampled_from([True, False, None])),
                      "use_weights": draw(st.booleans()),
                      "per_char": draw(st.booleans()),
                      "route": draw(st.sampled_from(["score", "score", "score", "down_pass_no_attr"])),
                      "tree_op": (None if j == 0 or draw(st.integers(0, 2)) else
                                  {"op": draw(st.sampled_from(TREE_OPS)), "v": draw(st.integers(0, 63))}),
                      "up_pass_after": draw(st.sampled_from([False, False, True]))})
    return {"spec": spec, "rooting": rooting, "mats": mats, "calls": calls, "scale": draw(st.sampled_from(SCALES))}


@st.composite
def edit_cases(draw, max_leaves, max_chars):
    spec, rooting, n_leaf, kint = draw(trees(max_leaves))
    m = draw_extra_rows(draw, draw(matrices(n_leaf, max_chars)), kint)
    n = n_leaf + len(m.get("extra_rows") or [])  # edits address every row, also those of taxa that are not leaves
    T = TYPES[m["dtype"]]
    sym = st.one_of(st.sampled_from(T["fundsyms"]), st.sampled_from(T["all"]))
    width = len(m["rows"][0])
    base_gam = m["gam"]
    other_gam = False if eff_gam(base_gam) else True
    nsteps = draw(st.integers(2, 5))
    steps = []
    for k in range(nsteps):
        edit = None
        if k > 0 and draw(st.integers(0, 5)) > 0:
            kind = draw(st.sampled_from(["set", "set", "set", "set", "swap_rows", "replace_row", "append_col",
                                         "drop_col"]))
            if kind == "drop_col" and width == 1:
                kind = "set"
            if kind == "set":
                cells = draw(st.lists(st.tuples(st.integers(0, n - 1), st.integers(0, width - 1), sym),
                                      min_size=1, max_size=3))
                edit = {"kind": "set", "cells": [list(c) for c in cells],
                        "via": draw(st.sampled_from(["setitem", "set_at"]))}
            elif kind == "swap_rows":
                a = draw(st.integers(0, n - 1))
                b = draw(st.integers(0, n - 2))
                edit = {"kind": "swap_rows", "a": a, "b": b if b < a else b + 1}
            elif kind == "replace_row":
                edit = {"kind": "replace_row", "r": draw(st.integers(0, n - 1)),
                        "row": "".join(draw(st.lists(sym, min_size=width, max_size=width)))}
            elif kind == "append_col":
                edit = {"kind": "append_col", "col": draw(st.lists(sym, min_size=n, max_size=n))}
                width += 1
            else:
                edit = {"kind": "drop_col", "c": draw(st.integers(0, width - 1))}
                width -= 1
        steps.append({"edit": edit,
                      "gam": draw(st.sampled_from([base_gam, base_gam, base_gam, other_gam])),
                      "use_weights": draw(st.booleans()),
                      "per_char": draw(st.booleans()),
                      "trees": draw(st.sampled_from([["same"], ["fresh"], ["same", "fresh"], ["fresh", "same"]]))})
    wpool = draw(weight_vectors(max_chars + 6, allow_none=False))
    return {"spec": spec, "rooting": rooting,
            "m": {"dtype": m["dtype"], "rows": m["rows"], "extra_rows": m.get("extra_rows") or []},
            "steps": steps, "wpool": wpool, "scale": draw(st.sampled_from(SCALES))}


@st.composite
def subset_cases(draw, max_leaves, max_chars):
    spec, rooting, n, kint = draw(trees(max_leaves))
    m = draw_extra_rows(draw, draw(matrices(n, max_chars, min_chars=2)), kint)
    m["weights"] = None
    nchar = len(m["rows"][0])
    kind = draw(st.sampled_from(["list", "list", "tuple", "range"]))
    if kind == "range":
        start = draw(st.integers(0, nchar - 1))
        step = draw(st.sampled_from([1, 1, 2, -1, -1, -2]))
        if step > 0:
            stop = draw(st.integers(start + 1, nchar))
        else:
            stop = draw(st.integers(-1, start - 1))
        sel = {"as": "range", "start": start, "stop": stop, "step": step}
        size = len(range(start, stop, step))
    else:
        mode = draw(st.sampled_from(["any", "any", "bootstrap", "bootstrap", "permutation", "ascending"]))
        col = st.integers(0, nchar - 1)
        if mode == "bootstrap":
            idx = draw(st.lists(col, min_size=nchar, max_size=nchar))
        elif mode == "permutation":
            idx = list(draw(st.permutations(list(range(nchar)))))
        elif mode == "ascending":
            idx = sorted(draw(st.sets(col, min_size=1)))
        else:
            idx = draw(st.lists(col, min_size=1, max_size=nchar + 3))
        sel = {"as": kind, "idx": idx}
        size = len(idx)
    weights = draw(weight_vectors(size))
    return {"spec": spec, "rooting": rooting, "m": m, "sel": sel, "weights": weights,
            "scale": draw(st.sampled_from(SCALES))}


@st.composite
def concat_cases(draw, max_leaves, max_chars):
    spec, rooting, n, kint = draw(trees(max_leaves))
    k = draw(st.integers(2, 3))
    std = ["std:" + f for f in STD_FUNDS]
    parts = []
    for j in range(k):
        # concatenate() wants a row for every taxon of the namespace: internal-node taxa always have one here
        m = draw_extra_rows(draw, draw(matrices(n, max(1, max_chars // 2), dtypes=std)), kint, always=kint)
        parts.append({"dtype": m["dtype"], "rows": m["rows"], "extra_rows": m.get("extra_rows") or []})
    total = sum(len(p["rows"][0]) for p in parts)
    weights = draw(weight_vectors(total))
    gam = draw(st.sampled_from([True, False, False, None]))
    return {"spec": spec, "rooting": rooting, "parts": parts, "weights": weights, "gam": gam,
            "scale": draw(st.sampled_from(SCALES))}


@st.composite
def final_cases(draw, max_leaves, max_chars):
    spec, rooting, n, kint = draw(trees(max_leaves, rootings=("rooted",)))
    m = draw_extra_rows(draw, draw(matrices(n, max_chars, unambiguous=True)), kint)
    m["weights"] = None
    m["gam"] = False
    return {"spec": spec, "m": m}


def run(ctx):
    quick = ctx.tier == "quick"
    max_leaves = 9 if quick else 30
    max_chars = 6 if quick else 12
    n_score = 2400 if quick else 20000
    n_hist = 1200 if quick else 10000
    n_final = 600 if quick else 6000
    n_concat = 1000 if quick else 8000
    n_edits = 1200 if quick else 10000
    n_subset = 1200 if quick else 10000
    runner.run_given(ctx, "score", score_cases(max_leaves, max_chars), check_score, n_score // ctx.nshards)
    runner.run_given(ctx, "history", history_cases(max_leaves, max_chars), check_history, n_hist // ctx.nshards)
    runner.run_given(ctx, "final", final_cases(max_leaves, max_chars), check_final, n_final // ctx.nshards)
    runner.run_given(ctx, "concat", concat_cases(max_leaves, max_chars), check_concat, n_concat // ctx.nshards)
    runner.run_given(ctx, "edits", edit_cases(max_leaves, max_chars), check_edits, n_edits // ctx.nshards)
    runner.run_given(ctx, "subset", subset_cases(max_leaves, max_chars), check_subset, n_subset // ctx.nshards)
