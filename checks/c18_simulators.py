"""C18 - simulated trees meet their specification for every seed and are reproducible.

One @given sub-check per simulator.  A case is plain data (seed, tip count, rates, namespace labels, species-tree spec
with dyadic edge lengths, genes per species, population sizes); every DendroPy object is built inside the sub-check.

Oracle (all structure is read through lib.snapshot -> RefTree, i.e. raw links, never the library's iterators):
  * well formed (snapshot problems + traversal_problems empty), exactly N leaves, every internal node has 2 children;
  * the N leaves carry N pairwise different Taxon objects (different labels too), all members of tree.taxon_namespace;
    a supplied namespace is the tree's namespace, keeps its members and grows only when it has fewer than N taxa;
  * every non-root edge has a finite length >= 0 and all leaves are at the same distance from the root (1e-9 relative),
    which is > 0 (at least one waiting time lies between root and tips; birth-death trees: for N >= 3, because
    growth stops at the event creating the N-th tip);
  * coalescent trees: exactly one leaf per taxon of the namespace; mean_kingman_tree: node ages are the cumulated
    expected waiting times pop_size / C(k, 2);
  * containment: for two genes of different species the age of their gene-tree MRCA is >= the age of the species MRCA
    (species ages exact from dyadic lengths; gene ages = tree height - own root distance);
  * determinism: a second run with freshly built equal arguments and random.Random(seed) gives the identical ordered
    canonical form (bit-identical lengths, same taxon labels at the same places) and leaves the generator in the same
    state; a run with repeat_until_success=False either raises the documented TreeSimTotalExtinctionException (=> the
    default run took the restart path; counted) or returns the identical tree; a run without rng after
    GLOBAL_RNG.setstate(Random(seed).getstate()) gives the identical tree and consumes the identical stream;
  * random.getstate() and dendropy.utility.GLOBAL_RNG.getstate() are unchanged by every call that was given an rng;
  * birth-death optional flags: is_assign_extinct_taxa, is_add_extinct_attr, extinct_attr_name are documented as ignored
    while extinct tips are pruned => same specification AND the same tree as without them from the same generator
    state; is_assign_extant_taxa=False => no tip carries a taxon (everything else as specified);
  * inputs: every call leaves its argument objects as it found them unless a side effect is documented (containing /
    population tree: same nodes, links, taxa, edge lengths, attribute names and public plain values on tree, nodes and
    edges; gene mapping; taxon namespaces and their Taxon objects; documented exceptions: birth-death appends new taxa to
    a too-small namespace, decorate_original_tree=True adds 'gene_nodes' to nodes).  Histories: a containing tree +
    mapping / population tree / namespace object that served an EARLIER call under other settings (default_pop_size,
    edge_pop_size_attr / pop_size_attr, strategy, num_genes, rates, seed) must give, for the call of the case from an equal
    generator state, exactly the tree obtained on freshly built equal arguments;
  * spellings: the birth-death stopping rule is drawn among num_extant_tips, the deprecated ntax (same predicates: exactly
    N extant tips), num_total_tips / num_extinct_tips / max_time and combinations (documented meaning: growth stops when
    ANY rule is met => at least 1 and at most N extant tips for the rules that bound them; all other clauses unchanged);
    the deprecated assign_taxa flag; rates / trees / namespaces passed positionally or by keyword; a one-node Tree passed
    as tree= (must be the object returned).  Deprecation warnings are silenced;
  * contained_coalescent_tree with gene taxa that share labels (documented contained_taxon_label_fn): tips are identified
    by the position of their taxon in the gene namespace, so determinism across rebuilt arguments is judged on Taxon
    identity, not on labels.
"""
import math
import random
import warnings

from hypothesis import strategies as st

from lib import runner, shapes
from lib.refmodel import RefTree
from lib.snapshot import snapshot, traversal_problems

TOL = 1e-9
MAXSEED = 2 ** 32 - 1

CONFIG = {
    "shards": {"quick": 8, "thorough": 16},
    "budget_s": {"quick": 120, "thorough": 1500},
    "rule": ("Hypothesis @given per simulator (birth_death_tree, fast_birth_death_tree, uniform_pure_birth_tree, "
             "pure_kingman_tree, mean_kingman_tree, contained_coalescent_tree, constrained_kingman_tree): seed in "
             "[0, 2^32), tips 2-30 quick / up to 300 thorough, birth in (0.1, 5], death = ratio*birth with ratio in "
             "[0, 0.95] (biased to >= 0.8), num_extant_tips stopping rule, default options, with/without a supplied "
             "namespace (0..N+5 taxa, labels colliding with the generated T<k> names); coalescent population sizes "
             "0.01..1e6; species trees with 2-10 (thorough 75) species, arity <= 3, exactly ultrametric with dyadic "
             "heights, 1-4 genes per species (contained_coalescent_tree: gene labels unique, shared within a species or one "
             "label for all genes; tips identified by gene-namespace position), per-edge population sizes; birth-death: "
             "half of the cases sweep is_assign_extinct_taxa / is_assign_extant_taxa / is_add_extinct_attr / "
             "extinct_attr_name; edge_pop_size_attr / pop_size_attr in {pop_size, ne, None}; half of the cases carry a 'prior' "
             "call that is first made on the same containing tree / population tree / namespace object.  Non-trivial = the simulated tree has >= 3 "
             "tips; distinct = (simulator, full argument case incl. seed)."),
    "assumptions": [
        "only the tree simulators are covered; numeric helpers (time_to_coalescence, discrete_time_to_coalescence) are not",
        "gsa_ntax, is_retain_extinct_tips=True, rate evolution (sd > 0) and continuing a grown tree via tree= are outside the "
        "property and not generated; num_total_tips / num_extinct_tips / max_time are generated with the weaker tip-count "
        "clause (>= 1 extant tip, <= the bound) because extinct tips are pruned; discrete_birth_death_tree is not covered",
        "equal arguments for the second run are rebuilt from the same plain data (fresh namespace / species tree objects)",
        "root edge length is not part of 'distance from the root' and is not judged",
        "pop_size values are positive (0/None mean 'population units' in the docs and are not generated)",
    ],
}


# ---------------------------------------------------------------------------
# strategies (plain data)
# ---------------------------------------------------------------------------

# sampled_from(range) instead of integers(): Hypothesis draws bounded integers with a strong bias to the lower bound
# (measured: 40 % of cases had n == 2, 10 % seed == 0); sampled_from is uniform apart from a few boundary values.
SEED = st.sampled_from(range(MAXSEED + 1))


def ints(lo, hi):
    return st.sampled_from(range(lo, hi + 1))
BIRTH = st.one_of(st.floats(min_value=0.1, max_value=5.0, exclude_min=True, allow_nan=False),
                  st.sampled_from([0.5, 1.0, 2.0, 5.0]))
RATIO = st.one_of(st.floats(min_value=0.0, max_value=0.95, allow_nan=False),
                  st.floats(min_value=0.8, max_value=0.95, allow_nan=False),
                  st.sampled_from([0.0, 0.5, 0.9, 0.95]))
POP = st.one_of(st.sampled_from([1, 1.0, 0.1, 0.5, 2, 10, 100, 10000]),
                st.integers(1, 10 ** 6),
                st.floats(min_value=0.01, max_value=1000.0, allow_nan=False))


def tips(max_n):
    return st.one_of(ints(2, min(12, max_n)), ints(2, min(30, max_n)), ints(2, max_n))


def label_pool(max_n):
    return ["T%d" % i for i in range(1, max_n + 8)] + ["t1", "T01", "sp A", "sp_B", "x", "T", "1"]


# Optional arguments that, by the docstring, do not change the specification while extinct tips are pruned (the default):
# is_assign_extinct_taxa, is_add_extinct_attr and extinct_attr_name "only make sense if extinct tips are retained ... and
# will otherwise be ignored"; is_assign_extant_taxa=True is the default; is_assign_extant_taxa=False is documented as
# "taxa will not be assigned to extant tips".  Half of the cases keep every flag at its default.
@st.composite
def bd_flags(draw):
    if draw(st.booleans()):
        return {}
    f = {}
    for name, values in (("is_assign_extinct_taxa", [False, False, True]), ("is_assign_extant_taxa", [True, True, False]),
                         ("is_add_extinct_attr", [False, True]), ("extinct_attr_name", ["is_extinct", "dead", "taxon_is_gone"])):
        if draw(st.booleans()):
            f[name] = draw(st.sampled_from(values))
    if "is_assign_extant_taxa" not in f and draw(st.sampled_from([False, False, True])):
        # deprecated spelling, still accepted (shim: "Use 'is_assign_extant_taxa' and/or 'is_assign_extinct_taxa' instead")
        f["assign_taxa"] = draw(st.sampled_from([True, True, False]))
    return f


BD_FLAGS = bd_flags()


@st.composite
def bd_cases(draw, max_n):
    n = draw(tips(max_n))
    birth = draw(BIRTH)
    death = birth * draw(RATIO)
    if death > 0.95 * birth:  # rounding guard, keeps the documented domain death <= 0.95 * birth
        death = 0.95 * birth
    mode = draw(st.sampled_from(["none", "none", "fewer", "fewer", "exact", "more", "empty"]))
    ns = None
    if mode != "none":
        k = {"empty": 0, "fewer": draw(ints(0, n - 1)), "exact": n, "more": n + draw(ints(1, 5))}[mode]
        pool = label_pool(max_n)
        # bias towards labels of the form T<k> with small k: these collide with the names the simulator makes up
        small = pool[:n + 6]
        ns = draw(st.lists(st.one_of(st.sampled_from(small), st.sampled_from(pool)), min_size=k, max_size=k, unique=True))
    # How the stopping rule is spelled.  Accepted by the code under test: num_extant_tips, the deprecated ntax (shim:
    # same meaning), num_total_tips, num_extinct_tips, max_time and combinations ("terminate when any one is met").
    # gsa_ntax stays excluded (property statement).  Values are chosen so that the expected tree stays small:
    # num_extinct_tips needs death/birth >= 0.3, max_time is c / birth with c <= 3 (expected size <= e^3).
    kinds = ["num_extant_tips", "num_extant_tips", "num_extant_tips", "ntax", "ntax", "ntax", "num_total_tips",
             "extant+total", "max_time", "extant+max_time"]
    if death >= 0.3 * birth:
        kinds.append("num_extinct_tips")
    kind = draw(st.sampled_from(kinds))
    stop = {"kind": kind}
    if kind == "extant+total":
        stop["m"] = n + draw(ints(0, 6))
    if kind == "num_extinct_tips":
        stop["k"] = draw(ints(1, 3))
    if kind in ("max_time", "extant+max_time"):
        stop["t"] = draw(st.sampled_from([0.25, 0.5, 1.0, 1.5, 2.0, 3.0])) / birth
    return {"seed": draw(SEED), "n": n, "birth": birth, "death": death, "ns": ns, "via_global": draw(st.booleans()),
            "flags": draw(BD_FLAGS), "stop": stop,
            # rates passed by keyword instead of positionally; a fresh one-node Tree passed as tree= ("If given, then this
            # tree will be used; otherwise a new one will be created")
            "rates_kw": draw(st.booleans()), "via_tree": draw(st.sampled_from([False, False, False, True])),
            # an earlier call on the SAME namespace object (only used when the namespace is large enough not to grow)
            "prior": draw(st.one_of(st.none(), st.fixed_dictionaries({"seed": SEED, "n": ints(2, 12)})))}


@st.composite
def pb_cases(draw, max_n):
    return {"seed": draw(SEED), "n": draw(tips(max_n)), "birth": draw(BIRTH), "via_global": draw(st.booleans()),
            "kw_style": draw(st.booleans()),
            "prior": draw(st.one_of(st.none(), st.fixed_dictionaries({"seed": SEED, "value": BIRTH})))}


@st.composite
def kingman_cases(draw, max_n):
    return {"seed": draw(SEED), "n": draw(tips(max_n)), "pop": draw(POP), "via_global": draw(st.booleans()),
            "kw_style": draw(st.booleans()),
            "prior": draw(st.one_of(st.none(), st.fixed_dictionaries({"seed": SEED, "value": POP})))}


@st.composite
def species_specs(draw, max_species):
    """A species-tree spec (taxon indices 0..S-1) whose edge lengths are multiples of 1/8 and whose leaves are all
    exactly at height 0 (node height = max child height + k/8)."""
    spec = draw(shapes.shapes(min_leaves=2, max_leaves=draw(st.sampled_from([min(4, max_species), min(10, max_species), max_species])),
                              max_arity=3, permute=True))
    order = []  # postorder, iterative
    stack = [(spec, 0)]
    while stack:
        s, k = stack.pop()
        if k < len(s["ch"]):
            stack.append((s, k + 1))
            stack.append((s["ch"][k], 0))
        else:
            order.append(s)
    incs = draw(st.lists(st.one_of(ints(1, 8), ints(1, 32), ints(0, 2)),
                         min_size=len(order), max_size=len(order)))
    height = {}
    for s, k in zip(order, incs):
        if not s["ch"]:
            height[id(s)] = 0.0
        else:
            height[id(s)] = max(height[id(c)] for c in s["ch"]) + k / 8.0
            for c in s["ch"]:
                c["len"] = height[id(s)] - height[id(c)]
    return spec


EDGE_POP = st.one_of(st.none(), st.none(), st.sampled_from([0.05, 0.25, 1, 1.0, 2, 5, 20, 100]),
                     st.floats(min_value=0.01, max_value=100.0, allow_nan=False), st.integers(1, 1000))


@st.composite
def contained_cases(draw, max_species):
    spec = draw(species_specs(max_species))
    nn = len(shapes.spec_nodes(spec))
    s = shapes.n_leaves(spec)
    uniform = draw(st.booleans())
    if uniform:
        p = draw(EDGE_POP)
        pops = [p] * nn
    else:
        pops = draw(st.lists(EDGE_POP, min_size=nn, max_size=nn))
    return {"seed": draw(SEED), "sp": spec, "genes": draw(st.lists(ints(1, 4), min_size=s, max_size=s)),
            "pops": pops, "default_pop": draw(st.one_of(st.just(1), st.sampled_from([0.1, 1.0, 3, 50]))),
            "scalar_genes": draw(st.booleans()), "via_global": draw(st.booleans()),
            # default: "<species> <k>"; the others go through the documented contained_taxon_label_fn /
            # contained_taxon_label_prefix arguments and give the gene copies of one species (or all genes) ONE label
            "gene_labels": draw(st.sampled_from(["default", "default", "species", "species", "constant", "prefix"])),
            # name of the edge attribute holding the sizes in "pops" / value passed as edge_pop_size_attr (None: documented
            # as "population sizes default to default_pop_size")
            "edge_attr": draw(st.sampled_from(["pop_size", "pop_size", "pop_size", "ne", None])),
            "kw_style": draw(st.booleans()),
            # history: an earlier gene tree simulated on the SAME containing tree and mapping under other settings
            "prior": draw(st.one_of(st.none(), st.fixed_dictionaries({
                "seed": SEED, "default_pop": st.sampled_from([0.02, 0.1, 1, 3, 50, 400]),
                "edge_attr": st.sampled_from(["pop_size", "pop_size", "ne", None])})))}


@st.composite
def constrained_cases(draw, max_species):
    spec = draw(species_specs(max_species))
    nn = len(shapes.spec_nodes(spec))
    s = shapes.n_leaves(spec)
    strategy = draw(st.sampled_from(["random_uniform", "fixed_per_population", "node_attribute"]))
    num_genes = None
    leaf_genes = None
    if strategy == "random_uniform":
        num_genes = draw(st.one_of(st.none(), ints(1, 4 * s), ints(1, 4 * s)))
    elif strategy == "fixed_per_population":
        num_genes = draw(ints(1, 4))
    else:
        leaf_genes = draw(st.lists(ints(1, 4), min_size=s, max_size=s))
    if draw(st.booleans()):
        pops = [draw(EDGE_POP)] * nn
    else:
        pops = draw(st.lists(EDGE_POP, min_size=nn, max_size=nn))
    return {"seed": draw(SEED), "sp": spec, "strategy": strategy, "num_genes": num_genes, "leaf_genes": leaf_genes,
            "pops": pops, "decorate": draw(st.booleans()), "via_global": draw(st.booleans()),
            "edge_attr": draw(st.sampled_from(["pop_size", "pop_size", "ne"])),
            "kw_style": draw(st.booleans()),
            # history (used when decorate_original_tree is off): an earlier call on the SAME population tree
            "prior": draw(st.one_of(st.none(), st.fixed_dictionaries({
                "seed": SEED, "strategy": st.sampled_from(["random_uniform", "fixed_per_population"]), "num_genes": ints(1, 6),
                "edge_attr": st.sampled_from(["pop_size", "ne"])})))}


# ---------------------------------------------------------------------------
# oracle helpers
# ---------------------------------------------------------------------------

def K(clause, sim):
    return "C18.%s:%s" % (clause, sim)


class Seen(object):
    """What the oracle extracted from one simulated tree."""

    def __init__(self, rt, depth, height, canon):
        self.rt = rt
        self.depth = depth
        self.height = height
        self.canon = canon


def examine(ctx, sim, tree, n_expected, one_leaf_per_taxon, expect_taxa=True, distinct_labels=True, taxon_key=None,
            n_max=None):
    """Structure / taxa / lengths / equidistance clauses.  Returns Seen.

    expect_taxa=False: the call asked for no taxa on the (extant) tips; distinct_labels=False: the supplied taxa share
    labels on purpose; taxon_key: identity of a taxon in the canonical form (default: its label)."""
    ctx.check(tree is not None and hasattr(tree, "_seed_node"), "returns_tree", K("returns_tree", sim), repr(tree))
    rt, problems = snapshot(tree, taxon_key=taxon_key)
    ctx.check(not problems, "well_formed", K("well_formed", sim), lambda: "; ".join(problems[:5]))
    tp = traversal_problems(tree, rt)
    ctx.check(not tp, "well_formed", K("traversals", sim), lambda: "; ".join(tp[:5]))
    leaves = rt.leaves()
    if n_expected is not None:
        ctx.check(len(leaves) == n_expected, "tip_count", K("tip_count", sim),
                  lambda: "%d leaves, %d requested" % (len(leaves), n_expected))
    else:
        # stopping rules that do not fix the number of extant tips: at least one lineage survives (else the simulator
        # restarts or raises), and never more extant tips than the tip-count bound that was given
        ctx.check(len(leaves) >= 1 and (n_max is None or len(leaves) <= n_max), "tip_count", K("tip_count_bound", sim),
                  lambda: "%d leaves, bound %r" % (len(leaves), n_max))
    bad = [i for i in rt.internals() if len(rt.children[i]) != 2]
    ctx.check(not bad, "bifurcating", K("bifurcating", sim),
              lambda: "internal node(s) with outdegree %r" % sorted(set(len(rt.children[i]) for i in bad)))
    # taxa
    ns = tree.taxon_namespace
    ctx.check(ns is not None, "taxa", K("namespace_present", sim), "tree has no taxon namespace")
    member_ids = set(id(t) for t in list(ns))
    leaf_taxa = [rt.obj[i].taxon for i in leaves]
    if not expect_taxa:
        ctx.check(all(t is None for t in leaf_taxa), "taxa", K("taxa_assigned_despite_flag", sim),
                  lambda: "%d of %d extant tips carry a taxon although is_assign_extant_taxa=False" % (
                      sum(1 for t in leaf_taxa if t is not None), len(leaves)))
        leaf_taxa = []
    ctx.check(all(t is not None for t in leaf_taxa), "taxa", K("leaf_without_taxon", sim),
              lambda: "%d of %d leaves carry no taxon" % (sum(1 for t in leaf_taxa if t is None), len(leaves)))
    all_taxa = [rt.obj[i].taxon for i in rt.nodes() if rt.obj[i].taxon is not None]
    ctx.check(len(set(id(t) for t in all_taxa)) == len(all_taxa), "taxa", K("taxon_used_twice", sim),
              lambda: "labels on the tree: %r" % sorted(str(t.label) for t in all_taxa))
    labels = [t.label for t in leaf_taxa]
    if distinct_labels:
        ctx.check(len(set(labels)) == len(labels), "taxa", K("taxon_label_used_twice", sim), lambda: repr(sorted(map(str, labels))))
    outside = [t for t in all_taxa if id(t) not in member_ids]
    ctx.check(not outside, "taxa", K("taxon_not_in_namespace", sim),
              lambda: "%d taxon object(s) on the tree are not members of tree.taxon_namespace, e.g. %r (namespace "
                      "labels %r)" % (len(outside), outside[0].label, [t.label for t in list(ns)][:8]))
    if one_leaf_per_taxon:
        ctx.check(len(member_ids) == len(leaves) and member_ids == set(id(t) for t in leaf_taxa), "taxa",
                  K("one_leaf_per_taxon", sim),
                  lambda: "namespace has %d taxa, tree has %d leaves" % (len(member_ids), len(leaves)))
    # lengths
    depth = {}
    for i in rt.preorder():
        if i == rt.root:
            depth[i] = 0.0
            continue
        L = rt.length[i]
        ok = isinstance(L, (int, float)) and not isinstance(L, bool) and math.isfinite(L)
        ctx.check(ok, "lengths", K("length_missing", sim), lambda: "edge length %r" % (L,))
        ctx.check(L >= 0, "lengths", K("length_negative", sim), lambda: "edge length %r" % (L,))
        depth[i] = depth[rt.parent[i]] + L
    d = [depth[i] for i in leaves]
    hi, lo = max(d), min(d)
    ctx.check(hi - lo <= TOL * hi, "equidistant", K("equidistant", sim),
              lambda: "root-to-tip distances range from %r to %r (n=%d)" % (lo, hi, len(leaves)))
    # at least one exponential (or expected) waiting time > 0 lies between the root and the tips; the birth-death
    # simulators stop at the very event that creates the N-th tip, so for them this needs a second split (N >= 3)
    if len(leaves) >= (3 if sim in ("birth_death_tree", "fast_birth_death_tree") else 2):
        ctx.check(hi > 0, "lengths", K("zero_height", sim), "all root-to-tip distances are 0")
    seen = Seen(rt, depth, hi, rt.canon(ordered=True, lengths=True))
    seen.n_leaves = len(leaves)
    return seen


PLAIN = (bool, int, float, str, type(None))


def obj_state(o):
    """Attribute names of o; values only for public (no leading underscore) attributes holding plain data, plus the
    label.  Private attributes are the library's own bookkeeping (lazily filled caches such as _lower_cased_label,
    accession counters) and only their presence is recorded."""
    out = {}
    for k, v in (getattr(o, "__dict__", None) or {}).items():
        if (not k.startswith("_") or k == "_label") and isinstance(v, PLAIN):
            out[k] = repr(v)
        else:
            out[k] = "<%s>" % ("private" if k.startswith("_") else type(v).__name__)
    return out


def namespace_state(ns):
    if ns is None:
        return None
    taxa = list(ns)
    return {"members": [id(t) for t in taxa], "taxa": [obj_state(t) for t in taxa], "self": obj_state(ns), "_keep": taxa}


def tree_state(tree):
    """Raw-link walk: per node identity of parent / children / taxon / edge, attribute names and plain values of node and
    edge (edge.length included), plus the tree object's own attributes and its namespace."""
    nodes = []
    stack = [tree._seed_node]
    while stack:
        nd = stack.pop()
        nodes.append({"id": id(nd), "parent": id(nd._parent_node), "children": [id(c) for c in nd._child_nodes],
                      "taxon": id(nd.taxon), "edge": id(nd._edge), "node_attrs": obj_state(nd), "edge_attrs": obj_state(nd._edge),
                      "length": repr(nd._edge.length)})
        stack.extend(reversed(nd._child_nodes))
    return {"nodes": nodes, "self": obj_state(tree), "namespace": namespace_state(tree.taxon_namespace)}


def state_diff(a, b, path="", allowed_new=()):
    """Human-readable differences between two states (dict / list / str trees); new keys named in allowed_new are
    documented side effects."""
    out = []
    if isinstance(a, dict) and isinstance(b, dict):
        for k in sorted(set(a) | set(b), key=str):
            if k == "_keep":
                continue
            if k not in a:
                if k not in allowed_new:
                    out.append("%s: new attribute %r = %s" % (path, k, b[k]))
            elif k not in b:
                out.append("%s: attribute %r removed" % (path, k))
            else:
                out.extend(state_diff(a[k], b[k], "%s.%s" % (path, k), allowed_new))
    elif isinstance(a, list) and isinstance(b, list) and a and isinstance(a[0], dict) and len(a) == len(b):
        for i, (x, y) in enumerate(zip(a, b)):
            out.extend(state_diff(x, y, "%s[%d]" % (path, i), allowed_new))
    elif a != b:
        out.append("%s: %s -> %s" % (path, str(a)[:60], str(b)[:60]))
    return out


def check_unchanged(ctx, sim, what, before, after, allowed_new=()):
    d = state_diff(before, after, what, allowed_new)
    ctx.check(not d, "inputs_unchanged", K("input_changed", sim),
              lambda: "%d change(s) to an argument object without a documented side effect: %s" % (len(d), "; ".join(d[:4])))


def check_reused(ctx, sim, what, seen_fresh, r_fresh, seen_reused, r_reused):
    ctx.check(seen_reused.canon == seen_fresh.canon and r_reused.getstate() == r_fresh.getstate(), "inputs_unchanged",
              K("reused_input_differs", sim),
              lambda: "the same call from an equal generator state on %s that was used before differs from the call on "
                      "freshly built equal ones; %s" % (what, first_diff(seen_fresh.canon, seen_reused.canon)))


def first_diff(a, b):
    k = 0
    while k < min(len(a), len(b)) and a[k] == b[k]:
        k += 1
    return "first difference at char %d: ...%s | ...%s" % (k, a[max(0, k - 30):k + 40], b[max(0, k - 30):k + 40])


def guarded(ctx, sim, call):
    """Run call() (which hands an explicit rng to the library) and verify the two process-wide generators are untouched."""
    import dendropy.utility
    g = dendropy.utility.GLOBAL_RNG
    s_mod = random.getstate()
    s_glob = g.getstate()
    try:
        return call()
    finally:
        touched_mod = random.getstate() != s_mod
        touched_glob = g.getstate() != s_glob
        if touched_mod or touched_glob:
            # restore so that later cases do not depend on it, then report
            random.setstate(s_mod)
            g.setstate(s_glob)
            ctx.fail("explicit_rng_only", K("global_generator_touched", sim),
                     "call with rng=Random(seed) changed %s" % " and ".join(
                         n for n, f in (("random module state", touched_mod), ("dendropy.utility.GLOBAL_RNG state", touched_glob)) if f))


# A violation observed once for a case is remembered (see `sticky` below): a run-to-run difference caused by e.g.
# iteration over an id()-hashed set need not show up on every execution, and Hypothesis rejects tests that fail only
# sometimes for the same input.
OBSERVED = {}


def sticky(fn):
    def wrapped(ctx, case):
        k = runner.sha([fn.__name__, case])
        if k in OBSERVED and not ctx.replay_mode:
            ctx.fail(*OBSERVED[k])
        try:
            return fn(ctx, case)
        except runner.Violation as v:
            OBSERVED[k] = (v.clause, v.key, v.detail)
            raise
    wrapped.__name__ = fn.__name__
    return wrapped


def run_twice(ctx, sim, case, simulate, inspect):
    """simulate(rng) builds fresh arguments and calls the simulator (rng=None: no rng argument is passed);
    inspect(result) runs the per-tree oracle and returns Seen.  Returns (Seen of run 1, final state of its rng)."""
    import dendropy.utility
    seed = case["seed"]
    via_global = case["via_global"]
    r1 = random.Random(seed)
    res1 = guarded(ctx, sim, lambda: ctx.call(K("raises", sim), simulate, r1))
    seen1 = inspect(res1)
    keep = [res1]
    # a replayed case gets more repetitions (with the earlier results kept alive, so that fresh objects land at other
    # addresses): the saved case of an address-dependent difference must reproduce reliably
    for attempt in range(12 if ctx.replay_mode else 1):
        # unrelated Taxon objects allocated between the runs, so that the objects of run 2 do not sit at the same
        # relative addresses as those of run 1 (the count is a function of the case, not of the clock)
        keep.append(make_namespace(["pad"] * (1 + (seed + 5 * attempt) % 11)))
        r2 = random.Random(seed)
        res2 = guarded(ctx, sim, lambda: ctx.call(K("raises", sim), simulate, r2))
        seen2 = inspect(res2)
        keep.append(res2)
        if seen1.canon != seen2.canon:
            ctx.fail("deterministic", K("two_runs_differ", sim),
                     "two runs from random.Random(%d) with equal arguments differ; %s" % (seed, first_diff(seen1.canon, seen2.canon)))
            break
        ctx.check(r1.getstate() == r2.getstate(), "deterministic", K("rng_consumption_differs", sim),
                  "the two runs left the generator in different states")
    if via_global:
        ctx.cls("%s:default_rng_route" % sim)
        g = dendropy.utility.GLOBAL_RNG
        saved = g.getstate()
        s_mod = random.getstate()
        try:
            g.setstate(random.Random(seed).getstate())
            res3 = ctx.call(K("raises", sim), simulate, None)
            end = g.getstate()
            mod_touched = random.getstate() != s_mod
        finally:
            g.setstate(saved)
            random.setstate(s_mod)
        seen3 = inspect(res3)
        ctx.check(not mod_touched, "default_rng_is_GLOBAL_RNG", K("default_route_uses_random_module", sim),
                  "a call without rng changed the random module's state (documented default is GLOBAL_RNG)")
        ctx.check(seen3.canon == seen1.canon, "default_rng_is_GLOBAL_RNG", K("default_route_differs", sim),
                  lambda: "GLOBAL_RNG set to the state of Random(%d), call without rng: tree differs from the rng=Random(%d) "
                          "tree; %s" % (seed, seed, first_diff(seen1.canon, seen3.canon)))
        ctx.check(end == r1.getstate(), "default_rng_is_GLOBAL_RNG", K("default_route_consumption", sim),
                  "GLOBAL_RNG did not consume the same stream as the explicit generator")
    return seen1, r1


def size_class(n):
    return "2" if n == 2 else "3-5" if n <= 5 else "6-12" if n <= 12 else "13-30" if n <= 30 else "31-100" if n <= 100 else "101+"


def make_namespace(labels):
    import dendropy
    ns = dendropy.TaxonNamespace()
    for l in labels:
        ns.add_taxon(dendropy.Taxon(label=l))
    return ns


# ---------------------------------------------------------------------------
# birth-death
# ---------------------------------------------------------------------------

def bd_case(ctx, case, sim):
    import dendropy
    from dendropy.simulate import treesim
    from dendropy.model import birthdeath
    from dendropy.utility.error import TreeSimTotalExtinctionException
    fn = treesim.birth_death_tree if sim == "birth_death_tree" else birthdeath.fast_birth_death_tree
    n = case["n"]
    seed = case["seed"]
    given = {}
    flags = dict(case.get("flags") or {})
    expect_taxa = flags.get("is_assign_extant_taxa", True) is not False and flags.get("assign_taxa", True) is not False
    stop = case.get("stop") or {"kind": "num_extant_tips"}
    kind = stop["kind"]
    # keyword spelling of the stopping rule -> (kwargs, exact number of extant tips or None, upper bound or None)
    stop_kw, n_exact, n_max = {
        "num_extant_tips": ({"num_extant_tips": n}, n, n),
        "ntax": ({"ntax": n}, n, n),                                   # deprecated alias of num_extant_tips
        "num_total_tips": ({"num_total_tips": n}, None, n),             # extant + extinct == n when growth stops
        "extant+total": ({"num_extant_tips": n, "num_total_tips": stop.get("m")}, None, n),
        "num_extinct_tips": ({"num_extinct_tips": stop.get("k")}, None, None),
        "max_time": ({"max_time": stop.get("t")}, None, None),
        "extant+max_time": ({"num_extant_tips": n, "max_time": stop.get("t")}, None, n),
    }[kind]

    def simulate(rng, **extra):
        kw = dict(stop_kw)
        kw.update(flags)
        kw.update(extra)
        if kw.pop("_default_flags", False):
            for name in flags:
                kw.pop(name, None)
        if rng is not None:
            kw["rng"] = rng
        ns = kw.pop("_ns", None)
        n_tips = kw.pop("_n", None)
        if n_tips is not None:
            for name in stop_kw:
                kw.pop(name, None)
            kw["num_extant_tips"] = n_tips
        if ns is None and case["ns"] is not None:
            ns = make_namespace(case["ns"])
        if ns is not None:
            kw["taxon_namespace"] = ns
        start = None
        if case.get("via_tree"):
            start = dendropy.Tree(taxon_namespace=ns) if ns is not None else dendropy.Tree()
            kw["tree"] = start
        before = list(ns) if ns is not None else None
        st0 = namespace_state(ns)
        with warnings.catch_warnings():
            warnings.simplefilter("ignore")  # the deprecated spellings warn; that is their documented behaviour
            if case.get("rates_kw"):
                tree = fn(birth_rate=case["birth"], death_rate=case["death"], **kw)
            else:
                tree = fn(case["birth"], case["death"], **kw)
        if start is not None:
            ctx.check(tree is start, "tree_argument", K("tree_argument_not_used", sim), "the Tree passed as tree= is not the one returned")
        if ns is not None:
            # documented side effect: new taxa are appended when more are needed; the members that were there keep
            # their attributes, and so does the namespace object
            st1 = namespace_state(ns)
            k0 = len(st0["members"])
            check_unchanged(ctx, sim, "taxon_namespace", {"taxa": st0["taxa"], "self": st0["self"]},
                            {"taxa": st1["taxa"][:k0], "self": st1["self"]})
        given[id(tree)] = (ns, before)
        return tree

    def inspect(tree):
        seen = examine(ctx, sim, tree, n_exact, one_leaf_per_taxon=False, expect_taxa=expect_taxa, n_max=n_max)
        n = seen.n_leaves
        ns, before = given.get(id(tree), (None, None))
        if ns is not None:
            ctx.check(tree.taxon_namespace is ns, "supplied_namespace", K("supplied_namespace_not_used", sim),
                      "tree.taxon_namespace is not the namespace passed as taxon_namespace=")
        if not expect_taxa:
            return seen  # what happens to the namespace when no taxa are wanted is not documented
        if ns is not None:
            after = list(ns)
            ctx.check(len(after) >= len(before) and all(a is b for a, b in zip(after, before)), "supplied_namespace",
                      K("supplied_namespace_members_changed", sim),
                      lambda: "before %r after %r" % ([t.label for t in before], [t.label for t in after]))
            ctx.check(len(after) == max(len(before), n), "supplied_namespace", K("supplied_namespace_growth", sim),
                      lambda: "namespace had %d taxa, %d tips requested, now %d taxa" % (len(before), n, len(after)))
        else:
            ctx.check(len(list(tree.taxon_namespace)) == n, "taxa", K("fresh_namespace_size", sim),
                      lambda: "fresh namespace has %d taxa for %d tips" % (len(list(tree.taxon_namespace)), n))
        return seen

    seen1, r1 = run_twice(ctx, sim, case, simulate, inspect)

    # differential: the same stream without the restart option
    r3 = random.Random(seed)
    try:
        t3 = guarded(ctx, sim, lambda: ctx.call(K("raises", sim), simulate, r3, repeat_until_success=False,
                                               _allowed=(TreeSimTotalExtinctionException,)))
    except TreeSimTotalExtinctionException:
        t3 = None
    ratio = case["death"] / case["birth"]
    rc = "0" if ratio == 0 else "<0.5" if ratio < 0.5 else "0.5-0.8" if ratio < 0.8 else ">=0.8"
    if t3 is None:
        ctx.cls("%s:restart_after_extinction_taken" % sim)
        ctx.cls("%s:death_ratio %s restart" % (sim, rc))
        ctx.check(case["death"] > 0, "extinction", K("extinction_without_death", sim),
                  "TreeSimTotalExtinctionException raised with death_rate == 0")
    else:
        ctx.cls("%s:no_restart" % sim)
        ctx.cls("%s:death_ratio %s no restart" % (sim, rc))
        seen3 = inspect(t3)
        ctx.check(seen3.canon == seen1.canon and r3.getstate() == r1.getstate(), "deterministic",
                  K("repeat_until_success_changes_result", sim),
                  lambda: "no extinction happened, yet repeat_until_success=False gives another tree; %s" % first_diff(seen1.canon, seen3.canon))
    prior = case.get("prior")
    if prior and expect_taxa and case["ns"] is not None and n_max is not None and len(case["ns"]) >= max(n_max, 2):
        # the namespace is large enough not to grow: a call on a namespace object that served an earlier call must give
        # what the call on a fresh equal namespace gives
        ctx.cls("%s:reused namespace object" % sim)
        shared = make_namespace(case["ns"])
        r5 = random.Random(prior["seed"])
        t5 = guarded(ctx, sim, lambda: ctx.call(K("raises", sim), simulate, r5, _ns=shared, _n=min(prior["n"], len(case["ns"]))))
        examine(ctx, sim, t5, min(prior["n"], len(case["ns"])), one_leaf_per_taxon=False)
        r6 = random.Random(seed)
        t6 = guarded(ctx, sim, lambda: ctx.call(K("raises", sim), simulate, r6, _ns=shared))
        check_reused(ctx, sim, "a taxon namespace", seen1, r1, inspect(t6), r6)
    if flags:
        for name in sorted(flags):
            ctx.cls("%s:flag %s=%r" % (sim, name, flags[name]))
        if expect_taxa:
            # every flag that was passed is documented as ignored while extinct tips are pruned (or equals the default):
            # the same generator state without them must give the same tree
            r4 = random.Random(seed)
            t4 = guarded(ctx, sim, lambda: ctx.call(K("raises", sim), simulate, r4, _default_flags=True))
            seen4 = inspect(t4)
            ctx.check(seen4.canon == seen1.canon and r4.getstate() == r1.getstate(), "ignored_options",
                      K("ignored_option_changes_result", sim),
                      lambda: "%r changes the tree although extinct tips are pruned; %s" % (flags, first_diff(seen1.canon, seen4.canon)))
    else:
        ctx.cls("%s:flags all default" % sim)
    ctx.cls("%s:stop %s" % (sim, kind))
    ctx.cls("%s:call style %s%s" % (sim, "rates by keyword" if case.get("rates_kw") else "rates positional",
                                    ", tree= given" if case.get("via_tree") else ""))
    if n_exact is None:
        ctx.cls("%s:stop %s -> %s" % (sim, kind, "bound reached" if seen1.n_leaves == n_max else "fewer extant tips than the bound"
                                      if n_max is not None else "%s extant tips" % size_class(seen1.n_leaves) if seen1.n_leaves > 1 else "1 extant tip"))
    got = seen1.n_leaves
    ctx.cls("%s:tips %s" % (sim, size_class(got) if got > 1 else "1"))
    nsl = case["ns"]
    ctx.cls("%s:namespace %s" % (sim, "none" if nsl is None else "empty" if not nsl else "fewer" if len(nsl) < got
                                 else "exact" if len(nsl) == got else "more"))
    if seen1.n_leaves >= 3:
        ctx.nontrivial([sim, case])
    ctx.sample(sim, case)


def sc_birth_death(ctx, case):
    bd_case(ctx, case, "birth_death_tree")


def sc_fast_birth_death(ctx, case):
    bd_case(ctx, case, "fast_birth_death_tree")


# ---------------------------------------------------------------------------
# pure birth, Kingman
# ---------------------------------------------------------------------------

def ns_case(ctx, case, sim):
    from dendropy.simulate import treesim
    n = case["n"]
    seed = case["seed"]
    given = {}
    if sim == "uniform_pure_birth_tree":
        fn = treesim.uniform_pure_birth_tree
        args = {"birth_rate": case["birth"]}
    else:
        fn = getattr(treesim, sim)
        args = {"pop_size": case["pop"]}

    def simulate(rng, ns=None, value=None):
        if ns is None:
            ns = make_namespace(["T%d" % i for i in range(n)])
        kw = dict(args)
        if value is not None:
            kw[list(args)[0]] = value
        if rng is not None:
            kw["rng"] = rng
        before = list(ns)
        st0 = namespace_state(ns)
        tree = fn(taxon_namespace=ns, **kw) if case.get("kw_style") else fn(ns, **kw)
        check_unchanged(ctx, sim, "taxon_namespace", st0, namespace_state(ns))
        given[id(tree)] = (ns, before)
        return tree

    def inspect(tree):
        seen = examine(ctx, sim, tree, n, one_leaf_per_taxon=True)
        ns, before = given[id(tree)]
        ctx.check(tree.taxon_namespace is ns, "supplied_namespace", K("supplied_namespace_not_used", sim),
                  "tree.taxon_namespace is not the namespace passed in")
        after = list(ns)
        ctx.check(len(after) == len(before) and all(a is b for a, b in zip(after, before)), "supplied_namespace",
                  K("supplied_namespace_members_changed", sim), lambda: "%d taxa before, %d after" % (len(before), len(after)))
        if sim == "mean_kingman_tree":
            rt = seen.rt
            ages = sorted(seen.height - seen.depth[i] for i in rt.internals())
            want = []
            acc = 0.0
            for k in range(n, 1, -1):
                acc += float(case["pop"]) / (k * (k - 1) / 2.0)
                want.append(acc)
            ok = len(ages) == len(want) and all(abs(a - w) <= TOL * want[-1] for a, w in zip(ages, want))
            ctx.check(ok, "expected_intervals", K("mean_kingman_ages", sim),
                      lambda: "node ages %r, expected cumulated pop_size/C(k,2) %r" % (ages[:6], want[:6]))
        return seen

    seen1, r1 = run_twice(ctx, sim, case, simulate, inspect)
    prior = case.get("prior")
    if prior:
        ctx.cls("%s:reused namespace object" % sim)
        shared = make_namespace(["T%d" % i for i in range(n)])
        r5 = random.Random(prior["seed"])
        t5 = guarded(ctx, sim, lambda: ctx.call(K("raises", sim), simulate, r5, ns=shared, value=prior["value"]))
        examine(ctx, sim, t5, n, one_leaf_per_taxon=True)
        r6 = random.Random(seed)
        t6 = guarded(ctx, sim, lambda: ctx.call(K("raises", sim), simulate, r6, ns=shared))
        check_reused(ctx, sim, "a taxon namespace", seen1, r1, inspect(t6), r6)
    ctx.cls("%s:tips %s" % (sim, size_class(n)))
    if n >= 3:
        ctx.nontrivial([sim, case])
    ctx.sample(sim, case)


def sc_uniform_pure_birth(ctx, case):
    ns_case(ctx, case, "uniform_pure_birth_tree")


def sc_pure_kingman(ctx, case):
    ns_case(ctx, case, "pure_kingman_tree")


def sc_mean_kingman(ctx, case):
    ns_case(ctx, case, "mean_kingman_tree")


# ---------------------------------------------------------------------------
# coalescent inside a species tree
# ---------------------------------------------------------------------------

def species_label(i):
    return "S%d" % i


class Species(object):
    """Reference view of the species tree of a case: RefTree from the spec, exact node ages."""

    def __init__(self, spec):
        nleaves = shapes.n_leaves(spec)
        self.n = nleaves
        self.rt = RefTree.from_spec(spec, labels=[species_label(i) for i in range(nleaves)])
        rt = self.rt
        depth = {}
        for i in rt.preorder():
            depth[i] = 0.0 if i == rt.root else depth[rt.parent[i]] + rt.length[i]
        d = set(depth[i] for i in rt.leaves())
        if len(d) != 1:
            raise runner.HarnessError("generated species tree is not exactly ultrametric: %r" % sorted(d))
        h = d.pop()
        self.age = dict((i, h - depth[i]) for i in rt.nodes())
        self.leaf_of = dict((rt.taxon[i], i) for i in rt.leaves())
        self.height = h


def build_species_tree(case):
    """DendroPy species tree from the spec (lib.shapes builder); pop sizes are attached by a parallel walk over raw
    child lists (same order as the spec, since the builder appends children left to right)."""
    spec = case["sp"]
    n = shapes.n_leaves(spec)
    tree = shapes.build_tree(spec, is_rooted=True, labels=[species_label(i) for i in range(n)])
    pops = case["pops"]
    k = 0
    stack = [(spec, tree._seed_node)]
    while stack:
        s, nd = stack.pop()
        if pops[k] is not None:
            setattr(nd._edge, case.get("edge_attr") or "pop_size", pops[k])
        k += 1
        if len(s["ch"]) != len(nd._child_nodes):
            raise runner.HarnessError("species tree builder mismatch")
        for c, cn in reversed(list(zip(s["ch"], nd._child_nodes))):
            stack.append((c, cn))
    return tree, n


def containment(ctx, sim, sp, seen, species_of_label):
    """Both forms of the clause: literal pairwise (small trees) and node-wise (equivalent given monotone ages)."""
    rt = seen.rt
    tol = TOL * (1.0 + max(seen.height, sp.height))
    gage = dict((i, seen.height - seen.depth[i]) for i in rt.nodes())
    srt = sp.rt
    leaves = rt.leaves()
    sp_leaf = {}
    for i in leaves:
        s = species_of_label(rt.taxon[i])
        if s not in sp.leaf_of:
            ctx.fail("taxa", K("gene_label_unexpected", sim), "gene label %r does not name a species" % (rt.taxon[i],))
            raise runner.KnownSkip()
        sp_leaf[i] = sp.leaf_of[s]
    # node-wise: L(g) = species LCA of all species below g
    L = {}
    deep = 0
    for g in rt.postorder():
        if not rt.children[g]:
            L[g] = sp_leaf[g]
            continue
        x = L[rt.children[g][0]]
        for c in rt.children[g][1:]:
            x = srt.lca(x, L[c])
        L[g] = x
        if srt.children[x]:
            ctx.check(gage[g] >= sp.age[x] - tol, "containment", K("containment", sim),
                      lambda: "gene-tree node joining genes of species %r has age %r but those species diverged at %r" % (
                          sorted(set(srt.taxon[sp_leaf[i]] for i in rt.leaves(g)))[:6], gage[g], sp.age[x]))
        else:
            # coalescence inside one terminal species: older than that species' branch?
            par = srt.parent[x]
            if par is not None and gage[g] > sp.age[par] + tol:
                deep += 1
    if len(leaves) <= 48:
        for a in range(len(leaves)):
            for b in range(a + 1, len(leaves)):
                la, lb = leaves[a], leaves[b]
                if sp_leaf[la] == sp_leaf[lb]:
                    continue
                m = rt.lca(la, lb)
                sm = srt.lca(sp_leaf[la], sp_leaf[lb])
                ctx.check(gage[m] >= sp.age[sm] - tol, "containment", K("containment", sim),
                          lambda: "genes %r and %r join at age %r, their species diverged at %r" % (
                              rt.taxon[la], rt.taxon[lb], gage[m], sp.age[sm]))
    # classes: did lineages of one species fail to coalesce inside its own branch?
    by_species = {}
    for i in leaves:
        by_species.setdefault(sp_leaf[i], []).append(i)
    unsorted_species = 0
    multi = 0
    for s, gl in by_species.items():
        if len(gl) < 2 or srt.parent[s] is None:
            continue
        multi += 1
        m = rt.lca_of(gl)
        if gage[m] > sp.age[srt.parent[s]] + tol:
            unsorted_species += 1
    return multi, unsorted_species


def sc_contained_coalescent(ctx, case):
    import dendropy
    from dendropy.simulate import treesim
    sim = "contained_coalescent_tree"
    sp = Species(case["sp"])
    genes = case["genes"]
    if case["scalar_genes"]:
        genes = [genes[0]] * sp.n
    total = sum(genes)
    mode = case.get("gene_labels", "default")
    # gene k of the gene namespace (genes are created species by species, in namespace order) belongs to species owner[k]
    owner = [i for i in range(sp.n) for _ in range(genes[i])]
    expected_labels = ["%s %d" % (species_label(i), j + 1) for i in range(sp.n) for j in range(genes[i])]
    given = {}

    NOT_GIVEN = object()

    def build():
        sptree, n = build_species_tree(case)
        mkw = {}
        if mode == "species":
            mkw["contained_taxon_label_fn"] = lambda taxon, idx: "%s gene" % taxon.label
        elif mode == "constant":
            mkw["contained_taxon_label_fn"] = lambda taxon, idx: "gene"
        elif mode == "prefix":
            mkw["contained_taxon_label_prefix"] = "g"
        mapping = dendropy.TaxonNamespaceMapping.create_contained_taxon_mapping(
            containing_taxon_namespace=sptree.taxon_namespace,
            num_contained=genes[0] if case["scalar_genes"] else list(genes), **mkw)
        gene_ns = list(mapping.domain_taxon_namespace)
        if len(gene_ns) != total or [mapping.forward[g].label for g in gene_ns] != [species_label(i) for i in owner]:
            raise runner.HarnessError("gene namespace is not laid out species by species")
        return sptree, mapping, gene_ns

    def mapping_state(mapping):
        return {"forward": sorted((id(k), id(v)) for k, v in mapping.forward.items()),
                "reverse": sorted((id(k), tuple(sorted(id(x) for x in v))) for k, v in mapping.reverse.items()),
                "domain": namespace_state(mapping.domain_taxon_namespace), "self": obj_state(mapping)}

    def simulate(rng, args=None, default_pop=NOT_GIVEN, edge_attr=NOT_GIVEN):
        sptree, mapping, gene_ns = args if args is not None else build()
        default_pop = case["default_pop"] if default_pop is NOT_GIVEN else default_pop
        edge_attr = case.get("edge_attr", "pop_size") if edge_attr is NOT_GIVEN else edge_attr
        kw = {}
        if rng is not None:
            kw["rng"] = rng
        if default_pop != 1:
            kw["default_pop_size"] = default_pop
        if edge_attr != "pop_size":
            kw["edge_pop_size_attr"] = edge_attr
        st0 = (tree_state(sptree), mapping_state(mapping))
        if case.get("kw_style"):
            tree = treesim.contained_coalescent_tree(containing_tree=sptree, gene_to_containing_taxon_map=mapping, **kw)
        else:
            tree = treesim.contained_coalescent_tree(sptree, mapping, **kw)
        # no side effect on the containing tree or the mapping is documented
        check_unchanged(ctx, sim, "containing_tree", st0[0], tree_state(sptree))
        check_unchanged(ctx, sim, "gene_to_containing_taxon_map", st0[1], mapping_state(mapping))
        given[id(tree)] = (mapping, sptree, dict((id(t), k) for k, t in enumerate(gene_ns)), gene_ns)
        return tree

    def inspect(tree):
        index = given[id(tree)][2]
        # a tip is identified by the POSITION of its taxon in the gene namespace (labels may be shared on purpose)
        seen = examine(ctx, sim, tree, total, one_leaf_per_taxon=True, distinct_labels=(mode in ("default", "prefix")),
                       taxon_key=lambda t: "g%d" % index[id(t)] if id(t) in index else "?%s" % (t.label,))
        if mode == "default":
            got = sorted(seen.rt.obj[i].taxon.label for i in seen.rt.leaves())
            ctx.check(got == sorted(expected_labels), "taxa", K("gene_labels", sim),
                      lambda: "leaf labels %r, expected %r" % (got[:6], sorted(expected_labels)[:6]))
        multi, uns = containment(ctx, sim, sp, seen,
                                 lambda key: species_label(owner[int(key[1:])]) if str(key).startswith("g") else None)
        seen.multi, seen.unsorted = multi, uns
        return seen

    seen1, r1 = run_twice(ctx, sim, case, simulate, inspect)
    prior = case.get("prior")
    if prior:
        # history on ONE containing tree + mapping: a gene tree under other population-size settings first, then the
        # call of this case; judged against the call on freshly built equal arguments (run 1)
        shared = build()
        r5 = random.Random(prior["seed"])
        t5 = guarded(ctx, sim, lambda: ctx.call(K("raises", sim), simulate, r5, args=shared,
                                               default_pop=prior["default_pop"], edge_attr=prior["edge_attr"]))
        inspect(t5)
        r6 = random.Random(case["seed"])
        t6 = guarded(ctx, sim, lambda: ctx.call(K("raises", sim), simulate, r6, args=shared))
        check_reused(ctx, sim, "a containing tree and mapping", seen1, r1, inspect(t6), r6)
        ctx.cls("%s:reused containing tree (earlier call with %s default_pop_size, %s size attribute)" % (
            sim, "another" if prior["default_pop"] != case["default_pop"] else "the same",
            "another" if prior["edge_attr"] != case.get("edge_attr", "pop_size") else "the same"))
    missing = sum(1 for x in case["pops"] if x is None)
    ctx.cls("%s:edge sizes %s" % (sim, "edge_pop_size_attr=None" if case.get("edge_attr", "pop_size") is None else
                                  "on every edge" if not missing else "on no edge" if missing == len(case["pops"]) else "on some edges"))
    ctx.cls("%s:gene labels %s" % (sim, {"default": "unique", "prefix": "unique (prefix argument)", "species": "shared within a species",
                                        "constant": "one label for all genes"}[mode]))
    coalescent_classes(ctx, sim, case, seen1, total)


def coalescent_classes(ctx, sim, case, seen, total):
    if seen.multi:
        ctx.cls("%s:%s" % (sim, "some species' genes coalesce above its branch (deep coalescence)" if seen.unsorted
                           else "every species' genes coalesce inside its branch"))
    else:
        ctx.cls("%s:no species with >= 2 genes" % sim)
    ctx.cls("%s:tips %s" % (sim, size_class(total)))
    ctx.cls("%s:species %s" % (sim, size_class(shapes.n_leaves(case["sp"]))))
    if total >= 3:
        ctx.nontrivial([sim, case])
    ctx.sample(sim, case)


def sc_constrained_kingman(ctx, case):
    from dendropy.simulate import treesim
    sim = "constrained_kingman_tree"
    sp = Species(case["sp"])
    strategy = case["strategy"]
    if strategy == "random_uniform":
        total = case["num_genes"] if case["num_genes"] is not None else sp.n
        per_species = None
    elif strategy == "fixed_per_population":
        per_species = [case["num_genes"]] * sp.n
        total = sum(per_species)
    else:
        per_species = list(case["leaf_genes"])
        total = sum(per_species)

    def build():
        sptree, n = build_species_tree(case)
        if strategy == "node_attribute":
            # leaves of the species tree found through raw links; leaf with taxon index i gets leaf_genes[i]
            stack = [sptree._seed_node]
            while stack:
                nd = stack.pop()
                if not nd._child_nodes:
                    nd.num_genes = case["leaf_genes"][int(nd.taxon.label[1:])]
                stack.extend(nd._child_nodes)
        return sptree

    def simulate(rng, sptree=None, other=None):
        if sptree is None:
            sptree = build()
        o = other or {}
        kw = {"gene_sampling_strategy": o.get("strategy", strategy)}
        if rng is not None:
            kw["rng"] = rng
        num_genes = o["num_genes"] if other else case["num_genes"]
        if num_genes is not None:
            kw["num_genes"] = num_genes
        edge_attr = o.get("edge_attr", case.get("edge_attr", "pop_size"))
        if edge_attr != "pop_size":
            kw["pop_size_attr"] = edge_attr
        if case["decorate"] and not other:
            kw["decorate_original_tree"] = True
        st0 = tree_state(sptree)
        if case.get("kw_style"):
            res = treesim.constrained_kingman_tree(pop_tree=sptree, **kw)
        else:
            res = treesim.constrained_kingman_tree(sptree, **kw)
        # documented: with decorate_original_tree the uncoalesced gene nodes are attached to the nodes of the input tree
        # as 'gene_nodes'; otherwise they go to a copy.  Nothing else about the input tree may change.
        check_unchanged(ctx, sim, "pop_tree", st0, tree_state(sptree),
                        allowed_new=("gene_nodes",) if kw.get("decorate_original_tree") else ())
        return res

    def inspect(res):
        ctx.check(isinstance(res, tuple) and len(res) == 2, "returns_tree", K("returns_pair", sim), repr(res)[:200])
        tree = res[0]
        seen = examine(ctx, sim, tree, total, one_leaf_per_taxon=True)
        rt = seen.rt
        if per_species is not None:
            want = set("%s_%02d" % (species_label(i), j + 1) for i in range(sp.n) for j in range(per_species[i]))
            got = set(rt.taxon[i] for i in rt.leaves())
            ctx.check(got == want, "taxa", K("gene_labels", sim),
                      lambda: "unexpected %r missing %r" % (sorted(got - want)[:5], sorted(want - got)[:5]))
        multi, uns = containment(ctx, sim, sp, seen, lambda lab: str(lab).rsplit("_", 1)[0])
        seen.multi, seen.unsorted = multi, uns
        return seen

    seen1, r1 = run_twice(ctx, sim, case, simulate, inspect)
    prior = case.get("prior")
    if prior and not case["decorate"]:
        ctx.cls("%s:reused population tree" % sim)
        shared = build()
        r5 = random.Random(prior["seed"])
        res5 = guarded(ctx, sim, lambda: ctx.call(K("raises", sim), simulate, r5, sptree=shared, other=prior))
        ctx.check(isinstance(res5, tuple) and len(res5) == 2, "returns_tree", K("returns_pair", sim), repr(res5)[:200])
        examine(ctx, sim, res5[0], prior["num_genes"] * (sp.n if prior["strategy"] == "fixed_per_population" else 1),
                one_leaf_per_taxon=True)
        r6 = random.Random(case["seed"])
        res6 = guarded(ctx, sim, lambda: ctx.call(K("raises", sim), simulate, r6, sptree=shared))
        check_reused(ctx, sim, "a population tree", seen1, r1, inspect(res6), r6)
    ctx.cls("%s:strategy %s%s" % (sim, strategy, " decorate_original_tree" if case["decorate"] else ""))
    coalescent_classes(ctx, sim, case, seen1, total)


SUBCHECKS = {
    "birth_death_tree": sticky(sc_birth_death),
    "fast_birth_death_tree": sticky(sc_fast_birth_death),
    "uniform_pure_birth_tree": sticky(sc_uniform_pure_birth),
    "pure_kingman_tree": sticky(sc_pure_kingman),
    "mean_kingman_tree": sticky(sc_mean_kingman),
    "contained_coalescent_tree": sticky(sc_contained_coalescent),
    "constrained_kingman_tree": sticky(sc_constrained_kingman),
}


def run(ctx):
    quick = ctx.tier == "quick"
    max_n = 30 if quick else 300
    max_species = 10 if quick else 75
    # (strategy, total examples quick, total examples thorough).  Measured: quick = 10 200 cases, ~100 s CPU over 8 shards
    # (13 s wall on idle cores, 30-50 s at load average 50); thorough = 80 000 cases, 55 min CPU over 16 shards.
    plan = [
        ("birth_death_tree", bd_cases(max_n), 2000, 12000),
        ("fast_birth_death_tree", bd_cases(max_n), 2000, 24000),
        ("uniform_pure_birth_tree", pb_cases(max_n), 1200, 8000),
        ("pure_kingman_tree", kingman_cases(max_n), 1200, 8000),
        ("mean_kingman_tree", kingman_cases(max_n), 600, 4000),
        ("contained_coalescent_tree", contained_cases(max_species), 1600, 12000),
        ("constrained_kingman_tree", constrained_cases(max_species), 1600, 12000),
    ]
    for name, strat, nq, nt in plan:
        total = nq if quick else nt
        runner.run_given(ctx, name, strat, SUBCHECKS[name], max(1, total // ctx.nshards))
