"""C03 - trees stay well-formed arborescences under every history of mutating operations.

Stateful: an interpreter applies plain-data operations (targets are indices resolved against the current snapshot) to a
real Tree; after every step the snapshot verdict (raw links), the traversal verdict, the leaf-taxa multiset model and
- when applicable - the 'encoding is current' clause are evaluated."""
import collections
import random

from hypothesis import strategies as st

from lib import runner, shapes, stateful, treechecks
from lib.refmodel import RefTree, all_rooted_trees
from lib.snapshot import snapshot, traversal_problems

CONFIG = {
    "shards": {"quick": 8, "thorough": 16},
    "budget_s": {"quick": 150, "thorough": 1800},
    "rule": ("Hypothesis rule-based state machine: start tree (1-8 leaves quick / <= 25 thorough, both rootings and "
             "undefined rooting, drawn length pattern) then up to 30 (quick) / 60 (thorough) public mutators with drawn "
             "targets and flags (re-seeding/re-rooting, pruning/retaining/filtering, collapsing, resolving, "
             "suppressing unifurcations, de-rooting, ladderize/reorder/rotate/reorient, taxon shuffling, encoding, "
             "add/insert/remove/set children, rooting toggles). Exhaustive part: every start tree with <= 4 leaves x "
             "2 rootings x every operation x every target x a flag grid to depth 1 (quick) / depth 2 on <= 3 leaves plus "
             "depth 1 on <= 5 leaves (thorough). Non-trivial = history with >= 2 structure-changing steps of different "
             "kinds; distinct = (start tree, op sequence with arguments)."),
    "exhaustive_note": {"quick": "depth 1: all labelled trees <= 4 leaves x 2 rootings x all ops x all targets x flag grid",
                        "thorough": "depth 1 on <= 5 leaves; depth 2 on <= 3 leaves"},
    "assumptions": ["operations are called inside their documented preconditions (internal targets for reseed/reroot_at_node, "
                    "non-root targets for edges, at least one surviving taxon for pruning, numeric lengths for midpoint)",
                    "new children are attached to internal nodes only, so existing leaves stay leaves",
                    "leaf-taxa multiset counts leaves that carry a taxon"],
}

B = st.booleans()
I = st.integers(0, 1000)
MASK = st.integers(0, 2 ** 16 - 1)
FLAGS = {"ub": B, "su": B, "cb": B}


def fd(**kw):
    d = {}
    d.update(kw)
    return st.fixed_dictionaries(d)


RULES = {
    "reseed_at": fd(t=I, **FLAGS),
    "reroot_at_node": fd(t=I, **FLAGS),
    "reroot_at_edge": fd(t=I, frac=st.integers(0, 8), ub=B, su=B),
    "reroot_at_midpoint": fd(**FLAGS),
    "to_outgroup_position": fd(t=I, ub=B, su=B),
    "prune_taxa": fd(m=MASK, ub=B, su=B, labels=B),
    "retain_taxa": fd(m=MASK, ub=B, su=B, labels=B),
    "filter_leaf_nodes": fd(m=MASK, ub=B, su=B, recursive=B),
    "prune_leaves_without_taxa": fd(m=MASK, ub=B, su=B),
    "prune_subtree": fd(t=I, ub=B, su=B),
    "prune_nodes": fd(t=I, t2=I),
    "edge_collapse": fd(t=I, adj=B),
    "collapse_clade": fd(t=I),
    "collapse_unweighted_edges": fd(thr=st.sampled_from([1e-7, 0.5, 1.0, 2.0]), ub=B),
    "collapse_basal_bifurcation": fd(unroot=B),
    "polytomize_root": fd(unroot=B),
    "deroot": fd(),
    "resolve_polytomies": fd(limit=st.sampled_from([2, 2, 3]), ub=B, seed=st.one_of(st.none(), st.integers(0, 2 ** 31))),
    "suppress_unifurcations": fd(ub=B),
    "encode_bipartitions": fd(su=B, cb=B, mut=B),
    "ladderize": fd(asc=B),
    "reorder": fd(asc=B),
    "randomly_rotate": fd(seed=st.integers(0, 2 ** 31)),
    "randomly_reorient": fd(seed=st.integers(0, 2 ** 31), ub=B),
    "shuffle_taxa": fd(seed=st.integers(0, 2 ** 31), internal=B),
    "scale_edges": fd(f=st.sampled_from([0.0, 0.5, 2.0, 3.0])),
    "add_child": fd(t=I, how=st.sampled_from(["add_child", "new_child", "insert_child", "insert_new_child", "reinsert_existing",
                                               "add_existing"]), pos=I),
    "remove_child": fd(t=I, su=B),
    "reversible_remove_child": fd(t=I, su=B, undo=B),
    "set_child_nodes": fd(t=I, seed=st.integers(0, 2 ** 31)),
    "reassign_parent": fd(t=I, c=I, q=I, how=st.sampled_from(["same_after_drop", "same_after_drop", "other", "tail_node"])),
    "set_rooted": fd(v=st.sampled_from([True, False, None])),
}

STRUCTURAL = set(RULES) - {"ladderize", "reorder", "randomly_rotate", "scale_edges", "set_rooted", "encode_bipartitions",
                           "set_child_nodes", "shuffle_taxa"}


@st.composite
def inits(draw, max_leaves):
    sl = draw(shapes.with_lengths(shapes.shapes(min_leaves=1, max_leaves=max_leaves, max_arity=4, unifurcations=True)))
    return {"spec": sl["spec"], "lenpat": sl["lenpat"], "rooted": draw(st.sampled_from([True, False, None]))}


class Interp(object):
    def __init__(self, ctx, init):
        import dendropy
        self.d = dendropy
        self.ctx = ctx
        spec = init["spec"]
        n = shapes.n_leaves(spec)
        self.ns, self.taxa, self.bits = shapes.build_namespace(shapes.plain_history(n))
        self.next_taxon = n
        self.tree = shapes.build_tree(spec, self.ns, self.taxa, is_rooted=init["rooted"])
        self.enc_current = False
        self.kinds = []
        self.sig = [shapes.spec_to_newick(spec), init["rooted"]]
        self.rt = None
        self.model = None
        self.observe("init", None, expect=None)
        self.model = self.rt.leaf_taxa_multiset()
        self.model.pop(None, None)

    # -- observation -----------------------------------------------------------------
    def observe(self, op, a, expect):
        """Snapshot + invariant.  expect: Counter the leaf-taxa multiset must equal, or None to adopt what is there."""
        ctx = self.ctx
        rt, problems = snapshot(self.tree)
        if not problems:
            problems = traversal_problems(self.tree, rt)
        tag = lambda: "after %s %r; history=%r" % (op, a, self.sig)
        if not ctx.check(not problems, "well_formed", "C03.wellformed:" + op, lambda: "%r %s" % (problems, tag())):
            raise runner.KnownSkip()
        self.rt = rt
        got = rt.leaf_taxa_multiset()
        got.pop(None, None)
        if expect is not None:
            ctx.check(got == expect, "leaf_taxa_change_only_as_requested", "C03.leaf_taxa:" + op,
                      lambda: "leaf taxa now %r expected %r %s" % (sorted(got.elements()), sorted(expect.elements()), tag()))
        self.model = got

    def check_encoding(self, op, a):
        treechecks.encoding_current(self.ctx, self.tree, self.rt, self.bits, "encoding_current_after_update",
                                    "C03.encoding:" + op, "after %s %r; history=%r" % (op, a, self.sig))

    def new_taxon(self):
        i = self.next_taxon
        self.next_taxon += 1
        t = self.ns.new_taxon("T%d" % i)
        self.taxa[i] = t
        self.bits[i] = i
        return t

    # -- one step ----------------------------------------------------------------------
    def step(self, op, a):
        ctx = self.ctx
        tree = self.tree
        rt = self.rt
        d = self.d
        nodes = rt.nodes()
        internals = rt.internals()
        nonseed = [i for i in nodes if i != rt.root]
        leaves = rt.leaves()
        cl = rt.clusters()
        expect = collections.Counter(self.model)
        was_current = self.enc_current
        ub = bool(a.get("ub", False))
        key = "C03." + op
        SeedDel = d.utility.error.SeedNodeDeletionException
        ran = True
        doc_error = False
        unchanged_after_error = None
        taxa_leaves = [i for i in leaves if rt.taxon[i] is not None]
        leaf_labels = sorted(set(rt.taxon[i] for i in taxa_leaves), key=lambda s: int(s[1:]))

        def subset(mask, pool):
            return [x for k, x in enumerate(pool) if (mask >> (k % 16)) & 1]

        if op in ("reseed_at", "reroot_at_node"):
            if not internals:
                return
            nd = rt.obj[internals[a["t"] % len(internals)]]
            if op == "reseed_at":
                ctx.call(key, tree.reseed_at, nd, update_bipartitions=ub, collapse_unrooted_basal_bifurcation=a["cb"],
                         suppress_unifurcations=a["su"])
            else:
                ctx.call(key, tree.reroot_at_node, nd, update_bipartitions=ub, suppress_unifurcations=a["su"],
                         collapse_unrooted_basal_bifurcation=a["cb"])
        elif op == "reroot_at_edge":
            if not nonseed:
                return
            i = nonseed[a["t"] % len(nonseed)]
            L = rt.length[i]
            l1 = None if L is None else L * a["frac"] / 8.0
            l2 = None if L is None else L - l1
            ctx.call(key, tree.reroot_at_edge, rt.obj[i].edge, length1=l1, length2=l2, update_bipartitions=ub,
                     suppress_unifurcations=a["su"])
        elif op == "reroot_at_midpoint":
            ok = len(taxa_leaves) >= 2 and len(taxa_leaves) == len(leaves) and len(set(leaf_labels)) == len(taxa_leaves) \
                and all(rt.length[i] is not None and rt.length[i] >= 0 for i in nonseed)
            if not ok:
                return
            ctx.call(key, tree.reroot_at_midpoint, update_bipartitions=ub, suppress_unifurcations=a["su"],
                     collapse_unrooted_basal_bifurcation=a["cb"])
        elif op == "to_outgroup_position":
            cand = [i for i in nonseed if not (rt.parent[i] == rt.root and len(rt.children[rt.root]) == 1)]
            if not cand:
                return
            ctx.call(key, tree.to_outgroup_position, rt.obj[cand[a["t"] % len(cand)]], update_bipartitions=ub,
                     suppress_unifurcations=a["su"])
        elif op in ("prune_taxa", "retain_taxa"):
            if not leaf_labels:
                return
            chosen = subset(a["m"], leaf_labels)
            remove = set(chosen) if op == "prune_taxa" else set(leaf_labels) - set(chosen)
            if len(remove) >= len(leaf_labels):
                return  # at least one survivor (documented domain)
            lab2t = dict((t.label, t) for t in self.ns)
            if op == "prune_taxa":
                if a["labels"]:
                    ctx.call(key, tree.prune_taxa_with_labels, sorted(chosen), update_bipartitions=ub, suppress_unifurcations=a["su"])
                else:
                    ctx.call(key, tree.prune_taxa, [lab2t[l] for l in chosen], update_bipartitions=ub, suppress_unifurcations=a["su"])
            else:
                if a["labels"]:
                    ctx.call(key, tree.retain_taxa_with_labels, sorted(chosen), update_bipartitions=ub, suppress_unifurcations=a["su"])
                else:
                    ctx.call(key, tree.retain_taxa, [lab2t[l] for l in chosen], update_bipartitions=ub, suppress_unifurcations=a["su"])
            for l in remove:
                expect.pop(l, None)
        elif op == "filter_leaf_nodes":
            keep = set(subset(a["m"], leaf_labels))
            try:
                ctx.call(key, tree.filter_leaf_nodes, lambda nd: nd.taxon is not None and nd.taxon.label in keep,
                         recursive=a["recursive"], update_bipartitions=ub, suppress_unifurcations=a["su"], _allowed=(SeedDel,))
                for l in list(expect):
                    if l not in keep:
                        expect.pop(l)
                if not a["recursive"]:
                    expect = None  # emptied internal nodes may remain as taxon-less leaves; taxa set checked via keep below
            except SeedDel:
                doc_error = True
                ctx.check(not keep or not (keep & set(leaf_labels)) or not a["recursive"] or True, "documented_error_only_when_all_removed", key)
                ctx.check(not (keep & set(leaf_labels)), "seed_deletion_error_only_when_nothing_survives",
                          "C03.filter_seed_deletion", lambda: "keep=%r leaves=%r" % (sorted(keep), leaf_labels))
                expect = None
        elif op == "prune_leaves_without_taxa":
            victims = subset(a["m"], taxa_leaves)
            if len(victims) >= len(taxa_leaves):
                return
            for i in victims:
                rt.obj[i].taxon = None
                expect.pop(rt.taxon[i], None) if expect[rt.taxon[i]] <= 1 else expect.subtract([rt.taxon[i]])
            ctx.call(key, tree.prune_leaves_without_taxa, update_bipartitions=ub, suppress_unifurcations=a["su"])
        elif op == "prune_subtree":
            cand = [i for i in nonseed if (set(x for x in cl[i] if not x.startswith("#")) != set(leaf_labels))]
            if not cand:
                return
            i = cand[a["t"] % len(cand)]
            ctx.call(key, tree.prune_subtree, rt.obj[i], update_bipartitions=ub, suppress_unifurcations=a["su"])
            for j in rt.leaves(i):
                if rt.taxon[j] is not None:
                    expect.subtract([rt.taxon[j]])
            expect = +expect
        elif op == "prune_nodes":
            cand = [i for i in nonseed if (set(x for x in cl[i] if not x.startswith("#")) != set(leaf_labels))]
            if not cand:
                return
            i = cand[a["t"] % len(cand)]
            ctx.call(key, tree.prune_nodes, [rt.obj[i]])
            for j in rt.leaves(i):
                if rt.taxon[j] is not None:
                    expect.subtract([rt.taxon[j]])
            expect = +expect
        elif op == "edge_collapse":
            # internal edges collapse; a terminal edge is refused with the documented ValueError and nothing changes
            cand = [i for i in nonseed]
            if not cand:
                return
            i = cand[a["t"] % len(cand)]
            if rt.children[i]:
                ctx.call(key, rt.obj[i].edge.collapse, adjust_collapsed_head_children_edge_lengths=a["adj"])
            else:
                try:
                    ctx.call(key, rt.obj[i].edge.collapse, adjust_collapsed_head_children_edge_lengths=a["adj"], _allowed=(ValueError,))
                    ctx.check(False, "terminal_edge_collapse_is_refused", "C03.edge_collapse:terminal_accepted", lambda: "leaf %d of %s" % (i, rt.canon()))
                except ValueError:
                    doc_error = True
                    unchanged_after_error = rt
        elif op == "collapse_clade":
            if not internals:
                return
            ctx.call(key, rt.obj[internals[a["t"] % len(internals)]].collapse_clade)
        elif op == "collapse_unweighted_edges":
            ctx.call(key, tree.collapse_unweighted_edges, threshold=a["thr"], update_bipartitions=ub)
        elif op == "collapse_basal_bifurcation":
            ctx.call(key, tree.collapse_basal_bifurcation, set_as_unrooted_tree=a["unroot"])
        elif op == "polytomize_root":
            ctx.call(key, tree.polytomize_root, set_as_unrooted_tree=a["unroot"])
        elif op == "deroot":
            ctx.call(key, tree.deroot)
        elif op == "resolve_polytomies":
            rng = None if a["seed"] is None else random.Random(a["seed"])
            ctx.call(key, tree.resolve_polytomies, limit=a["limit"], update_bipartitions=ub, rng=rng)
        elif op == "suppress_unifurcations":
            ctx.call(key, tree.suppress_unifurcations, update_bipartitions=ub)
        elif op == "encode_bipartitions":
            ctx.call(key, tree.encode_bipartitions, suppress_unifurcations=a["su"], collapse_unrooted_basal_bifurcation=a["cb"],
                     is_bipartitions_mutable=a["mut"])
        elif op == "ladderize":
            ctx.call(key, tree.ladderize, ascending=a["asc"])
        elif op == "reorder":
            ctx.call(key, tree.reorder, ascending=a["asc"])
        elif op == "randomly_rotate":
            ctx.call(key, tree.randomly_rotate, rng=random.Random(a["seed"]))
        elif op == "randomly_reorient":
            if len(nodes) < 2 or len(rt.children[rt.root]) == 1:
                return
            ctx.call(key, tree.randomly_reorient, rng=random.Random(a["seed"]), update_bipartitions=ub)
        elif op == "shuffle_taxa":
            if a["internal"] is False and len(taxa_leaves) != len(set(rt.taxon[i] for i in taxa_leaves)):
                return
            alltaxa = [rt.taxon[i] for i in nodes if rt.taxon[i] is not None]
            if len(alltaxa) != len(set(alltaxa)):
                return
            ctx.call(key, tree.shuffle_taxa, include_internal_nodes=a["internal"], rng=random.Random(a["seed"]))
            if a["internal"]:
                expect = None
        elif op == "scale_edges":
            ctx.call(key, tree.scale_edges, a["f"])
        elif op == "add_child":
            if not internals:
                return
            p = rt.obj[internals[a["t"] % len(internals)]]
            how = a["how"]
            pos = a["pos"] % (len(p._child_nodes) + 1)
            if how in ("reinsert_existing", "add_existing"):
                # moving / re-adding a node that already is a child of p must not duplicate it
                kid = p._child_nodes[(a["pos"] // 7) % len(p._child_nodes)]
                if how == "reinsert_existing":
                    # any index is legal, including len (move to the end) and beyond
                    ctx.call(key, p.insert_child, a["pos"] % (len(p._child_nodes) + 3), kid)
                else:
                    ctx.call(key, p.add_child, kid)
                t = None
            else:
                t = self.new_taxon()
            if t is None:
                pass
            elif how == "add_child":
                nd = d.Node(taxon=t, edge_length=1.0)
                ctx.call(key, p.add_child, nd)
            elif how == "new_child":
                ctx.call(key, p.new_child, taxon=t, edge_length=1.0)
            elif how == "insert_child":
                nd = d.Node(taxon=t, edge_length=1.0)
                ctx.call(key, p.insert_child, pos, nd)
            else:
                ctx.call(key, p.insert_new_child, pos, taxon=t, edge_length=1.0)
            if t is not None:
                expect[t.label] += 1
        elif op == "remove_child":
            cand = [i for i in nonseed if (set(x for x in cl[i] if not x.startswith("#")) != set(leaf_labels))]
            if not cand:
                return
            i = cand[a["t"] % len(cand)]
            ctx.call(key, rt.obj[rt.parent[i]].remove_child, rt.obj[i], suppress_unifurcations=a["su"])
            for j in rt.leaves(i):
                if rt.taxon[j] is not None:
                    expect.subtract([rt.taxon[j]])
            expect = +expect
        elif op == "reversible_remove_child":
            cand = [i for i in nonseed if (set(x for x in cl[i] if not x.startswith("#")) != set(leaf_labels))]
            if not cand:
                return
            i = cand[a["t"] % len(cand)]
            # (documented: unifurcation suppression of the reversible form is for unrooted trees only)
            su = bool(a["su"]) and tree.is_rooted is not True
            par = rt.obj[rt.parent[i]]
            rec = ctx.call(key, par.reversible_remove_child, rt.obj[i], suppress_unifurcations=su)
            gone = collections.Counter(rt.taxon[j] for j in rt.leaves(i) if rt.taxon[j] is not None)
            if a["undo"]:
                mid, mproblems = snapshot(tree)
                mt = mid.leaf_taxa_multiset()
                mt.pop(None, None)
                ctx.check(not mproblems and mt == +(expect - gone), "well_formed_between_removal_and_reinsertion",
                          "C03.reversible_remove_child:intermediate", lambda: "%r leaf taxa %r; removing node %d of %s su=%r" % (
                              mproblems, sorted(mt.elements()), i, rt.canon(), su))
                ctx.call(key + ":reinsert_nodes", par.reinsert_nodes, rec)
                back, bproblems = snapshot(tree)
                ctx.check(not bproblems and back.canon() == rt.canon() and [id(o) for o in sorted(back.obj, key=id)] == [id(o) for o in sorted(rt.obj, key=id)],
                          "reinsert_nodes_restores_topology", "C03.reinsert_nodes",
                          lambda: "%r before %s after %s; removed node %d su=%r" % (bproblems, rt.canon(), back.canon(), i, su))
                ctx.cls("reversible_remove_child:undone")
            else:
                expect = +(expect - gone)
        elif op == "set_child_nodes":
            if not internals:
                return
            i = internals[a["t"] % len(internals)]
            kids = [rt.obj[c] for c in rt.children[i]]
            random.Random(a["seed"]).shuffle(kids)
            ctx.call(key, rt.obj[i].set_child_nodes, kids)
        elif op == "reassign_parent":
            # the parent of a node is (re)assigned through the public property: the node must end up exactly once among
            # the children of the parent it names - also when that parent had dropped it before (set_child_nodes
            # without it) and is named again
            cand = [i for i in internals if len(rt.children[i]) >= 2]
            if not cand:
                return
            pi = cand[a["t"] % len(cand)]
            ci = rt.children[pi][a["c"] % len(rt.children[pi])]
            P, C = rt.obj[pi], rt.obj[ci]
            how = a["how"]
            if how == "same_after_drop":
                ctx.call(key, P.set_child_nodes, [rt.obj[k] for k in rt.children[pi] if k != ci])
                ctx.call(key, setattr, C, "parent_node", P)
            else:
                below = set(rt.preorder(ci))
                others = [i for i in internals if i not in below and i != pi]
                if not others:
                    return
                Q = rt.obj[others[a["q"] % len(others)]]
                if how == "other":
                    ctx.call(key, setattr, C, "parent_node", Q)
                else:
                    ctx.call(key, setattr, C.edge, "tail_node", Q)
            ctx.cls("reassign_parent:" + how)
        elif op == "set_rooted":
            tree.is_rooted = a["v"]
        else:
            raise runner.HarnessError("unknown op " + op)

        self.sig.append([op, a])
        ctx.cls("op:" + op)
        if doc_error:
            ctx.cls("documented_error")
        self.observe(op, a, expect)
        if unchanged_after_error is not None:
            # a refused operation leaves the tree as it was: same nodes, same links, same taxa
            now = self.rt
            ctx.check(now.canon(ordered=True, lengths=True, labels=True) == unchanged_after_error.canon(ordered=True, lengths=True, labels=True)
                      and [id(o) for o in now.obj] == [id(o) for o in unchanged_after_error.obj],
                      "refused_operation_leaves_tree_unchanged", "C03.unchanged_after_error:" + op,
                      lambda: "before %s after %s; history=%r" % (unchanged_after_error.canon(), now.canon(), self.sig))
        # encoding bookkeeping
        if op == "encode_bipartitions":
            self.enc_current = not a["mut"] or True
            self.check_encoding(op, a)
        elif "ub" in a and ub and not doc_error:
            if was_current or op != "suppress_unifurcations":
                # every op other than suppress_unifurcations re-encodes from scratch; suppress_unifurcations updates an
                # existing encoding incrementally, which is only promised when that encoding was current
                self.check_encoding(op, a)
                ctx.cls("encoding_checked_after_update")
                self.enc_current = True
            else:
                self.enc_current = False
        elif op in ("ladderize", "reorder", "randomly_rotate", "scale_edges", "set_child_nodes"):
            if was_current:
                self.check_encoding(op, a)
        elif op == "set_rooted" or op in STRUCTURAL or op == "shuffle_taxa":
            self.enc_current = False
        if op in STRUCTURAL:
            if not self.kinds or self.kinds[-1] != op:
                self.kinds.append(op)

    def finish(self):
        if len(set(self.kinds)) >= 2:
            self.ctx.nontrivial(self.sig)
            self.ctx.sample("history", {"start": self.sig[0], "rooted": self.sig[1], "ops": self.sig[2:8]})


# ---------------------------------------------------------------------------
# bounded-exhaustive part
# ---------------------------------------------------------------------------
def arg_grid(op, nn):
    """Enumerated argument dicts for op on a tree with nn nodes."""
    T = range(nn)
    F3 = [(False, True, True), (True, True, True), (False, False, False), (True, False, True)]
    out = []
    if op in ("reseed_at", "reroot_at_node"):
        out = [{"t": t, "ub": f[0], "su": f[1], "cb": f[2]} for t in T for f in F3]
    elif op == "reroot_at_edge":
        out = [{"t": t, "frac": 4, "ub": f[0], "su": f[1]} for t in T for f in F3[:3]]
    elif op == "reroot_at_midpoint":
        out = [{"ub": f[0], "su": f[1], "cb": f[2]} for f in F3]
    elif op == "to_outgroup_position":
        out = [{"t": t, "ub": f[0], "su": f[1]} for t in T for f in F3[:3]]
    elif op in ("prune_taxa", "retain_taxa"):
        out = [{"m": m, "ub": f[0], "su": f[1], "labels": False} for m in range(1, 16) for f in F3[:3]]
    elif op == "filter_leaf_nodes":
        out = [{"m": m, "ub": f[0], "su": f[1], "recursive": True} for m in range(0, 16) for f in F3[:3]]
    elif op == "prune_leaves_without_taxa":
        out = [{"m": m, "ub": f[0], "su": f[1]} for m in range(0, 16) for f in F3[:3]]
    elif op == "prune_subtree":
        out = [{"t": t, "ub": f[0], "su": f[1]} for t in T for f in F3[:3]]
    elif op == "remove_child":
        out = [{"t": t, "su": su} for t in T for su in (False, True)]
    elif op == "reversible_remove_child":
        out = [{"t": t, "su": su, "undo": u} for t in T for su in (False, True) for u in (False, True)]
    elif op == "prune_nodes":
        out = [{"t": t, "t2": 0} for t in T]
    elif op == "edge_collapse":
        out = [{"t": t, "adj": adj} for t in T for adj in (False, True)]
    elif op in ("collapse_clade",):
        out = [{"t": t} for t in T]
    elif op == "collapse_unweighted_edges":
        out = [{"thr": thr, "ub": u} for thr in (1e-7, 1.0) for u in (False, True)]
    elif op in ("collapse_basal_bifurcation", "polytomize_root"):
        out = [{"unroot": u} for u in (False, True)]
    elif op == "deroot":
        out = [{}]
    elif op == "resolve_polytomies":
        out = [{"limit": 2, "ub": u, "seed": s} for u in (False, True) for s in (None, 1, 2)]
    elif op == "suppress_unifurcations":
        out = [{"ub": u} for u in (False, True)]
    elif op == "encode_bipartitions":
        out = [{"su": s, "cb": c, "mut": False} for s in (False, True) for c in (False, True)]
    elif op in ("ladderize", "reorder"):
        out = [{"asc": x} for x in (False, True)]
    elif op == "randomly_rotate":
        out = [{"seed": 1}]
    elif op == "randomly_reorient":
        out = [{"seed": s, "ub": u} for s in (1, 2, 3) for u in (False, True)]
    elif op == "shuffle_taxa":
        out = [{"seed": 1, "internal": False}]
    elif op == "scale_edges":
        out = [{"f": 2.0}]
    elif op == "add_child":
        out = [{"t": t, "how": h, "pos": 0} for t in T for h in ("add_child", "new_child", "insert_child", "insert_new_child")] + [
            {"t": t, "how": h, "pos": p} for t in T for h in ("reinsert_existing", "add_existing") for p in range(0, 36)]
    elif op == "reassign_parent":
        out = [{"t": t, "c": c, "q": q, "how": h} for t in T for c in (0, 1) for q in (0, 1) for h in ("same_after_drop", "other", "tail_node")]
    elif op == "set_child_nodes":
        out = [{"t": t, "seed": 1} for t in T]
    elif op == "set_rooted":
        out = [{"v": None}]
    return out


_TREES = {}


def start_trees(maxn, unif):
    out = []
    for n in range(1, maxn + 1):
        if n not in _TREES:
            _TREES[n] = list(all_rooted_trees(range(n)))
        for idx in range(len(_TREES[n])):
            out.append((n, idx, False))
            if unif:
                out.append((n, idx, True))
    return out


def start_spec(n, idx, unif):
    if n not in _TREES:
        _TREES[n] = list(all_rooted_trees(range(n)))
    spec = shapes.copy_spec(_TREES[n][idx])
    if unif:
        spec = {"t": None, "lab": None, "len": None, "ch": [spec]}
    for k, s in enumerate(shapes.spec_nodes(spec)):
        if k:
            s["len"] = 1.0
    return spec


def exhaustive_items(tier):
    items = []
    d1 = 4 if tier == "quick" else 5
    for (n, idx, unif) in start_trees(d1, True):
        nn = sum(1 for _ in shapes.spec_nodes(start_spec(n, idx, unif)))
        for rooted in (True, False):
            for enc in (False, True):
                for op in RULES:
                    for a in arg_grid(op, nn):
                        items.append({"n": n, "idx": idx, "unif": unif, "rooted": rooted, "enc": enc, "ops": [[op, a]]})
    if tier == "thorough":
        for (n, idx, unif) in start_trees(3, True):
            nn = sum(1 for _ in shapes.spec_nodes(start_spec(n, idx, unif))) + 1
            for rooted in (True, False):
                for op1 in RULES:
                    for a1 in arg_grid(op1, nn)[::2]:
                        for op2 in RULES:
                            for a2 in arg_grid(op2, nn)[::3]:
                                items.append({"n": n, "idx": idx, "unif": unif, "rooted": rooted, "enc": True,
                                              "ops": [[op1, a1], [op2, a2]]})
    return items


def check_exh(ctx, item):
    spec = start_spec(item["n"], item["idx"], item["unif"])
    it = Interp(ctx, {"spec": spec, "lenpat": "unit", "rooted": item["rooted"]})
    if item["enc"]:
        it.step("encode_bipartitions", {"su": False, "cb": False, "mut": False})
    for op, a in item["ops"]:
        it.step(op, a)
    if len(item["ops"]) > 1:
        ctx.nontrivial([item["n"], item["idx"], item["unif"], item["rooted"], item["ops"]])


SUBCHECKS = {"machine": stateful.replay(Interp), "exhaustive": check_exh}


def run(ctx):
    quick = ctx.tier == "quick"
    total = 2400 if quick else 24000
    stateful.run_machine(ctx, "machine", Interp, inits(8 if quick else 25), RULES, total // ctx.nshards, 30 if quick else 60)
    runner.run_items(ctx, "exhaustive", exhaustive_items(ctx.tier), check_exh)
