"""C09 - character matrices survive a round trip through NEXUS, PHYLIP, FASTA and NeXML.

Oracle: the case itself is the reference model: an ordered list of (taxon label, row of canonical symbols / floats).
Every matrix the library hands back (after any construction route and after every write/read hop) is compared,
cell by cell, with that list through `state.symbol` (discrete) or `==` on floats (continuous).  Documents used by the
"parse" routes are produced by this module's own NEXUS / PHYLIP / FASTA generators, not by the library writers.

Support table (taken from the reader/writer code, re-verified by the `unsupported` items of the exhaustive part):
  NEXUS  : dna rna nucleotide protein standard continuous   (restriction/infinite are written as DATATYPE=STANDARD
           and therefore read back as another class: unsupported by the format, not a finding)
  PHYLIP : every discrete type + continuous
  FASTA  : every discrete type (the reader needs a state alphabet: no continuous)
  NeXML  : dna rna protein restriction standard continuous  (writer raises for nucleotide / infinite)
"""
import collections
import copy
import io
import random
import re
import warnings

from hypothesis import strategies as st

from lib import budget, runner, shapes

CONFIG = {
    "shards": {"quick": 8, "thorough": 16},
    "budget_s": {"quick": 120, "thorough": 1500},
    "rule": ("Hypothesis: data type (8) x 1-6 taxa x 1-12 columns (quick: 12 % of cases at 57-59/69-71 columns; "
             "thorough: also 139-141 and up to 200) x cells drawn from the type's full symbol set (fundamental, gap, "
             "missing, every ambiguity code; lower-case/synonym spellings on the from_dict route; continuous: ints, "
             "dyadic, general and extreme finite floats) x labels admissible for every format variant of the case "
             "(printable ASCII with punctuation/quotes/brackets/underscores/spaces, distinct up to case) x construction "
             "route (from_dict with own or pre-built/permuted/over-full namespace; parsed from a NEXUS [TAXA+CHARACTERS "
             "or DATA, sequential or interleaved in 1-4 blocks with or without blank lines between blocks] / PHYLIP [strict or relaxed, sequential multi-line or interleaved in 1-4 blocks with or without blank lines] / "
             "FASTA [any wrap] document generated here; concatenate; export_character_indices; copy constructor / "
             "deepcopy / namespace-scoped copy / clone) x a chain of 1-3 write/read hops over NEXUS {simple, "
             "preserve_spaces}, NeXML {cells, seqs}, PHYLIP {strict, relaxed, underscore pair, multispace} x {sequential, "
             "interleaved reader}, FASTA {wrap, no wrap}, each through as_string/get(data=) or write(file=)/get(file=), "
             "handing the writer the matrix itself or (50 %) a fresh copy.copy / copy-constructor / clone(1) copy; "
             "ragged rows only for FASTA/NeXML.  History: before a route derives from its source(s) (and before the "
             "first hop otherwise) the matrix is optionally used 0-2 times (symbols_as_string/str/len of every "
             "sequence, or written through a drawn format) and must be unchanged by that; in 40 % of the cases the "
             "matrix read back last is used again, changed through the public sequence API (column deleted, column "
             "appended, cell overwritten from its column, matrix concatenated with itself [same object twice] or "
             "extended with itself by extend_matrix) and written/read once more against the updated "
             "expectation.  Data sets: 1-3 namespaces "
             "each with a tree list and/or 1-3 matrices (from_dict, concatenate, or with new_character_subset; "
             "continuous ones with negative / small-exponent values) added in drawn order, labels optionally with "
             "hyphens/blanks; a later namespace may be built from a slice / subset / permutation of the Taxon OBJECTS "
             "of an earlier one and may join the data set before it; a namespace may also carry no data block at all (never used, or its matrix added and "
             "removed again); written to NEXUS with suppress_block_titles in {not passed, None, False} and to NeXML, "
             "each with suppress_unreferenced_taxon_namespaces in {not passed, False, True}; the ordered label lists "
             "of all re-read namespaces must equal those of the namespaces that had to be written.  "
             "Exhaustive: every symbol of every type as 1x1 and 2x1 matrix through every supported format variant.  "
             "Non-trivial = matrix with >= 1 non-fundamental symbol (continuous: >= 1 non-integral value), or a "
             "route other than plain from_dict, or >= 2 hops; data set with >= 2 namespaces; distinct = whole case."),
    "exhaustive": {"quick": False, "thorough": False},
    "exhaustive_note": {"quick": "sub-check `symbols`: every symbol of the 7 discrete alphabets + 10 floats, 1x1 and 2x1, "
                                 "x 10 format variants (all supported ones; unsupported pairs are probed and classified)",
                        "thorough": "same as quick"},
    "assumptions": [
        "symbol-less multistate cells ({AC} without a code) are outside 'by symbol' and never generated",
        "restriction / infinite-sites through NEXUS and nucleotide / infinite-sites through NeXML, continuous through "
        "FASTA are unsupported by the format (writer emits DATATYPE=STANDARD / raises / reader needs an alphabet)",
        "labels are printable ASCII without leading/trailing blanks and pairwise distinct under lower(); relaxed PHYLIP "
        "labels have no blanks unless the underscore pair (then no underscores) or multispace_delimiter (then no blank "
        "runs) is on; strict PHYLIP labels have <= 10 characters",
        "PHYLIP is written with suppress_missing_taxa=True when the namespace holds taxa without sequences",
        "rows of unequal length are generated only for FASTA and NeXML (the other formats declare one NCHAR)",
        "continuous values are finite; equality is == on numbers (an int cell reads back as the equal float)",
        "tree and namespace-title labels in the data-set sub-check are simple (tree label quoting is C02's subject)",
        "epilogue mutations keep the matrix meaningful: columns are deleted/appended only in rectangular matrices, "
        "never deleted when the matrix carries character subsets (positions are the caller's business), an appended "
        "column gets its own column definition over the alphabet of the copied cell, a cell is overwritten only with "
        "a state of its own column",
        "every library call runs under lib/budget.py (3e6 library events): a call that does not terminate fails its "
        "clause instead of hanging the shard",
        "needs the NeXML attribute-quoting fix made for C02 (commit 363ecd66, cherry-picked into the C09 worktree): "
        "labels with \" & < \\ are generated for NeXML too",
    ],
}

# ---------------------------------------------------------------------------
# own symbol tables (independent of dendropy.datamodel.charstatemodel)
# ---------------------------------------------------------------------------
_NUC_AMB = "NRYMWSKVHDB"
ALPHABETS = {
    "dna": {"fund": "ACGT", "other": "-?" + _NUC_AMB},
    "rna": {"fund": "ACGU", "other": "-?" + _NUC_AMB},
    "nucleotide": {"fund": "ACGTU", "other": "-?" + _NUC_AMB},
    "protein": {"fund": "ACDEFGHIKLMNPQRSTVWY*", "other": "-?BZX"},
    "standard": {"fund": "0123456789", "other": "-?"},
    "restriction": {"fund": "10", "other": ""},
    "infinite": {"fund": "10", "other": ""},
}
DISCRETE = list(ALPHABETS)
DTYPES = DISCRETE + ["continuous"]
CLASS_NAMES = {"dna": "DnaCharacterMatrix", "rna": "RnaCharacterMatrix", "nucleotide": "NucleotideCharacterMatrix",
               "protein": "ProteinCharacterMatrix", "standard": "StandardCharacterMatrix",
               "restriction": "RestrictionSitesCharacterMatrix", "infinite": "InfiniteSitesCharacterMatrix",
               "continuous": "ContinuousCharacterMatrix"}
SUPPORT = {
    "nexus": ["dna", "rna", "nucleotide", "protein", "standard", "continuous"],
    "phylip": DTYPES,
    "fasta": DISCRETE,
    "nexml": ["dna", "rna", "protein", "restriction", "standard", "continuous"],
}
NEXUS_DATATYPE = {"dna": "DNA", "rna": "RNA", "nucleotide": "NUCLEOTIDE", "protein": "PROTEIN", "standard": "STANDARD",
                  "continuous": "CONTINUOUS"}
SPECIAL_FLOATS = [0.0, 1.0, -1.0, 0.5, -2.25, 0.1, 1e-05, 123456789.125, 1e+22, 1e-300, 1.7976931348623157e+308,
                  5e-324, 3.141592653589793, -0.3333333333333333, 100.0, 1e+16]
EXH_FLOATS = [0.0, 1.0, -1.0, 0.5, 0.1, 1e-05, 1e+22, 5e-324, 1.7976931348623157e+308, -0.3333333333333333]
WRAP_COLS = [57, 58, 59, 69, 70, 71]
WRAP_COLS_THOROUGH = WRAP_COLS + [116, 117, 139, 140, 141]

# known findings (narrow keys; the input predicate is in known_key())
KF_NEXUS_SEMI = "C09.nexus_label_semicolon"                     # a taxon label that is exactly ";" through NEXUS
KF_CONCAT_STD = "C09.nexml_cells_after_concatenate_standard"    # concatenate() of standard matrices -> NeXML cells
KF_SETS_LINK = "C09.ds_nexus_sets_block_without_link"           # subset-carrying matrix that is not the first matrix


def full_symbols(dtype):
    a = ALPHABETS[dtype]
    return list(a["fund"] + a["other"])


def spellings(dtype, sym):
    """Every spelling the alphabet's documentation admits for canonical symbol `sym`."""
    out = [sym]
    if sym.isalpha():
        out.append(sym.lower())
        if dtype in ("dna", "rna", "nucleotide") and sym == "N":
            out.append("X")  # (lower-case "x" is not defined by the nucleotide alphabets although "n" is: not generated)
    return out


def matrix_class(dtype):
    import dendropy
    return getattr(dendropy, CLASS_NAMES[dtype])


# ---------------------------------------------------------------------------
# format variants
# ---------------------------------------------------------------------------
# label constraints: sp = blanks allowed, us = underscores allowed, dbl = runs of >= 2 blanks allowed, maxlen
def _cons(sp=True, us=True, dbl=True, maxlen=24):
    return {"sp": sp, "us": us, "dbl": dbl, "maxlen": maxlen}


def variant_constraints(v):
    if v["fmt"] != "phylip":
        return _cons()
    mode = v["mode"]
    if mode == "strict":
        return _cons(maxlen=10)
    if mode == "plain":
        return _cons(sp=False)
    if mode == "uspair":
        return _cons(us=False)
    if mode == "multispace":
        return _cons(dbl=False)
    raise runner.HarnessError(mode)


def merge_cons(cs):
    out = _cons()
    for c in cs:
        out = {"sp": out["sp"] and c["sp"], "us": out["us"] and c["us"], "dbl": out["dbl"] and c["dbl"],
               "maxlen": min(out["maxlen"], c["maxlen"])}
    return out


def variant_kwargs(v, extras):
    """(writer kwargs, reader kwargs) of a format variant."""
    f = v["fmt"]
    if f == "nexus":
        return {"simple": v["simple"], "preserve_spaces": v["preserve_spaces"]}, {}
    if f == "nexml":
        return {"markup_as_sequences": v["seqs"]}, {}
    if f == "fasta":
        return {"wrap": v["wrap"]}, {}
    if f == "phylip":
        w, r = {}, {"interleaved": v["interleaved"]}
        if v["mode"] == "strict":
            w["strict"] = True
            r["strict"] = True
        elif v["mode"] == "uspair":
            w["spaces_to_underscores"] = True
            r["underscores_to_spaces"] = True
        elif v["mode"] == "multispace":
            r["multispace_delimiter"] = True
        if extras:
            w["suppress_missing_taxa"] = True
        return w, r
    raise runner.HarnessError(f)


def variant_name(v):
    f = v["fmt"]
    if f == "nexus":
        return "nexus:%s" % ("simple" if v["simple"] else "blocks")
    if f == "nexml":
        return "nexml:%s" % ("seqs" if v["seqs"] else "cells")
    if f == "fasta":
        return "fasta:%s" % ("wrap" if v["wrap"] else "nowrap")
    return "phylip:%s:%s" % (v["mode"], "interleaved" if v["interleaved"] else "sequential")


ALL_VARIANTS = ([{"fmt": "nexus", "simple": s, "preserve_spaces": False} for s in (False, True)]
                + [{"fmt": "nexml", "seqs": s} for s in (False, True)]
                + [{"fmt": "phylip", "mode": m, "interleaved": i} for m in ("strict", "plain") for i in (False, True)]
                + [{"fmt": "fasta", "wrap": w} for w in (True, False)])


@st.composite
def variants(draw, dtype):
    fmts = [f for f in ("nexus", "nexml", "phylip", "fasta") if dtype in SUPPORT[f]]
    f = draw(st.sampled_from(fmts))
    if f == "nexus":
        return {"fmt": f, "simple": draw(st.booleans()), "preserve_spaces": draw(st.booleans())}
    if f == "nexml":
        return {"fmt": f, "seqs": draw(st.booleans())}
    if f == "fasta":
        return {"fmt": f, "wrap": draw(st.sampled_from([True, True, False]))}
    return {"fmt": f, "mode": draw(st.sampled_from(["strict", "plain", "plain", "uspair", "multispace"])),
            "interleaved": draw(st.booleans())}


# ---------------------------------------------------------------------------
# labels (by construction: every draw is mapped into the admissible set, nothing is filtered)
# ---------------------------------------------------------------------------
_PUNCT = "()[]{}\\/,;:=*'\"`+-<>_ &#%!?.|~^@$"
_ALNUM = "abcdefghijklmnopqrstuvwxyzABCDEFGHIJKLMNOPQRSTUVWXYZ0123456789"
_KEYWORDS = ["end", "END", "begin", "matrix", "taxlabels", "tree", "dimensions", "format", "link", "title", "ntax",
             "1", "2", "10", "007", "a;", ";", "'", "''", "\"", "[", "]", "[x]", "(", ")", ",", ":", "=", "a=b", "a\\b",
             ">", ">a", "#", "#NEXUS", "a b", "a_b", "a  b", "_", "a_", "_a", "-", "?", ".", "A", "a.b", "x y z",
             "&", "a&b", "<", "a<b>", "it's", "\"q\"", "{a}", "a,b", "a:b", "(a,b)", "a+b", "a-b", "e", "1e5", "1.5"]


def _fit(raw, cons, idx, seen):
    s = "".join(ch for ch in raw if 32 <= ord(ch) < 127)
    if not cons["us"]:
        s = s.replace("_", "u")
    if not cons["sp"]:
        s = s.replace(" ", "s")
    elif not cons["dbl"]:
        s = re.sub(" {2,}", " ", s)
    s = s[:cons["maxlen"]].strip(" ")
    if not s:
        s = "t"
    if s.lower() in seen:
        tail = "%d" % idx
        base = s[:cons["maxlen"] - len(tail)].rstrip(" ")
        s = base + tail
        k = idx
        while s.lower() in seen:  # terminates: k grows, at most len(seen)+1 candidates are taken
            k += 7
            tail = "%d" % k
            s = (base[:cons["maxlen"] - len(tail)].rstrip(" ") or "t") + tail
    seen.add(s.lower())
    return s


@st.composite
def label_lists(draw, n, cons):
    kind = draw(st.sampled_from(["simple", "punct", "punct", "mixed", "mixed", "keyword"]))
    out, seen = [], set()
    for i in range(n):
        k = kind
        if kind == "mixed":
            k = draw(st.sampled_from(["simple", "punct", "punct", "keyword"]))
        if k == "simple":
            raw = "".join(draw(st.lists(st.sampled_from(_ALNUM), min_size=1, max_size=8)))
        elif k == "keyword":
            raw = draw(st.sampled_from(_KEYWORDS))
        else:
            raw = "".join(draw(st.lists(st.sampled_from(_PUNCT + _PUNCT + _ALNUM), min_size=1, max_size=12)))
        out.append(_fit(raw, cons, i, seen))
    return out


def simple_labels(n, prefix=""):
    word = st.lists(st.sampled_from(_ALNUM[:52]), min_size=1, max_size=4).map("".join)
    return st.lists(word, min_size=n, max_size=n).map(lambda xs: ["%s%s%d" % (prefix, x, i) for i, x in enumerate(xs)])


# ---------------------------------------------------------------------------
# cells
# ---------------------------------------------------------------------------
def float_cells():
    return st.one_of(st.integers(-5, 5).map(float), st.integers(-64, 64).map(lambda k: k / 8.0),
                     st.floats(allow_nan=False, allow_infinity=False),
                     st.floats(min_value=-1000.0, max_value=1000.0, allow_nan=False),
                     st.sampled_from(SPECIAL_FLOATS), st.integers(-3, 12))


def cell_strategy(dtype, profile):
    if dtype == "continuous":
        return float_cells()
    syms = full_symbols(dtype)
    if profile == "uniform" or not ALPHABETS[dtype]["other"]:
        return st.sampled_from(syms)
    if profile == "mostly_fund":
        return st.sampled_from(list(ALPHABETS[dtype]["fund"]) * 4 + syms)
    return st.sampled_from(list(ALPHABETS[dtype]["other"]) * 2 + syms)


@st.composite
def column_counts(draw, tier):
    r = draw(st.integers(0, 99))
    if tier == "quick":
        if r < 12:
            return draw(st.sampled_from(WRAP_COLS))
        return draw(st.integers(1, 12))
    if r < 20:
        return draw(st.sampled_from(WRAP_COLS_THOROUGH))
    if r < 35:
        return draw(st.integers(13, 200))
    return draw(st.integers(1, 12))


def cut_points(draw, ncols, max_parts):
    """Sorted distinct interior cut points splitting range(ncols) into <= max_parts non-empty parts."""
    if ncols < 2:
        return []
    k = draw(st.integers(0, min(max_parts - 1, ncols - 1)))
    return sorted(draw(st.sets(st.integers(1, ncols - 1), min_size=k, max_size=k)))


# ---------------------------------------------------------------------------
# matrix cases
# ---------------------------------------------------------------------------
ROUTES = ["from_dict", "from_dict", "parse_nexus", "parse_phylip", "parse_fasta", "concat", "export", "export", "copy"]


@st.composite
def touches(draw, dtype):
    """Earlier uses of a matrix that must leave no trace: renderings / queries and writes through a drawn format."""
    out = []
    for _ in range(draw(st.sampled_from([0, 1, 1, 2]))):
        if draw(st.booleans()):
            out.append({"op": "render"})
        else:
            out.append({"op": "write", "variant": draw(variants(dtype))})
    return out


@st.composite
def matrix_cases(draw, tier):
    dtype = draw(st.sampled_from(["dna", "dna", "rna", "nucleotide", "protein", "protein", "standard", "standard",
                                  "restriction", "infinite", "continuous", "continuous"]))
    max_hops = 2 if tier == "quick" else 3
    nhops = draw(st.sampled_from([1, 1, 2] if max_hops == 2 else [1, 1, 2, 2, 3]))
    hops = [draw(variants(dtype)) for _ in range(nhops)]
    for v in hops:
        v["io"] = draw(st.sampled_from(["string", "string", "stream"]))
        # what is handed to the writer: the matrix itself or a fresh copy of it (copy.copy shares the sequences)
        v["via_copy"] = draw(st.sampled_from([None, None, None, None, "shallow", "shallow", "ctor", "clone1"]))
    routes = [r for r in ROUTES if not (r == "parse_nexus" and dtype not in SUPPORT["nexus"])
              and not (r == "parse_fasta" and dtype not in SUPPORT["fasta"])]
    kind = draw(st.sampled_from(routes))
    ntax = draw(st.integers(1, 6))
    ncols = draw(column_counts(tier))
    route = {"kind": kind}
    # history: what happened to the source matrix / matrices before the route derives from them (or, for the routes
    # that do not derive, to the matrix itself before the first hop)
    route["pre"] = draw(touches(dtype))
    # epilogue: the matrix read back by the last hop is used (touch), changed through the public sequence API and
    # written/read once more
    post = None
    if draw(st.integers(0, 9)) < 4:
        final = draw(variants(dtype))
        final["io"] = "string"
        post = {"touch": draw(touches(dtype)), "final": final,
                "ops": [draw(st.fixed_dictionaries({"op": st.sampled_from(["del_col", "del_col", "append_col", "set_cell", "self_concat", "self_concat",
                                                                           "self_extend"]),
                                                    "i": st.integers(0, 10 ** 4), "r": st.integers(0, 10 ** 4),
                                                    "c": st.integers(0, 10 ** 4), "r2": st.integers(0, 10 ** 4),
                                                    "c2": st.integers(0, 10 ** 4)}))
                        for _ in range(draw(st.integers(1, 2)))]}
        hops_all = hops + [final]
    else:
        hops_all = hops
    cons = [variant_constraints(v) for v in hops_all]
    if kind == "parse_phylip":
        route["strict"] = draw(st.booleans())
        cons.append(_cons(maxlen=10) if route["strict"] else _cons(sp=False))
    if kind in ("concat", "export") and ncols < 2:
        ncols = draw(st.integers(2, 12))
    only_free_length = all(v["fmt"] in ("fasta", "nexml") for v in hops_all)
    ragged = only_free_length and kind in ("from_dict", "copy", "parse_fasta") and ntax > 1 and draw(st.integers(0, 3)) == 0
    n_extra = 0
    if kind in ("from_dict", "copy", "export") and draw(st.integers(0, 4)) == 0:
        n_extra = draw(st.integers(1, 2))
    labels = draw(label_lists(ntax + n_extra, merge_cons(cons)))
    profile = draw(st.sampled_from(["uniform", "mostly_fund", "mostly_other"]))
    cell = cell_strategy(dtype, profile)
    has_row = [True] * ntax + [False] * n_extra
    if n_extra:
        has_row = list(draw(st.permutations(has_row)))
    taxa = []
    for lab, has in zip(labels, has_row):
        if not has:
            taxa.append({"label": lab, "row": None})
            continue
        n = ncols
        if ragged:
            n = draw(st.integers(1, ncols))
        taxa.append({"label": lab, "row": draw(st.lists(cell, min_size=n, max_size=n))})
    # ---- route details -------------------------------------------------------
    if kind in ("from_dict", "concat", "export", "copy"):
        route["prebuilt_ns"] = bool(n_extra) or draw(st.booleans())
        route["perm"] = draw(st.integers(0, 10 ** 6))
        route["as_str"] = draw(st.booleans())
        if dtype != "continuous":
            route["spelled"] = [None if t["row"] is None else
                                [draw(st.sampled_from(spellings(dtype, s))) for s in t["row"]] for t in taxa]
    if kind == "copy":
        route["how"] = draw(st.sampled_from(["ctor", "ctor_newns", "deepcopy", "scoped", "clone0", "clone0", "clone0", "clone1", "clone2"]))
    if kind == "concat":
        route["cuts"] = cut_points(draw, ncols, 3) or [1]
    if kind == "export":
        # bigger matrix: the wanted columns plus drawn filler columns at drawn positions
        nfill = draw(st.integers(1, 6))
        keep = [True] * ncols + [False] * nfill
        keep = list(draw(st.permutations(keep)))
        route["keep"] = keep
        route["filler"] = [None if t["row"] is None else draw(st.lists(cell, min_size=nfill, max_size=nfill))
                           for t in taxa]
        route["indices_as"] = draw(st.sampled_from(["list", "set", "reversed"]))
    if kind == "parse_nexus":
        route["simple"] = draw(st.booleans())
        route["interleave"] = draw(st.booleans())
        route["cuts"] = cut_points(draw, ncols, 4) if route["interleave"] else []
        route["gap_every"] = draw(st.sampled_from([0, 0, 3, 10]))
        route["quote_all"] = draw(st.booleans())
        route["blank_between"] = draw(st.booleans())
    if kind == "parse_phylip":
        route["interleaved"] = draw(st.booleans())
        route["cuts"] = cut_points(draw, ncols, 4)
        route["gap_every"] = draw(st.sampled_from([0, 0, 3, 10]))
        route["sep"] = draw(st.sampled_from([" ", "  ", "\t", "    "]))
        route["blank_between"] = draw(st.booleans())
    if kind == "parse_fasta":
        route["width"] = draw(st.sampled_from([1, 2, 5, 60, 70, 1000]))
        route["blank_lines"] = draw(st.booleans())
    return {"dtype": dtype, "taxa": taxa, "route": route, "hops": hops, "post": post}


# ---------------------------------------------------------------------------
# own document generators (parse routes)
# ---------------------------------------------------------------------------
def cell_text(dtype, x):
    return repr(x) if dtype == "continuous" else x


def chunk_text(dtype, cells, gap_every=0):
    if dtype == "continuous":
        return " ".join(repr(x) for x in cells)
    s = "".join(cells)
    if gap_every:
        s = " ".join(s[i:i + gap_every] for i in range(0, len(s), gap_every))
    return s


def nexus_quote(label, quote_all):
    if not quote_all and re.match(r"^[A-Za-z][A-Za-z0-9.]*$", label) and label.upper() not in (
            "END", "ENDBLOCK", "BEGIN", "MATRIX", "TITLE", "LINK", "DIMENSIONS", "FORMAT", "TAXLABELS"):
        return label
    return "'" + label.replace("'", "''") + "'"


def blocks_of(ncols, cuts):
    edges = [0] + list(cuts) + [ncols]
    return [(a, b) for a, b in zip(edges[:-1], edges[1:]) if b > a]


def make_nexus(dtype, rows, route):
    """rows: [(label, cells)] all of equal length."""
    ncols = len(rows[0][1])
    q = lambda l: nexus_quote(l, route["quote_all"])
    out = ["#NEXUS", ""]
    if not route["simple"]:
        out += ["BEGIN TAXA;", "  DIMENSIONS NTAX=%d;" % len(rows), "  TAXLABELS"]
        out += ["    " + q(l) for l, _ in rows]
        out += ["  ;", "END;", "", "BEGIN CHARACTERS;", "  DIMENSIONS NCHAR=%d;" % ncols]
    else:
        out += ["BEGIN DATA;", "  DIMENSIONS NTAX=%d NCHAR=%d;" % (len(rows), ncols)]
    fmt = "  FORMAT DATATYPE=%s" % NEXUS_DATATYPE[dtype]
    if dtype == "standard":
        fmt += ' SYMBOLS="0123456789"'
    if dtype != "continuous":
        fmt += " MISSING=? GAP=-"
    if route["interleave"]:
        fmt += " INTERLEAVE"
    out += [fmt + ";", "  MATRIX"]
    blocks = blocks_of(ncols, route["cuts"]) if route["interleave"] else [(0, ncols)]
    for bi, (a, b) in enumerate(blocks):
        if bi and route.get("blank_between", True):
            out.append("")
        for l, cells in rows:
            out.append("    %s  %s" % (q(l), chunk_text(dtype, cells[a:b], route["gap_every"])))
    out += ["  ;", "END;", ""]
    return "\n".join(out)


def make_phylip(dtype, rows, route):
    ncols = len(rows[0][1])
    out = ["%d %d" % (len(rows), ncols)]
    blocks = blocks_of(ncols, route["cuts"])
    lab = (lambda l: l.ljust(10)) if route["strict"] else (lambda l: l + route.get("sep", "  "))
    if route["interleaved"]:
        for bi, (a, b) in enumerate(blocks):
            if bi and route.get("blank_between", True):
                out.append("")
            for l, cells in rows:
                out.append((lab(l) if bi == 0 else "") + chunk_text(dtype, cells[a:b], route["gap_every"]))
    else:
        for l, cells in rows:
            for bi, (a, b) in enumerate(blocks):
                out.append((lab(l) if bi == 0 else "") + chunk_text(dtype, cells[a:b], route["gap_every"]))
    return "\n".join(out) + "\n"


def make_fasta(dtype, rows, route):
    out = []
    w = route["width"]
    for l, cells in rows:
        out.append(">" + l)
        s = "".join(cells)
        out += [s[i:i + w] for i in range(0, len(s), w)]
        if route["blank_lines"]:
            out.append("")
    return "\n".join(out) + "\n"


# ---------------------------------------------------------------------------
# oracle helpers
# ---------------------------------------------------------------------------
def read_rows(dtype, m):
    """What the library matrix holds, rendered independently of its writers: [(label, [symbol | float ...])]."""
    out = []
    for taxon in m:
        cells = []
        for x in m[taxon]:
            if dtype == "continuous":
                cells.append(x)
            else:
                sym = getattr(x, "symbol", None)
                cells.append(sym if isinstance(sym, str) and sym else "<%s>" % (x,))
        out.append((taxon.label, cells))
    return out


def rows_equal(dtype, got, want):
    if len(got) != len(want):
        return False
    for (gl, gc), (wl, wc) in zip(got, want):
        if gl != wl or len(gc) != len(wc):
            return False
        for g, w in zip(gc, wc):
            if dtype == "continuous":
                if isinstance(g, bool) or not isinstance(g, (int, float)) or not (g == w):
                    return False
            elif g != w:
                return False
    return True


def show(rows, limit=6):
    return repr([(l, c if len(c) <= 24 else c[:24] + ["...%d" % len(c)]) for l, c in rows[:limit]])


def known_key(info, fmt, failure=None):
    """Narrow known-finding key when the input predicate of a listed finding holds for (case info, format), else None.
    `failure` is "<ExceptionType>@<innermost library function>" when the verdict comes from an exception.

    info = {"labels": [...], "fresh_concat_standard": bool (the matrix about to be written came straight out of
    concatenate() on standard matrices), "cells": bool (NeXML cell markup)}"""
    if fmt == "nexus" and ";" in info["labels"]:
        return KF_NEXUS_SEMI
    if (fmt == "nexml" and info.get("fresh_concat_standard") and info.get("cells")
            and (failure or "").startswith("KeyError@")):  # the writer cannot find the foreign state / alphabet
        return KF_CONCAT_STD
    if (fmt == "nexus" and info.get("subset_carrier_not_first")
            and failure == "LinkRequiredError@_get_char_matrix"):  # raised while the CHARSET statement is resolved
        return KF_SETS_LINK
    return None


def verdict(ctx, ok, clause, key, info, fmt, detail):
    """ctx.check with the key narrowed to a listed known finding when its input predicate holds."""
    if ok:
        return
    kk = known_key(info, fmt)
    ctx.fail(clause, kk or key, detail() if callable(detail) else detail)
    raise runner.KnownSkip()


STEP_LIMIT = 3 * 10 ** 6  # library events (calls + backward jumps); the largest legitimate call needs < 10 ** 5


def lib_call(ctx, clause, key, info, fmt, fn, *args, **kwargs):
    """Call library code under a deterministic step budget: an exception raised by library code, or a call that does
    not terminate, fails `clause` (under the narrow known-finding key when that finding's input predicate holds)."""
    try:
        with warnings.catch_warnings():
            warnings.simplefilter("ignore")
            res, used = budget.run(lambda: fn(*args, **kwargs), STEP_LIMIT)
            ctx.notes.setdefault("max", {})["library_events_per_call"] = max(
                ctx.notes.get("max", {}).get("library_events_per_call", 0), used)
            return res
    except budget.HangDetected as e:
        ctx.fail(clause, known_key(info, fmt) or "%s:does_not_terminate" % key, str(e))
        raise runner.KnownSkip()
    except (runner.Violation, runner.KnownSkip):
        raise
    except RecursionError:
        raise
    except Exception as e:
        if not runner.exc_in_dendropy(e):
            raise
        best, _ = runner.innermost_dendropy_frame(e)
        kk = known_key(info, fmt, "%s@%s" % (type(e).__name__, best[0])) or "%s:%s@%s" % (key, type(e).__name__, best[0])
        ctx.fail(clause, kk, "%s: %s (at %s:%s)" % (type(e).__name__, str(e)[:600], best[1], best[2]))
        raise runner.KnownSkip()


# ---------------------------------------------------------------------------
# building the source matrix
# ---------------------------------------------------------------------------
def _dict_value(dtype, cells, as_str):
    if dtype != "continuous" and as_str:
        return "".join(cells)
    return list(cells)


def from_dict_matrix(dtype, taxa, route, rows_override=None):
    """taxa: [{'label','row'}]; builds through <Class>.from_dict; returns the matrix."""
    import dendropy
    cls = matrix_class(dtype)
    spelled = route.get("spelled")
    items = []
    for i, t in enumerate(taxa):
        if t["row"] is None:
            continue
        cells = t["row"]
        if rows_override is not None:
            cells = rows_override[i]
        elif spelled is not None:
            cells = spelled[i]
        items.append((t["label"], _dict_value(dtype, cells, route.get("as_str", False))))
    if route.get("prebuilt_ns"):
        ns = dendropy.TaxonNamespace()
        for t in taxa:
            ns.add_taxon(dendropy.Taxon(label=t["label"]))
        random.Random(route.get("perm", 0)).shuffle(items)
        return cls.from_dict(collections.OrderedDict(items), taxon_namespace=ns)
    return cls.from_dict(collections.OrderedDict(items))


def touch(ctx, dtype, m, ops, extras, info, tag):
    """Use matrix m the way an earlier step of a session would (render / query its sequences, write it through a
    format) and require that this leaves its content as it was."""
    if not ops:
        return
    before = read_rows(dtype, m)
    for t in ops:
        if t["op"] == "render":
            def render():
                for taxon in m:
                    seq = m[taxon]
                    seq.symbols_as_string()
                    str(seq)
                    seq.symbols_as_list()
                    len(seq)
                return len(m), m.max_sequence_size, m.sequence_size
            ctx.cls("history:render")
            lib_call(ctx, "render_sequences", "C09.render", info, None, render)
        else:
            v = t["variant"]
            wk, _ = variant_kwargs(v, extras)
            fmt = v["fmt"]
            ctx.cls("history:write:" + fmt)
            lib_call(ctx, "earlier_write_" + fmt, "C09.earlier_write:" + variant_name(v),
                     dict(info, cells=(fmt == "nexml" and not v["seqs"])), fmt, m.as_string, schema=fmt, **wk)
    after = read_rows(dtype, m)
    verdict(ctx, rows_equal(dtype, after, before), "use_leaves_matrix_unchanged", "C09.touch_changes_matrix", info, None,
            lambda: "%s: %r changed the matrix: before %s after %s" % (tag, ops, show(before), show(after)))


def build_source(ctx, case, want):
    import dendropy
    dtype, taxa, route = case["dtype"], case["taxa"], case["route"]
    cls = matrix_class(dtype)
    kind = route["kind"]
    info = {"labels": [t["label"] for t in taxa]}
    pre = route.get("pre") or []
    src_extras = any(t["row"] is None for t in taxa)
    call = lambda clause, fn, *a, **k: lib_call(ctx, clause, "C09.route_" + kind, info, None, fn, *a, **k)
    if kind == "from_dict":
        return call("from_dict", from_dict_matrix, dtype, taxa, route)
    if kind == "copy":
        m0 = call("from_dict", from_dict_matrix, dtype, taxa, route)
        touch(ctx, dtype, m0, pre, src_extras, info, "source of copy")
        how = route["how"]
        if how == "ctor":
            return call("copy_constructor", cls, m0)
        if how == "ctor_newns":
            return call("copy_constructor", cls, m0, taxon_namespace=dendropy.TaxonNamespace())
        if how == "deepcopy":
            return call("deepcopy", copy.deepcopy, m0)
        if how == "scoped":
            return call("taxon_namespace_scoped_copy", m0.taxon_namespace_scoped_copy)
        return call("clone", m0.clone, int(how[-1]))
    if kind == "concat":
        ncols = len(want[0][1])
        parts = blocks_of(ncols, route["cuts"])
        ns = dendropy.TaxonNamespace()
        for t in taxa:
            ns.add_taxon(dendropy.Taxon(label=t["label"]))
        ms = []
        for a, b in parts:
            sub = [(route["spelled"][i] if route.get("spelled") else t["row"])[a:b] for i, t in enumerate(taxa)]
            d = collections.OrderedDict((t["label"], _dict_value(dtype, sub[i], route["as_str"]))
                                        for i, t in enumerate(taxa))
            ms.append(call("from_dict", cls.from_dict, d, taxon_namespace=ns))
            touch(ctx, dtype, ms[-1], pre, False, info, "part of concatenate")
        return call("concatenate", cls.concatenate, ms)
    if kind == "export":
        keep = route["keep"]
        big = []
        for i, t in enumerate(taxa):
            if t["row"] is None:
                big.append(None)
                continue
            src = route["spelled"][i] if route.get("spelled") else t["row"]
            it_keep, it_fill = iter(src), iter(route["filler"][i])
            big.append([next(it_keep) if k else next(it_fill) for k in keep])
        m0 = call("from_dict", from_dict_matrix, dtype, taxa, dict(route, spelled=None), big)
        touch(ctx, dtype, m0, pre, src_extras, info, "source of export")
        idx = [i for i, k in enumerate(keep) if k]
        if route["indices_as"] == "set":
            idx = set(idx)
        elif route["indices_as"] == "reversed":
            idx = idx[::-1]
        return call("export_character_indices", m0.export_character_indices, idx)
    if kind == "parse_nexus":
        text = make_nexus(dtype, want, route)
        ctx.sample("doc:nexus:%s" % ("interleaved" if route["interleave"] else "sequential"), text)
        if route["interleave"]:
            nb = len(blocks_of(len(want[0][1]), route["cuts"]))
            ctx.cls("doc:nexus:interleaved:blocks=%s%s" % (nb if nb < 4 else "4+", "" if nb == 1 else (
                ":blank_lines" if route.get("blank_between", True) else ":no_blank_lines")))
        return lib_call(ctx, "parse_generated_nexus", "C09.route_parse_nexus", info, "nexus",
                        cls.get, data=text, schema="nexus")
    if kind == "parse_phylip":
        text = make_phylip(dtype, want, route)
        ctx.sample("doc:phylip:%s" % ("interleaved" if route["interleaved"] else "sequential"), text)
        nb = len(blocks_of(len(want[0][1]), route["cuts"]))
        ctx.cls("doc:phylip:%s:blocks=%s%s" % ("interleaved" if route["interleaved"] else "sequential",
                                               nb if nb < 4 else "4+", "" if nb == 1 or not route["interleaved"] else
                                               (":blank_lines" if route.get("blank_between", True) else ":no_blank_lines")))
        return lib_call(ctx, "parse_generated_phylip", "C09.route_parse_phylip", info, "phylip",
                        cls.get, data=text, schema="phylip", strict=route["strict"], interleaved=route["interleaved"])
    if kind == "parse_fasta":
        text = make_fasta(dtype, want, route)
        return lib_call(ctx, "parse_generated_fasta", "C09.route_parse_fasta", info, "fasta",
                        cls.get, data=text, schema="fasta")
    raise runner.HarnessError(kind)


def expected_rows(case):
    """[(label, canonical cells)] in the order the matrix must present them: the case order, which is the dictionary
    insertion order when from_dict creates the namespace and the order of the pre-built namespace otherwise (the
    dictionary is then filled in a permuted order)."""
    return [(t["label"], list(t["row"])) for t in case["taxa"] if t["row"] is not None]


# ---------------------------------------------------------------------------
# sub-check: matrix round trips
# ---------------------------------------------------------------------------
def do_hop(ctx, dtype, m, want, v, extras, info, tag):
    """Write matrix m in variant v, read it back as the same class, compare with `want`.  Returns the new matrix."""
    cls = matrix_class(dtype)
    wk, rk = variant_kwargs(v, extras)
    name = variant_name(v)
    fmt = v["fmt"]
    info = dict(info, cells=(fmt == "nexml" and not v["seqs"]))
    how = v.get("via_copy")
    if how:
        ctx.cls("hop_writes_copy:" + how)
        mc = lib_call(ctx, "copy_before_write", "C09.copy_before_write:" + how, info, None,
                      {"shallow": copy.copy, "ctor": cls, "clone1": lambda x: x.clone(1)}[how], m)
        gotc = read_rows(dtype, mc)
        verdict(ctx, type(mc) is cls and rows_equal(dtype, gotc, want), "copy_rows_equal", "C09.copy_rows:" + how, info,
                None, lambda: "%s: %s copy holds %s want %s" % (tag, how, show(gotc), show(want)))
        m = mc
    if v.get("io") == "stream":
        sio = io.StringIO()
        lib_call(ctx, "write_" + fmt, "C09.write:" + name, info, fmt, m.write, file=sio, schema=fmt, **wk)
        text = sio.getvalue()
        m2 = lib_call(ctx, "read_back_" + fmt, "C09.read:" + name, info, fmt, cls.get, file=io.StringIO(text),
                      schema=fmt, **rk)
    else:
        text = lib_call(ctx, "write_" + fmt, "C09.write:" + name, info, fmt, m.as_string, schema=fmt, **wk)
        m2 = lib_call(ctx, "read_back_" + fmt, "C09.read:" + name, info, fmt, cls.get, data=text, schema=fmt, **rk)
    verdict(ctx, type(m2) is cls, "read_back_same_class", "C09.class:" + name, info, fmt,
            lambda: "%s: got %s want %s" % (tag, type(m2).__name__, cls.__name__))
    got = read_rows(dtype, m2)
    verdict(ctx, rows_equal(dtype, got, want), "round_trip_rows_equal", "C09.rows:" + name, info, fmt,
            lambda: "%s via %s %r/%r: got %s want %s\n--- document ---\n%s" % (
                tag, name, wk, rk, show(got), show(want), text[:1500]))
    return m2


def check_matrix(ctx, case):
    dtype, taxa, route, hops = case["dtype"], case["taxa"], case["route"], case["hops"]
    want = expected_rows(case)
    labels = [t["label"] for t in taxa]
    extras = any(t["row"] is None for t in taxa)
    kind = route["kind"]
    ctx.cls("dtype:" + dtype)
    ctx.cls("route:" + kind + (":" + route["how"] if kind == "copy" else ""))
    ctx.cls("dims:%s" % ("1xN" if len(want) == 1 and len(want[0][1]) > 1 else
                         "Nx1" if len(want) > 1 and all(len(c) == 1 for _, c in want) else
                         "1x1" if len(want) == 1 else "NxM"))
    ncmax = max(len(c) for _, c in want)
    if ncmax > 12:
        ctx.cls("cols:%s" % ("57-59" if ncmax < 60 else "69-71" if ncmax < 72 else "116-141" if ncmax in WRAP_COLS_THOROUGH
                             else "13-200"))
    if len(set(len(c) for _, c in want)) > 1:
        ctx.cls("ragged")
    if extras:
        ctx.cls("namespace_has_taxa_without_sequence")
    if any(re.search(r"[^A-Za-z0-9]", l) for l in labels):
        ctx.cls("labels:special")
    # ---- construction route --------------------------------------------------
    m = build_source(ctx, case, want)
    cls = matrix_class(dtype)
    fmt0 = {"parse_nexus": "nexus", "parse_phylip": "phylip", "parse_fasta": "fasta"}.get(kind)
    info = {"labels": labels}
    verdict(ctx, type(m) is cls, "route_yields_class", "C09.route_class:" + kind, info, fmt0,
            lambda: "got %s" % type(m).__name__)
    got = read_rows(dtype, m)
    verdict(ctx, rows_equal(dtype, got, want), "route_rows_equal", "C09.route_rows:" + kind, info, fmt0,
            lambda: "route %s: got %s want %s" % (route, show(got), show(want)))
    if kind not in ("copy", "concat", "export"):
        touch(ctx, dtype, m, route.get("pre") or [], extras, info, "matrix before the first hop")
    # ---- hops ------------------------------------------------------------------
    for i, v in enumerate(hops):
        ctx.cls("hop:" + variant_name(v))
        if i:
            ctx.cls("conversion:%s>%s" % (hops[i - 1]["fmt"], v["fmt"]))
        info["fresh_concat_standard"] = (i == 0 and kind == "concat" and dtype == "standard")
        m = do_hop(ctx, dtype, m, want, v, extras, info, "hop %d" % (i + 1))
        # taxa without sequences survive only in formats with a taxa block; later hops need no special option
        extras = extras and ((v["fmt"] == "nexus" and not v["simple"]) or v["fmt"] == "nexml")
    # ---- epilogue: use, change through the public sequence API, write/read once more ---------------------------
    post = case.get("post")
    if post:
        info["fresh_concat_standard"] = False
        touch(ctx, dtype, m, post["touch"], extras, info, "re-read matrix")
        want = [(l, list(c)) for l, c in want]
        rect = len(set(len(c) for _, c in want)) == 1
        cur = {"m": m, "fresh_concat": False}

        def no_default_alphabet(mx):
            """Discrete matrix with several state alphabets and none marked as default (e.g. a standard matrix that
            went PHYLIP -> NeXML): cells without a column definition cannot be written, by documented design."""
            try:
                return hasattr(mx, "state_alphabets") and mx.default_state_alphabet is None
            except TypeError:
                return True

        def mutate():
            done = []
            for op in post["ops"]:
                m = cur["m"]
                seqs = [m[taxon] for taxon in m]
                r, r2 = op["r"] % len(want), op["r2"] % len(want)
                c = op["c"] % len(want[r][1])
                if op["op"] == "self_concat":
                    # the matrix concatenated with itself (same object twice); concatenate() wants aligned rows and
                    # a sequence for every taxon of the namespace
                    if not rect or len(m) != len(m.taxon_namespace) or len(want[0][1]) > 200 or no_default_alphabet(m):
                        continue
                    cur["m"] = cls.concatenate([m, m])
                    cur["fresh_concat"] = True
                    for _, cells in want:
                        cells.extend(list(cells))
                elif op["op"] == "self_extend":
                    # (rectangular only: in a ragged matrix the appended halves start at different positions, so the
                    # cells of one column definition would no longer sit in one column)
                    if not rect or len(want[0][1]) > 200 or no_default_alphabet(m):
                        continue
                    m.extend_matrix(m)
                    for _, cells in want:
                        cells.extend(list(cells))
                elif op["op"] == "del_col":
                    # (character subsets name column positions; keeping them in step with a deletion is the
                    # caller's business, so matrices carrying subsets keep their columns)
                    if not rect or len(want[0][1]) < 2 or m.character_subsets:
                        continue
                    i = op["i"] % len(want[0][1])
                    for seq, (_, cells) in zip(seqs, want):
                        del seq[i]
                        del cells[i]
                elif op["op"] == "append_col":
                    if not rect:  # a column is a position shared by all rows only in a rectangular matrix
                        continue
                    # a new column holding a copy of cell (r, c) in every row; when that cell belongs to a defined
                    # column (matrix read from NeXML) the new column gets its own definition over the same alphabet
                    state, sym = seqs[r][c], want[r][1][c]
                    ct0 = seqs[r].character_type_at(c)
                    ct = None if ct0 is None else m.new_character_type(state_alphabet=ct0.state_alphabet)
                    for seq, (_, cells) in zip(seqs, want):
                        seq.append(state, character_type=ct)
                        cells.append(sym)
                else:
                    # overwrite cell (r, c) with the state another row holds in the same column
                    rows_with_c = [k for k in range(len(want)) if len(want[k][1]) > c]
                    r2 = rows_with_c[op["r2"] % len(rows_with_c)]
                    seqs[r][c] = seqs[r2][c]
                    want[r][1][c] = want[r2][1][c]
                done.append(op["op"])
            return done
        done = lib_call(ctx, "mutate_sequences", "C09.mutate", info, None, mutate)
        m = cur["m"]
        info["fresh_concat_standard"] = cur["fresh_concat"] and dtype == "standard"
        for d in done:
            ctx.cls("epilogue:" + d)
        if hops and hops[-1]["fmt"] == "nexml" and post["final"]["fmt"] == "nexml" and (
                "self_concat" in done or "self_extend" in done):
            ctx.cls("epilogue:nexml_read>self_concat_or_extend>nexml")
        got = read_rows(dtype, m)
        verdict(ctx, rows_equal(dtype, got, want), "mutation_visible_in_matrix", "C09.mutation_rows", info, None,
                lambda: "after %r: got %s want %s" % (post["ops"], show(got), show(want)))
        ctx.cls("epilogue_hop:" + variant_name(post["final"]))
        m = do_hop(ctx, dtype, m, want, post["final"], extras, info, "epilogue after %r" % (done,))
    # ---- evidence -------------------------------------------------------------
    if dtype == "continuous":
        special = any(not float(x).is_integer() for _, c in want for x in c)
    else:
        fund = set(ALPHABETS[dtype]["fund"])
        special = any(x not in fund for _, c in want for x in c)
    if special:
        ctx.cls("has_non_fundamental_symbol")
    if special or kind != "from_dict" or len(hops) > 1 or post or route.get("pre"):
        ctx.nontrivial(case)
    ctx.sample("matrix:%s:%s" % (dtype, kind), case)


# ---------------------------------------------------------------------------
# sub-check: exhaustive single symbols
# ---------------------------------------------------------------------------
def symbol_items():
    items = []
    for dtype in DTYPES:
        syms = EXH_FLOATS if dtype == "continuous" else full_symbols(dtype)
        for vi, v in enumerate(ALL_VARIANTS):
            if dtype not in SUPPORT[v["fmt"]]:
                if vi in (0, 2, 8):  # one probe per (type, format)
                    items.append({"dtype": dtype, "variant": v, "probe_unsupported": True,
                                  "cells": [syms[0], syms[-1]]})
                continue
            for k, s in enumerate(syms):
                items.append({"dtype": dtype, "variant": v, "cells": [s]})
                items.append({"dtype": dtype, "variant": v, "cells": [s, syms[(k + 1) % len(syms)]]})
    return items


def check_symbol(ctx, case):
    dtype, v, cells = case["dtype"], case["variant"], case["cells"]
    cls = matrix_class(dtype)
    labels = ["t%d" % i for i in range(len(cells))]
    want = [(l, [c]) for l, c in zip(labels, cells)]
    m = cls.from_dict(collections.OrderedDict((l, [c]) for l, c in zip(labels, cells)))
    if case.get("probe_unsupported"):
        wk, rk = variant_kwargs(v, False)
        try:
            with warnings.catch_warnings():
                warnings.simplefilter("ignore")
                text = m.as_string(schema=v["fmt"], **wk)
                m2 = cls.get(data=text, schema=v["fmt"], **rk)
            outcome = "read_back_as_" + type(m2).__name__
        except Exception as e:  # noqa - classification only, any outcome is recorded, none is a verdict
            outcome = type(e).__name__
        ctx.cls("unsupported:%s>%s:%s" % (dtype, v["fmt"], outcome))
        return
    ctx.cls("symbols:%s" % dtype)
    got = read_rows(dtype, m)
    ctx.check(rows_equal(dtype, got, want), "from_dict_rows_equal", "C09.symbol_from_dict",
              lambda: "got %s want %s" % (show(got), show(want)))
    do_hop(ctx, dtype, m, want, v, False, {"labels": labels}, "%dx1" % len(cells))
    fund = set(ALPHABETS[dtype]["fund"]) if dtype != "continuous" else set()
    if dtype == "continuous" or any(c not in fund for c in cells):
        ctx.nontrivial(["symbol", case])


# ---------------------------------------------------------------------------
# sub-check: data sets with several namespaces
# ---------------------------------------------------------------------------
_TITLES = [None, None, "taxa", "Taxa", "ns", "ns 1", "x_y", "a", "b", "A", "set.1", "1"]


_SUBSET_LABELS = ["cs", "part", "p-1", "codon 1", "x_y", "locus000", "1"]


def dataset_labels(n, prefix, hyphens):
    """Simple labels (tree label quoting is C02's subject); optionally with hyphens / blanks inside."""
    word = st.lists(st.sampled_from(_ALNUM[:52]), min_size=1, max_size=4).map("".join)
    joiner = st.sampled_from(["-", "-", " ", "_", "--"]) if hyphens else st.just("")
    return st.lists(st.tuples(word, joiner), min_size=n, max_size=n).map(
        lambda xs: ["%s%s%s%d" % (prefix, x, j, i) for i, (x, j) in enumerate(xs)])


@st.composite
def dataset_matrix(draw, types, n):
    dtype = draw(st.sampled_from(types))
    build = draw(st.sampled_from(["from_dict", "from_dict", "from_dict", "concat", "subsets"]))
    ncols = draw(st.integers(2 if build == "concat" else 1, 6))
    cell = cell_strategy(dtype, "uniform")
    has = [True] * n
    if build != "concat":
        has = [draw(st.integers(0, 5)) > 0 for _ in range(n)]
        if not any(has):
            has[0] = True
    spec = {"dtype": dtype, "build": build,
            "rows": [draw(st.lists(cell, min_size=ncols, max_size=ncols)) if h else None for h in has]}
    if build == "concat":
        spec["cuts"] = cut_points(draw, ncols, 3) or [1]
    if build == "subsets":
        k = draw(st.integers(1, 3))
        labs = draw(st.lists(st.sampled_from(_SUBSET_LABELS), min_size=k, max_size=k, unique_by=lambda x: x.lower()))
        spec["subsets"] = [{"label": l, "indices": sorted(draw(st.sets(st.integers(0, ncols - 1), min_size=1)))}
                           for l in labs]
    return spec


@st.composite
def dataset_cases(draw):
    schema = draw(st.sampled_from(["nexus", "nexus", "nexml"]))
    nns = draw(st.sampled_from([1, 2, 2, 3, 3]))
    types = [t for t in ["dna", "protein", "standard", "continuous", "continuous", "continuous", "rna", "restriction",
                         "nucleotide"] if t in SUPPORT[schema]]
    nss = []
    for i in range(nns):
        # "none": a namespace no tree list / matrix of the data set refers to; "removed": its matrix is added to the
        # data set and taken out again before writing
        content = draw(st.sampled_from(["trees", "matrix", "matrix", "both", "both", "both", "none", "none", "removed"]))
        nmin = 1 if content in ("matrix", "none", "removed") else 2
        shares = None
        sources = [j for j in range(i) if len(nss[j]["labels"]) >= nmin]
        if sources and draw(st.integers(0, 2)) == 0:
            # a namespace made of Taxon OBJECTS of an earlier one (slice / subset / permutation of its taxa)
            j = draw(st.sampled_from(sources))
            nsrc = len(nss[j]["labels"])
            how = draw(st.sampled_from(["slice", "subset", "all"]))
            if how == "slice":
                a = draw(st.integers(0, nsrc - nmin))
                pick = list(range(a, draw(st.integers(a + nmin, nsrc))))
            elif how == "subset":
                pick = list(draw(st.permutations(list(range(nsrc)))))[:draw(st.integers(nmin, nsrc))]
            else:
                pick = list(range(nsrc))
            shares = {"from": j, "pick": pick}
            labels = [nss[j]["labels"][k] for k in pick]
            n = len(labels)
        else:
            n = draw(st.integers(nmin, 5))
            shared = draw(st.integers(0, 3)) == 0  # label lists of different namespaces may overlap
            labels = draw(dataset_labels(n, "" if shared else "n%d" % i, draw(st.integers(0, 2)) == 0))
        ns = {"title": draw(st.sampled_from(_TITLES)), "labels": labels, "trees": None, "matrices": [],
              "removed": content == "removed", "shares": shares}
        if content == "removed":
            content = "matrix"
        if content in ("trees", "both"):
            ntrees = draw(st.integers(1, 2))
            ns["trees"] = [draw(shapes.shapes(min_leaves=n, max_leaves=n, max_arity=3)) for _ in range(ntrees)]
        if content in ("matrix", "both"):
            for _ in range(draw(st.sampled_from([1, 1, 2, 3]))):
                ns["matrices"].append(draw(dataset_matrix(types, n)))
        nss.append(ns)
    # order in which blocks are added to the data set (= order of the blocks of one kind in the document)
    case = {"schema": schema, "nss": nss, "matrices_first": draw(st.booleans()), "shuffle": draw(st.integers(0, 10 ** 6)),
            "subset_carriers_first": draw(st.integers(0, 3)) > 0,
            # order in which the namespaces join the data set (a derived namespace may come before its source)
            "ns_order": list(draw(st.permutations(list(range(nns))))) if draw(st.booleans()) else list(range(nns))}
    if schema == "nexus":
        # "default" = the option is not passed at all
        case["sbt"] = draw(st.sampled_from(["default", "default", None, False]))
    else:
        case["seqs"] = draw(st.booleans())
    case["suppress_unreferenced"] = draw(st.sampled_from([None, None, None, False, True]))
    return case


def check_dataset(ctx, case):
    import dendropy
    schema = case["schema"]
    ds = dendropy.DataSet()
    want_trees, want_mats = [], []
    all_labels = []
    adders = []
    want_ns = []   # [(ordered labels, referenced by a block that is written)]
    to_remove = []
    built = []
    for spec in case["nss"]:
        if spec.get("shares"):
            src_taxa = built[spec["shares"]["from"]][1]
            ns = dendropy.TaxonNamespace([src_taxa[k] for k in spec["shares"]["pick"]], label=spec["title"])
            taxa = dict(enumerate(ns))
            ctx.cls("dataset:namespace_shares_taxon_objects")
        else:
            ns = dendropy.TaxonNamespace(label=spec["title"])
            taxa = {}
            for i, l in enumerate(spec["labels"]):
                taxa[i] = ns.new_taxon(label=l)
        all_labels.extend(spec["labels"])
        built.append((ns, taxa, (list(spec["labels"]), not spec.get("removed") and (
            spec["trees"] is not None or bool(spec.get("matrices") or spec.get("matrix"))))))
    for k in case.get("ns_order") or range(len(built)):
        ds.add_taxon_namespace(built[k][0])
        want_ns.append(built[k][2])
    if any(sp.get("shares") for sp in case["nss"]):
        ctx.cls("dataset:%s:with_shared_taxa" % schema)
        pos = {k: i for i, k in enumerate(case.get("ns_order") or range(len(built)))}
        if any(sp.get("shares") and pos[k] < pos[sp["shares"]["from"]] for k, sp in enumerate(case["nss"])):
            ctx.cls("dataset:derived_namespace_before_source")
    for spec, (ns, taxa, _) in zip(case["nss"], built):
        if spec["trees"] is not None:
            tl = dendropy.TreeList(taxon_namespace=ns)
            for tspec in spec["trees"]:
                tl.append(shapes.build_tree(tspec, ns, taxa, is_rooted=True))
            adders.append((1, ds.add_tree_list, tl, {"ns": list(spec["labels"]), "n": len(spec["trees"]),
                                                      "leaves": sorted(spec["labels"])}))
        for mspec in spec.get("matrices") or ([spec["matrix"]] if spec.get("matrix") else []):
            dtype = mspec["dtype"]
            cls = matrix_class(dtype)
            rows = [(l, list(r)) for l, r in zip(spec["labels"], mspec["rows"]) if r is not None]
            if mspec.get("build") == "concat":
                parts = [cls.from_dict(collections.OrderedDict((l, r[a:b]) for l, r in rows), taxon_namespace=ns)
                         for a, b in blocks_of(len(rows[0][1]), mspec["cuts"])]
                m = cls.concatenate(parts)
            else:
                m = cls.from_dict(collections.OrderedDict(rows), taxon_namespace=ns)
                for sub in mspec.get("subsets") or []:
                    m.new_character_subset(label=sub["label"], character_indices=sub["indices"])
            if spec.get("removed"):
                to_remove.append(m)
                ds.add_char_matrix(m)
                continue
            adders.append((0, ds.add_char_matrix, m, {"ns": list(spec["labels"]), "dtype": dtype, "rows": rows,
                                                       "subsets": bool(m.character_subsets)}))
    random.Random(case.get("shuffle", 0)).shuffle(adders)
    if case.get("subset_carriers_first"):
        adders.sort(key=lambda a: 0 if (a[0] == 0 and a[3]["subsets"]) else 1)
    if case["matrices_first"]:
        adders.sort(key=lambda a: a[0])
    for a in adders:
        a[1](a[2])
        if a[0] == 0:
            want_mats.append(a[3])
        else:
            want_trees.append(a[3])
    for m in to_remove:
        ds.char_matrices.remove(m)
    # position (among the character matrices, in document order) of the matrices that carry character subsets
    carriers = [k for k, w in enumerate(want_mats) if w["subsets"]]
    if carriers:
        ctx.cls("dataset:has_subset_carrying_matrix")
        later = want_mats[carriers[0] + 1:]
        if any(w["dtype"] == "continuous" and any(x < 0 or "e-" in repr(x) for _, c in w["rows"] for x in c)
               for w in later):
            ctx.cls("dataset:continuous_negative_or_exponent_after_subsets")
    if len(want_mats) > 1:
        ctx.cls("dataset:matrices=%d" % len(want_mats))
    nns = len(case["nss"])
    kw = {}
    if schema == "nexus":
        if case["sbt"] != "default":
            kw["suppress_block_titles"] = case["sbt"]
        name = "nexus:sbt=%s" % (case["sbt"],)
    else:
        kw["markup_as_sequences"] = case["seqs"]
        name = "nexml"
    if case.get("suppress_unreferenced") is not None:
        kw["suppress_unreferenced_taxon_namespaces"] = case["suppress_unreferenced"]
    if case.get("suppress_unreferenced"):
        name += ":referenced_only"
        want_ns = [w for w in want_ns if w[1]]
    n_ref = sum(1 for w in want_ns if w[1])
    ctx.cls("dataset:%s:namespaces=%d" % (name, nns))
    if n_ref < len(want_ns):
        ctx.cls("dataset:%s:written_namespaces referenced=%d unreferenced=%d" % (schema, n_ref, len(want_ns) - n_ref))
    titles = [s["title"] for s in case["nss"]]
    if len(set(t.upper() for t in titles if t)) < len([t for t in titles if t]):
        ctx.cls("dataset:titles_equal_up_to_case")
    concat_std = any(ms.get("build") == "concat" and ms["dtype"] == "standard"
                     for sp in case["nss"] for ms in (sp.get("matrices") or []))
    text = lib_call(ctx, "write_dataset", "C09.ds_write:" + name,
                    {"labels": all_labels, "fresh_concat_standard": concat_std, "cells": not case.get("seqs", True)},
                    schema, ds.as_string, schema=schema, **kw)
    ds2 = lib_call(ctx, "read_dataset", "C09.ds_read:%s:%s" % (name, "multi" if nns > 1 else "single"),
                   {"labels": all_labels, "subset_carrier_not_first": any(k > 0 for k in carriers)},
                   schema, dendropy.DataSet.get, data=text, schema=schema)
    doc = lambda: "\n--- document ---\n%s" % text[:2500]
    got_nss = [[t.label for t in x] for x in ds2.taxon_namespaces]
    ctx.check(got_nss == [w[0] for w in want_ns], "dataset_namespaces_equal", "C09.ds_ns_count:" + name,
              lambda: "got %r want %r%s" % (got_nss, [w[0] for w in want_ns], doc()))
    ctx.check(len(ds2.tree_lists) == len(want_trees) and len(ds2.char_matrices) == len(want_mats),
              "dataset_block_count", "C09.ds_block_count:" + name,
              lambda: "tree lists %d/%d matrices %d/%d%s" % (len(ds2.tree_lists), len(want_trees),
                                                           len(ds2.char_matrices), len(want_mats), doc()))
    for tl, w in zip(ds2.tree_lists, want_trees):
        got_ns = [t.label for t in tl.taxon_namespace]
        ctx.check(got_ns == w["ns"], "tree_list_on_own_namespace", "C09.ds_tree_ns:" + name,
                  lambda: "namespace labels %r want %r%s" % (got_ns, w["ns"], doc()))
        ctx.check(any(tl.taxon_namespace is x for x in ds2.taxon_namespaces), "tree_list_namespace_in_dataset",
                  "C09.ds_tree_ns_member:" + name)
        ctx.check(len(tl) == w["n"], "tree_count", "C09.ds_tree_count:" + name)
        for tree in tl:
            leaves = sorted(nd.taxon.label for nd in tree.leaf_node_iter() if nd.taxon is not None)
            inside = all(nd.taxon in tl.taxon_namespace for nd in tree.leaf_node_iter() if nd.taxon is not None)
            ctx.check(leaves == w["leaves"] and inside and tree.taxon_namespace is tl.taxon_namespace,
                      "tree_leaves_in_own_namespace", "C09.ds_tree_leaves:" + name,
                      lambda: "leaves %r want %r inside=%r%s" % (leaves, w["leaves"], inside, doc()))
    for m, w in zip(ds2.char_matrices, want_mats):
        got_ns = [t.label for t in m.taxon_namespace]
        ctx.check(got_ns == w["ns"], "matrix_on_own_namespace", "C09.ds_matrix_ns:" + name,
                  lambda: "namespace labels %r want %r%s" % (got_ns, w["ns"], doc()))
        ctx.check(any(m.taxon_namespace is x for x in ds2.taxon_namespaces), "matrix_namespace_in_dataset",
                  "C09.ds_matrix_ns_member:" + name)
        ctx.check(type(m) is matrix_class(w["dtype"]), "matrix_class", "C09.ds_matrix_class:" + name,
                  lambda: "got %s want %s" % (type(m).__name__, CLASS_NAMES[w["dtype"]]))
        got = read_rows(w["dtype"], m)
        ctx.check(rows_equal(w["dtype"], got, w["rows"]), "dataset_matrix_rows_equal", "C09.ds_matrix_rows:" + name,
                  lambda: "got %s want %s%s" % (show(got), show(w["rows"]), doc()))
    if len(want_ns) >= 2 or len(want_mats) >= 2:
        ctx.nontrivial(case)
    ctx.sample("dataset:%s:%d" % (name, nns), case)


SUBCHECKS = {"matrix": check_matrix, "symbols": check_symbol, "datasets": check_dataset}


def self_check():
    """The module's own symbol tables must cover exactly the library's canonical symbols (else 'full set' is a lie)."""
    for dtype in DISCRETE:
        m = matrix_class(dtype)()
        lib = sorted(s.symbol for s in m.default_state_alphabet if s.symbol)
        if lib != sorted(full_symbols(dtype)):
            raise runner.HarnessError("symbol table of %s out of date: library has %r" % (dtype, lib))


def run(ctx):
    self_check()
    quick = ctx.tier == "quick"
    runner.run_items(ctx, "symbols", symbol_items(), check_symbol)
    total_m = 4800 if quick else 80000
    total_d = 1200 if quick else 16000
    runner.run_given(ctx, "matrix", matrix_cases(ctx.tier), check_matrix, total_m // ctx.nshards)
    runner.run_given(ctx, "datasets", dataset_cases(), check_dataset, total_d // ctx.nshards)
