"""C20 - readers terminate on every input and report bad data as a parse error.

Every input text goes through every applicable reader route (Tree.get, TreeList.get, DataSet.get, the matching
<Type>CharacterMatrix.get, Tree.yield_from_files) under the deterministic step budget of lib/budget.py and the outcome
is classified:

  returns            -> every returned tree must be a well-formed arborescence (lib/snapshot.py) on which the four
                        public traversals visit exactly the reachable nodes; every returned matrix must have no None
                        cell and the numbers of rows / columns the text declares, whenever the text holds exactly one
                        unambiguous declaration (own NEXUS token scanner / PHYLIP header regex)
  DataParseError     -> fine (the library's parse-error family)
  ValueError         -> fine only for the messages _parse_and_create_from_stream documents for a source without
                        (matching) data
  returns, but a complete Newick statement of the text (no quotes/comments anywhere) has unbalanced parentheses
                     -> violation  C20:newick:unbalanced_accepted  (bad data must be reported)
  HangDetected       -> violation  C20:<schema>:hang@<innermost reader function>
  anything else from
  inside dendropy    -> violation  C20:<schema>:<ExceptionType>@<innermost dendropy function>

Returned trees must also obey the library's own rule that a taxon sits on at most one node of a tree
(C20:<schema>:tree_taxon_on_two_nodes) and that node taxa belong to the tree's namespace.

Route dimension: besides the default fresh namespace, routes are run reading into a pre-populated TaxonNamespace
(the document's own labels plus extras, unrelated labels, or the namespace left by a first read of the valid document
through the same route = shared-namespace second read); the oracle is the same.

Sub-checks: valid (generated + corpus documents parse and deliver their content), prefix (EVERY prefix of corpus and
generated documents), edit (1-2 local edits of valid documents), dup (one taxon symbol replaced by a respelling of
another: same label, case variant, TRANSLATE token / taxon number), row (a NEXUS matrix row copied under an extra or
misspelt label, or renamed; or one data line of a NEXUS / PHYLIP / FASTA matrix of any data type made one symbol longer or
shorter), soup (token soups), deep (deeply nested Newick)."""
import io
import re
import sys
import warnings

from hypothesis import strategies as st

from lib import budget, docs, runner
from lib.snapshot import snapshot, traversal_problems

CONFIG = {
    "shards": {"quick": 8, "thorough": 16},
    "budget_s": {"quick": 150, "thorough": 1800},
    "rule": ("Inputs: (prefix, exhaustive) every prefix of every document of /verif/corpus and of N documents drawn "
             "from lib/docs.py (Newick; NEXUS with TAXA/CHARACTERS/DATA/TREES/SETS blocks, TRANSLATE, TITLE/LINK, "
             "interleaved and sequential matrices, comments, quoted labels; PHYLIP strict/relaxed x sequential/"
             "interleaved; FASTA) of <= 400 (quick) / <= 800 (thorough) characters; (edit) 1-2 edits (delete char, "
             "delete span, delete token, insert char, replace char, insert keyword, duplicate span) of such documents; "
             "(dup) one taxon symbol replaced by another taxon's label, case variant, TRANSLATE token or number; "
             "(row) a NEXUS matrix row copied under an extra / misspelt label or renamed, or one data line (row or "
             "interleave segment, any row) of a NEXUS/PHYLIP/FASTA matrix of any data type lengthened by a symbol "
             "(match character, state symbol, multistate group, further value) or shortened; "
             "(page) a PHYLIP document followed by a further page of ntax-1..ntax+2 lines of 1..nchar+1 symbols, read "
             "in the document's and in the flipped layout mode, into fresh and pre-populated namespaces; "
             "(soup) token sequences over each format's alphabet; (deep) Newick nesting depths 10..6000; (valid) the "
             "unmodified documents, which must parse on every route and deliver the abstract content they were "
             "written from; (atheris, thorough tier only) a coverage-guided campaign over bytes -> (reader variant, "
             "text) seeded with valid documents, same oracle.  Each input is read through every applicable route under a step budget of 200000 + "
             "3000*len(text) events, with the default fresh taxon namespace and (all prefix cases of non-Newick "
             "documents, every second Newick prefix, 3/4 of edits, half of soups) again reading into a pre-populated "
             "namespace (own labels + extras / unrelated labels / namespace of a first read of the valid document).  Non-trivial = non-empty input that is not the unmodified valid document; "
             "distinct = (schema, reader kwargs, text).  Histogram = outcome x schema (x route for violations)."),
    "exhaustive": {"quick": True, "thorough": True},
    "exhaustive_note": {
        "quick": "every prefix of every corpus document and of the generated documents (<= 400 chars), every route",
        "thorough": "every prefix of every corpus document and of the generated documents (<= 800 chars), every route"},
    "assumptions": [
        "readers are run with their default suppress_internal_node_taxa=True / suppress_leaf_node_taxa=False, under "
        "which the library documents that a taxon may occur only once on a tree",
        "generated documents use only documented syntax; labels are never a single structural character, never purely "
        "numeric, never a NEXUS keyword",
        "the ValueErrors 'No trees in data source', 'No trees available at requested location in data source', "
        "'No character data in data source' and 'Data source (at offset ..) is of type ..' raised by "
        "_parse_and_create_from_stream are the documented errors for a source without (matching) data",
        "a declaration of NTAX/NCHAR counts only when it is the single one in the text, stands in a DIMENSIONS "
        "statement outside comments/quotes before the single MATRIX keyword, and exactly one matrix is returned; "
        "NTAX counts only when declared in the block of that MATRIX (a TAXA block's NTAX is ambiguous in files with "
        "several TAXA blocks); with exactly one TAXA block (NTAX=n, n TAXLABELS, before the single MATRIX, no TREE "
        "statements in between) a returned matrix may have fewer but never more than n rows - asserted for the "
        "default namespace and for caller-supplied namespaces that are empty or hold only unrelated labels, since a "
        "row label that already is a member of the namespace read into is accepted by design",
        "PHYLIP: whatever namespace is read into (fresh, empty, unrelated taxa, own labels, namespace of a first "
        "read), a returned matrix has exactly the declared number of rows - rows are the sequences read, never the "
        "namespace's other taxa - each of the declared length (clean /repo raises DataParseError otherwise)",
        "the process recursion limit is the 3000 set by vp_check.py; Newick nesting beyond it is a listed known finding",
    ],
}

TOTALS = {
    "quick": {"prefix_docs": 48, "max_len": 400, "valid": 1600, "edit": 3200, "dup": 1200, "row": 1200, "page": 800, "soup": 8000},
    "thorough": {"prefix_docs": 320, "max_len": 800, "valid": 12000, "edit": 50000, "dup": 15000, "row": 10000, "page": 8000, "soup": 30000,
                 "atheris_runs": 160000},
}

MATRIX_CLASS = {"dna": "DnaCharacterMatrix", "rna": "RnaCharacterMatrix", "protein": "ProteinCharacterMatrix",
                "standard": "StandardCharacterMatrix", "continuous": "ContinuousCharacterMatrix"}

NO_DATA_MESSAGES = ("No trees in data source", "No trees available at requested location in data source",
                    "No character data in data source")
TYPE_MISMATCH_PREFIX = "Data source (at offset"

TOKENIZER_FILES = ("tokenizer.py", "nexusprocessing.py")


# ---------------------------------------------------------------------------
# routes
# ---------------------------------------------------------------------------

def routes_for(schema):
    if schema == "newick":
        return ("Tree.get", "TreeList.get", "DataSet.get", "yield")
    if schema == "nexus":
        return ("Tree.get", "TreeList.get", "DataSet.get", "Matrix.get", "yield")
    return ("DataSet.get", "Matrix.get")


class _Stream(io.StringIO):
    """a text stream whose .name can be set (io.StringIO itself has none)"""


SRC_KINDS = (None, "int", "none", "missing", "str")


def make_stream(text, src):
    """File-like source as file= receives it: .name is an int (tempfile.TemporaryFile, os.fdopen), None
    (SpooledTemporaryFile), absent (StringIO) or a path string."""
    s = _Stream(text)
    if src == "int":
        s.name = 7
    elif src == "none":
        s.name = None
    elif src == "str":
        s.name = "/some/dir/input.txt"
    return s


# documented reader keyword arguments of the Newick / NEXUS readers, drawn non-default one at a time
TREE_OPTIONS = [{"store_tree_weights": True}, {"is_parse_jplace_tokens": True}, {"extract_comment_metadata": False},
                {"terminating_semicolon_required": False}, {"rooting": "force-rooted"}, {"rooting": "default-unrooted"},
                {"preserve_underscores": True}, {"suppress_edge_lengths": True}, {"suppress_internal_node_taxa": False},
                {"suppress_leaf_node_taxa": True}, {"store_tree_weights": True, "is_parse_jplace_tokens": True}]


def call_route(route, text, schema, kwargs, matrix_type, tns=None, opts=None, src=None):
    """tns: a (pre-populated) TaxonNamespace to read into, or None for the route's default fresh one.
    opts: further reader keyword arguments (Newick / NEXUS).  src: None -> data=text, else file=make_stream(text, src)."""
    import dendropy
    extra = {} if tns is None else {"taxon_namespace": tns}
    if opts and schema in ("newick", "nexus"):
        extra.update(opts)
    source = {"data": text} if src is None else {"file": make_stream(text, src)}
    if route == "Tree.get":
        return dendropy.Tree.get(schema=schema, **dict(source, **extra))
    if route == "TreeList.get":
        return dendropy.TreeList.get(schema=schema, **dict(source, **extra))
    if route == "yield":
        return list(dendropy.Tree.yield_from_files(files=[make_stream(text, src)], schema=schema, **extra))
    if route == "DataSet.get":
        return dendropy.DataSet.get(schema=schema, **dict(kwargs, **dict(source, **extra)))
    if route == "Matrix.get":
        cls = getattr(dendropy, MATRIX_CLASS[matrix_type or "dna"])
        kw = dict(kwargs, **dict(source, **extra))
        kw.pop("data_type", None)
        return cls.get(schema=schema, **kw)
    raise runner.HarnessError("unknown route %s" % route)


UNRELATED_LABELS = ["zz%02d" % i for i in range(12)]


def make_namespace(ns, route, schema, kwargs, matrix_type):
    """The pre-populated namespace a route reads into, from the plain-data description `ns`:
      {"mode": "labels", "labels": [...]}   a namespace holding these labels (the document's own and/or unrelated ones)
      {"mode": "reread", "text": valid}     the namespace left behind by a first read of the valid document through
                                            the same route (shared-namespace second read)
    Returns None when it cannot be built (first read refused)."""
    import dendropy
    if ns["mode"] == "labels":
        return dendropy.TaxonNamespace(ns["labels"])
    tns = dendropy.TaxonNamespace()
    try:
        # (under the step budget as well: the first read is library code like any other)
        budget.run(lambda: call_route(route, ns["text"], schema, kwargs, matrix_type, tns), step_limit(ns["text"]))
    except (Exception, budget.HangDetected):
        return None
    return tns


def step_limit(text):
    return 200000 + 3000 * len(text)


# ---------------------------------------------------------------------------
# what the text declares (independent of the readers)
# ---------------------------------------------------------------------------

_NEXUS_TOKEN = re.compile(r"""[^\s{}(),;:=\\"]+|[{}(),;:=\\"]""")
_PHYLIP_HEADER = re.compile(r"\s*(\d+)\s+(\d+)\s*$")


def _strip_nexus(text):
    """Remove [comments] (nested, as the NEXUS standard has them) and replace 'quoted tokens' by a placeholder.
    A quote opens a quoted token only at the start of a token (after white space, punctuation or a comment standing
    there), elsewhere it is an ordinary character.  Returns None when a comment or quote is unterminated (a
    declaration is then not 'unambiguous')."""
    out = []
    i, n = 0, len(text)
    at_start = True
    while i < n:
        c = text[i]
        if c == "[":
            depth = 0
            while i < n:
                if text[i] == "[":
                    depth += 1
                elif text[i] == "]":
                    depth -= 1
                    if depth == 0:
                        break
                i += 1
            if i >= n:
                return None
            i += 1
        elif c == "'" and at_start:
            i += 1
            while True:
                if i >= n:
                    return None
                if text[i] == "'":
                    if i + 1 < n and text[i + 1] == "'":
                        i += 2
                        continue
                    break
                i += 1
            i += 1
            out.append(" QUOTED ")
            at_start = True
        else:
            out.append(c)
            at_start = c.isspace() or c in '{}(),;:=\\"'
            i += 1
    return "".join(out)


def declared_dims(text, schema):
    """(ntax, nchar) when the text declares them exactly once and unambiguously, else None."""
    if schema == "phylip":
        first = re.split(r"\r\n|\n|\r", text)[0]
        m = _PHYLIP_HEADER.match(first)
        if m is None:
            return None
        return int(m.group(1)), int(m.group(2))
    if schema != "nexus":
        return None
    if text.count("]") != text.count("[") or "[[" in text:
        # keep clear of texts on which comment-nesting conventions could differ
        return None
    stripped = _strip_nexus(text)
    if stripped is None:
        return None
    toks = [t.upper() for t in _NEXUS_TOKEN.findall(stripped)]
    if toks.count("MATRIX") != 1 or toks.count("NTAX") != 1 or toks.count("NCHAR") != 1:
        return None
    mpos = toks.index("MATRIX")
    if toks.count("DIMENSIONS") > 2 or "BEGIN" not in toks[:mpos]:
        return None
    vals = {}
    for key in ("NTAX", "NCHAR"):
        p = toks.index(key)
        if p > mpos or p + 2 >= len(toks) or toks[p + 1] != "=" or not toks[p + 2].isdigit():
            return None
        # the statement holding it must start with DIMENSIONS
        q = p
        while q > 0 and toks[q - 1] != ";":
            q -= 1
        if toks[q] != "DIMENSIONS":
            return None
        # and every token of the statement up to the declaration must be part of a NAME = digits triple, so that the
        # reader cannot be inside some other construct
        body = toks[q + 1:p]
        if len(body) % 3 or any(body[k] not in ("NTAX", "NCHAR") or body[k + 1] != "=" or not body[k + 2].isdigit()
                                for k in range(0, len(body), 3)):
            return None
        vals[key] = int(toks[p + 2])
        if key == "NTAX":
            # NTAX governs the matrix only when declared in the matrix's own block: a TAXA block's NTAX may belong
            # to another set of taxa in files with several TAXA blocks, and the reader keeps one global value
            begin = max(k for k in range(mpos) if toks[k] == "BEGIN")
            if p < begin:
                vals[key] = None
    return vals["NTAX"], vals["NCHAR"]


def taxa_block_row_limit(text):
    """Upper bound on the rows of the single matrix of a NEXUS text whose NTAX stands in a TAXA block only, else None.

    The exemption of declared_dims (a TAXA block's NTAX says nothing about a matrix in files with several TAXA blocks)
    does not apply when the text has EXACTLY ONE TAXA block, that block holds the single DIMENSIONS NTAX=n and one
    TAXLABELS statement with exactly n plain labels, it precedes the single MATRIX, the matrix's block has no NTAX of
    its own and no TREE / TRANSLATE statement (which may add taxa) comes before the MATRIX.  Every row label must then
    be one of the n declared taxa (the reader enforces it with TooManyTaxaError), so a returned matrix has at most n
    rows.  Fewer rows are legal: the reader checks the row count only against an NTAX of the matrix's own block."""
    dims = declared_dims(text, "nexus")
    if dims is None or dims[0] is not None:
        return None
    toks = [t.upper() for t in _NEXUS_TOKEN.findall(_strip_nexus(text))]
    mpos = toks.index("MATRIX")
    before = toks[:mpos]
    if "TREE" in before or "TRANSLATE" in before or "TREES" in before:
        return None
    taxa_begins = [k for k in range(len(toks) - 1) if toks[k] == "BEGIN" and toks[k + 1] == "TAXA"]
    if len(taxa_begins) != 1 or toks.count("TAXLABELS") != 1 or toks.count("TAXA") != 1:
        return None
    b = taxa_begins[0]
    ends = [k for k in range(b, len(toks)) if toks[k] in ("END", "ENDBLOCK")]
    if not ends or ends[0] > mpos:
        return None
    e = ends[0]
    pn, pl = toks.index("NTAX"), toks.index("TAXLABELS")
    if not (b < pn < pl < e) or toks[pl - 1] != ";":
        return None
    labels = []
    k = pl + 1
    while k < e and toks[k] != ";":
        labels.append(toks[k])
        k += 1
    if k >= e or any(len(t) == 1 and t in '{}(),;:=\\"' for t in labels):
        return None
    ntax = int(toks[pn + 2])
    if len(labels) != ntax or toks[k + 1] not in ("END", "ENDBLOCK"):
        return None
    return ntax


# ---------------------------------------------------------------------------
# well-formedness of what a reader returned
# ---------------------------------------------------------------------------

def tree_problems(tree):
    rt, problems = snapshot(tree)
    if not problems:
        problems = traversal_problems(tree, rt)
    return rt, problems


def taxon_problems(tree, rt):
    """The library's own rule: a taxon occurs at most once on a tree (NewickReaderDuplicateTaxonError: 'Multiple
    occurrences of the same taxa on trees are not supported'; the readers are run with their default
    suppress_*_node_taxa settings) and every node taxon is a member of the tree's namespace."""
    problems = []
    seen = {}
    members = set(id(t) for t in tree.taxon_namespace._taxa)
    for nd in rt.obj:
        t = getattr(nd, "taxon", None)
        if t is None:
            continue
        if id(t) in seen and not any(k == "taxon_on_two_nodes" for k, _ in problems):
            problems.append(("taxon_on_two_nodes", "taxon %r sits on two nodes" % (t.label,)))
        seen[id(t)] = nd
        if id(t) not in members and not any(k == "taxon_outside_namespace" for k, _ in problems):
            problems.append(("taxon_outside_namespace", "node taxon %r is not in the tree's taxon namespace" % (t.label,)))
    return problems


def matrix_rows(m):
    """[(label, [cells])] through the raw containers"""
    out = []
    tsm = m._taxon_sequence_map
    for taxon in tsm:
        seq = tsm[taxon]
        cells = list(getattr(seq, "_character_values", seq))
        out.append((taxon.label if taxon is not None else None, cells))
    return out


def matrix_problems(m, dims, max_rows=None):
    problems = []
    rows = matrix_rows(m)
    for label, cells in rows:
        if any(c is None for c in cells):
            problems.append(("none_cell", "row %r holds a None cell" % (label,)))
            break
    if dims is not None:
        ntax, nchar = dims
        if max_rows is not None and len(rows) > max_rows:
            problems.append(("rows", "the text's only TAXA block declares %d taxa, matrix has %d rows %r" % (
                max_rows, len(rows), [r[0] for r in rows][:8])))
        if ntax is not None and len(rows) != ntax:
            problems.append(("rows", "text declares %d taxa, matrix has %d rows" % (ntax, len(rows))))
        bad = [(label, len(cells)) for label, cells in rows if len(cells) != nchar]
        if bad:
            problems.append(("columns", "text declares %d characters, rows have %r" % (nchar, bad[:4])))
    return problems


def returned_objects(res):
    """(trees, matrices) inside whatever a route returned"""
    import dendropy
    trees, mats = [], []
    if isinstance(res, dendropy.Tree):
        trees.append(res)
    elif isinstance(res, dendropy.TreeList) or isinstance(res, list):
        trees.extend(res)
    elif isinstance(res, dendropy.DataSet):
        for tl in res.tree_lists:
            trees.extend(tl)
        mats.extend(res.char_matrices)
    elif isinstance(res, dendropy.CharacterMatrix):
        mats.append(res)
    else:
        raise runner.HarnessError("route returned %r" % (type(res),))
    return trees, mats


# ---------------------------------------------------------------------------
# the oracle
# ---------------------------------------------------------------------------

def reader_frame(exc):
    """innermost dendropy function on the traceback that is not tokenizer plumbing"""
    tb = exc.__traceback__
    best = None
    anylib = None
    while tb is not None:
        code = tb.tb_frame.f_code
        fn = code.co_filename
        if "/dendropy/" in fn:
            anylib = code.co_name
            if not fn.endswith(TOKENIZER_FILES):
                best = code.co_name
        tb = tb.tb_next
    return best or anylib


def recursing_function(exc):
    """the dendropy function with most frames on the traceback"""
    counts = {}
    tb = exc.__traceback__
    while tb is not None:
        code = tb.tb_frame.f_code
        if "/dendropy/" in code.co_filename:
            counts[code.co_name] = counts.get(code.co_name, 0) + 1
        tb = tb.tb_next
    return max(sorted(counts), key=counts.get) if counts else None


def duplicate_labels(tns):
    seen, dups = set(), set()
    for t in tns._taxa:
        l = t.label.lower() if isinstance(t.label, str) else t.label
        if l in seen:
            dups.add(l)
        seen.add(l)
    return dups


def run_route(ctx, route, text, schema, kwargs, matrix_type, dims, valid=False, tns=None, max_rows=None, opts=None,
              src=None):
    """Returns (outcome, result or None).  Violations go through ctx.fail with a root-cause key."""
    route_name = route
    if tns is not None:
        route_name += "[into a namespace of %d taxa]" % len(tns)
    if opts:
        route_name += "[%s]" % ", ".join("%s=%r" % kv for kv in sorted(opts.items()))
    if src is not None:
        route_name += "[file= stream, name %s]" % src
    pre_dups = duplicate_labels(tns) if tns is not None else set()
    from dendropy.utility.error import DataParseError
    clause = "reader_outcome"
    limit = step_limit(text)
    try:
        res, events = budget.run(lambda: call_route(route, text, schema, kwargs, matrix_type, tns, opts, src), limit)
    except budget.HangDetected as e:
        where = reader_frame(e) or e.hot
        ctx.cls("%s:hang" % schema)
        ctx.fail("terminates", "C20:%s:hang@%s" % (schema, where),
                 "route %s did not finish within %d events (in %s) on %r" % (route_name, limit, where, text[:300]))
        return "hang", None
    except DataParseError:
        return "parse_error", None
    except RecursionError as e:
        if reader_frame(e) is None:
            raise
        where = recursing_function(e)
        ctx.cls("%s:RecursionError" % schema)
        ctx.fail(clause, "C20:%s:RecursionError@%s" % (schema, where),
                 "route %s: RecursionError (recursing in %s) on text of %d chars starting %r" % (
                     route_name, where, len(text), text[:60]))
        return "internal_error", None
    except Exception as e:
        best, last = runner.innermost_dendropy_frame(e)
        if best is None or (last or "").startswith(runner.VERIF):
            raise
        if isinstance(e, ValueError) and best[0] == "_parse_and_create_from_stream":
            msg = str(e)
            if msg in NO_DATA_MESSAGES:
                return "no_data", None
            if msg.startswith(TYPE_MISMATCH_PREFIX):
                return "other_data_type", None
        ctx.cls("%s:%s" % (schema, type(e).__name__))
        ctx.fail(clause, "C20:%s:%s@%s" % (schema, type(e).__name__, best[0]),
                 "route %s raised %s: %s (at %s:%s) on %r" % (route_name, type(e).__name__, str(e)[:200], best[1], best[2],
                                                              text[:300]))
        return "internal_error", None
    if valid:
        mx = ctx.notes.setdefault("max", {})
        mx["events_on_valid_doc"] = max(mx.get("events_on_valid_doc", 0), events)
        mx["events_per_limit_permille"] = max(mx.get("events_per_limit_permille", 0), int(1000.0 * events / limit))
        if events * 10 > limit:
            raise runner.HarnessError("valid document needs %d events, more than a tenth of the limit %d" % (events, limit))
    trees, mats = returned_objects(res)
    for k, tree in enumerate(trees):
        rt, problems = tree_problems(tree)
        if problems:
            ctx.cls("%s:malformed_tree" % schema)
            ctx.fail("returned_tree_wellformed", "C20:%s:malformed_tree" % schema,
                     "route %s returned tree %d with %s on %r" % (route_name, k, problems[:3], text[:300]))
        else:
            for kind, msg in taxon_problems(tree, rt):
                ctx.cls("%s:tree_%s" % (schema, kind))
                ctx.fail("returned_tree_wellformed", "C20:%s:tree_%s" % (schema, kind),
                         "route %s returned tree %d in which %s on %r" % (route_name, k, msg, text[:300]))
    if not (tns is not None and tns.is_case_sensitive):
        for ns_ in dict((id(t.taxon_namespace), t.taxon_namespace) for t in trees).values():
            new_dups = duplicate_labels(ns_) - pre_dups
            if new_dups:
                ctx.cls("%s:namespace_duplicate_label" % schema)
                ctx.fail("returned_tree_wellformed", "C20:%s:namespace_duplicate_label" % schema,
                         "route %s returned trees whose (case-insensitive) taxon namespace holds two taxa labelled %r "
                         "(labels %r) on %r" % (route_name, sorted(map(str, new_dups))[:3], ns_.labels()[:10], text[:300]))
    use_dims = dims if len(mats) == 1 else None
    for k, m in enumerate(mats):
        for kind, msg in matrix_problems(m, use_dims, max_rows if use_dims is not None else None):
            ctx.cls("%s:matrix_%s" % (schema, kind))
            ctx.fail("returned_matrix_dimensions", "C20:%s:matrix_%s" % (schema, kind),
                     "route %s, matrix %d: %s on %r" % (route_name, k, msg, text[:300]))
    return "returns", res


def unbalanced_newick_statement(text):
    """The first complete (';'-terminated) Newick statement whose parentheses do not balance, else None.

    Only decided for texts without quote and comment characters, where '(' ')' ';' can be nothing but structure; a
    trailing piece without ';' is not a statement and is ignored."""
    if "'" in text or "[" in text or "]" in text:
        return None
    for stmt in text.split(";")[:-1]:
        depth = 0
        for c in stmt:
            if c == "(":
                depth += 1
            elif c == ")":
                depth -= 1
                if depth < 0:
                    return stmt
        if depth != 0:
            return stmt
    return None


def run_text(ctx, text, schema, kwargs, matrix_type, ns=None, opts=None, src=None):
    """ns: optional description (see make_namespace) of a pre-populated taxon namespace; every route is then run a
    second time reading into it (a fresh copy per route)."""
    dims = declared_dims(text, schema)
    if dims is not None:
        ctx.cls("%s:dims_declared" % schema)
    bad_stmt = unbalanced_newick_statement(text) if schema == "newick" else None
    if bad_stmt is not None:
        ctx.cls("newick:has_unbalanced_statement")
    max_rows = taxa_block_row_limit(text) if schema == "nexus" and dims is not None else None
    if max_rows is not None:
        ctx.cls("nexus:row_limit_from_taxa_block")
    # the bound holds when the namespace read into starts without foreign-made members a row label could match
    ns_bound_ok = ns is not None and ns["mode"] == "labels" and (not ns["labels"] or ns["labels"] == UNRELATED_LABELS)
    for route in routes_for(schema):
        outcome, _ = run_route(ctx, route, text, schema, kwargs, matrix_type, dims, max_rows=max_rows, opts=opts,
                               src=src)
        ctx.cls("%s:%s" % (schema, outcome))
        if opts and schema in ("newick", "nexus"):
            ctx.cls("opts:%s:%s" % (",".join(sorted(opts)), outcome))
        if src is not None:
            ctx.cls("src:%s:%s" % (src, outcome))
        if bad_stmt is not None and outcome in ("returns", "no_data"):
            ctx.cls("newick:unbalanced_accepted")
            ctx.fail("bad_data_reported", "C20:newick:unbalanced_accepted",
                     "route %s accepted (%s) a text whose statement %r has unbalanced parentheses: %r" % (
                         route, outcome, bad_stmt[:80], text[:300]))
        if ns is not None:
            tns = make_namespace(ns, route, schema, kwargs, matrix_type)
            if tns is None:
                ctx.cls("ns:%s:not_built" % ns["mode"])
                continue
            outcome, _ = run_route(ctx, route, text, schema, kwargs, matrix_type, dims, tns=tns,
                                   max_rows=max_rows if ns_bound_ok else None, opts=opts)
            ctx.cls("ns:%s:%s:%s" % (ns["mode"], schema, outcome))


# ---------------------------------------------------------------------------
# valid documents deliver their content
# ---------------------------------------------------------------------------

def _cell_ok(cell, exp, data_type):
    if data_type == "continuous":
        return cell == exp
    if exp[0] in "{(" and len(exp) > 1:
        return set(s.upper() for s in cell.fundamental_symbols) == set(exp[1:-1].upper())
    sym = cell.symbol
    return sym is not None and sym.upper() == exp.upper()


def compare_tree(ctx, route, tree, exp, labels, text, check_name):
    def bad(what):
        ctx.fail("valid_document_content", "C20:valid:tree_content", "route %s: %s on %r" % (route, what, text[:400]))
    rt, problems = tree_problems(tree)
    if problems:
        return
    index = dict((l, i) for i, l in enumerate(labels))
    try:
        got = rt.to_spec(taxon_index=index)
    except KeyError as e:
        return bad("tree carries a taxon label %s the document does not define" % (e,))
    if got != exp["spec"]:
        return bad("tree structure/labels/lengths differ: got %r, document says %r" % (got, exp["spec"]))
    if tree._is_rooted is not exp["rooted"]:
        return bad("rooting is %r, document says %r" % (tree._is_rooted, exp["rooted"]))
    if check_name and exp["name"] is not None and tree.label != exp["name"]:
        return bad("tree name is %r, document says %r" % (tree.label, exp["name"]))


def compare_matrix(ctx, route, m, exp, text):
    def bad(what):
        ctx.fail("valid_document_content", "C20:valid:matrix_content", "route %s: %s on %r" % (route, what, text[:400]))
    rows = matrix_rows(m)
    got = dict(rows)
    if len(rows) != len(exp["rows"]) or set(got) != set(r[0] for r in exp["rows"]):
        return bad("row labels %r, document says %r" % (sorted(map(repr, got)), [r[0] for r in exp["rows"]]))
    if m.data_type != exp["data_type"]:
        return bad("data type %r, document says %r" % (m.data_type, exp["data_type"]))
    for label, cells in exp["rows"]:
        have = got[label]
        if len(have) != len(cells):
            return bad("row %r has %d cells, document has %d" % (label, len(have), len(cells)))
        for k, (c, e) in enumerate(zip(have, cells)):
            if c is None or not _cell_ok(c, e, exp["data_type"]):
                return bad("row %r column %d is %r, document says %r" % (label, k, c, e))
    if exp.get("title") is not None and route != "Matrix.get" and m.label != exp["title"]:
        return bad("matrix title %r, document says %r" % (m.label, exp["title"]))
    for name, cols in exp.get("charsets", {}).items():
        cs = m.character_subsets.get(name) if hasattr(m.character_subsets, "get") else None
        if cs is None:
            return bad("character set %r missing (have %r)" % (name, list(m.character_subsets.keys())))
        if sorted(cs.character_indices) != cols:
            return bad("character set %r = %r, document says %r" % (name, sorted(cs.character_indices), cols))


def sub_valid(ctx, doc):
    """doc: a document of lib/docs.py (content may be None for corpus files)."""
    text, schema, kwargs, mt = doc["text"], doc["schema"], doc["kwargs"], doc.get("matrix_type")
    content = doc.get("content")
    dims = declared_dims(text, schema)
    ctx.cls("valid:%s" % schema)
    if content:
        for m in content["matrices"]:
            ctx.cls("valid:%s:matrix:%s%s" % (schema, m["data_type"], ":interleaved" if m["interleaved"] else ""))
            if m["charsets"]:
                ctx.cls("valid:nexus:charsets")
        if schema == "nexus":
            ctx.cls("valid:nexus:%d_matrices_%d_tree_blocks" % (
                len(content["matrices"]), len(set(t["block"] for t in content["trees"]))))
            if dims is not None:
                ctx.cls("valid:nexus:dims_declared")
                m0 = content["matrices"][0]
                if dims[1] != m0["nchar"] or dims[0] not in (None, m0["ntax"]):
                    raise runner.HarnessError("declared_dims %r disagrees with the generator %r on %r" % (
                        dims, (m0["ntax"], m0["nchar"]), text))
    for route in routes_for(schema):
        if route == "Matrix.get" and mt is None:
            continue
        outcome, res = run_route(ctx, route, text, schema, kwargs, mt, dims, valid=True)
        ctx.cls("valid:%s:%s" % (schema, outcome))
        if outcome in ("hang", "internal_error"):
            continue   # a listed known finding
        has_trees = content is None or bool(content["trees"])
        has_mats = content is None or bool(content["matrices"])
        if content is None:
            # hand-written corpus: trees need a trees block; decided by a plain text scan
            has_trees = schema == "newick" or "TREE " in text.upper()
            has_mats = schema in ("phylip", "fasta") or "MATRIX" in text.upper()
        expect_return = {"Tree.get": has_trees, "Matrix.get": has_mats}.get(route, True)
        if outcome != "returns":
            if outcome == "parse_error" and doc.get("single_namespace_routes_may_reject") and \
                    route in ("Tree.get", "TreeList.get", "Matrix.get"):
                continue
            if expect_return or outcome == "parse_error":
                quoted_semi = schema == "nexus" and "';'" in text
                ctx.fail("valid_document_accepted", "C20:valid:rejected:%s%s" % (
                    schema, ":quoted_semicolon_label" if quoted_semi else ""),
                         "route %s answered %s on the valid document %r" % (route, outcome, text[:500]))
            continue
        if content is None:
            continue
        trees, mats = returned_objects(res)
        labels = content["taxon_labels"]
        if route == "Tree.get":
            compare_tree(ctx, route, trees[0], content["trees"][0], labels, text, False)
        elif route in ("TreeList.get", "yield", "DataSet.get"):
            if len(trees) != len(content["trees"]):
                ctx.fail("valid_document_content", "C20:valid:tree_count",
                         "route %s returned %d trees, document has %d: %r" % (route, len(trees), len(content["trees"]),
                                                                             text[:400]))
            else:
                for t, e in zip(trees, content["trees"]):
                    compare_tree(ctx, route, t, e, labels, text, True)
        if route == "DataSet.get":
            if len(mats) != len(content["matrices"]):
                ctx.fail("valid_document_content", "C20:valid:matrix_count",
                         "DataSet.get returned %d matrices, document has %d: %r" % (len(mats), len(content["matrices"]),
                                                                                    text[:400]))
            else:
                for m, e in zip(mats, content["matrices"]):
                    compare_matrix(ctx, route, m, e, text)
        elif route == "Matrix.get":
            compare_matrix(ctx, route, mats[0], content["matrices"][0], text)
    ctx.sample("valid:%s" % schema, {"text": text, "kwargs": kwargs})


# ---------------------------------------------------------------------------
# sub-checks on corrupted input
# ---------------------------------------------------------------------------

def canon(schema, kwargs, text):
    return [schema, sorted(kwargs.items()), text]


def ns_for(doc, mode):
    """Namespace description for a corruption of `doc` (slim form, optional "labels"):
    mode None | "own" | "unrelated" | "reread" | "empty" (a caller-supplied namespace without taxa)."""
    if mode is None:
        return None
    if mode == "reread":
        return {"mode": "reread", "text": doc["text"]}
    if mode == "empty":
        return {"mode": "labels", "labels": []}
    if mode == "own" and doc.get("labels"):
        return {"mode": "labels", "labels": list(doc["labels"]) + UNRELATED_LABELS[:3]}
    return {"mode": "labels", "labels": UNRELATED_LABELS}


NS_MODES = ("reread", "own", "unrelated", "empty")


def sub_prefix(ctx, case):
    """case: {"text": prefix, "schema", "kwargs", "matrix_type", "full": bool}"""
    text = case["text"]
    run_text(ctx, text, case["schema"], case["kwargs"], case.get("matrix_type"), case.get("ns"), case.get("opts"),
             case.get("src"))
    if text and not case.get("full"):
        ctx.nontrivial(canon(case["schema"], case["kwargs"], text))


def sub_edit(ctx, case):
    """case: {"doc": {"text", "schema", "kwargs", "matrix_type"}, "edits": [...]}"""
    d = case["doc"]
    text = docs.apply_edits(d["text"], case["edits"], d["schema"])
    for e in case["edits"]:
        ctx.cls("edit_op:%s" % e["op"])
    run_text(ctx, text, d["schema"], d["kwargs"], d.get("matrix_type"), ns_for(d, case.get("ns_mode")),
             case.get("opts"), case.get("src"))
    if text and text != d["text"]:
        ctx.nontrivial(canon(d["schema"], d["kwargs"], text))
        ctx.sample("edit:%s" % d["schema"], {"text": text})


def sub_soup(ctx, case):
    """case: {"text", "schema", "kwargs", "matrix_type"}"""
    run_text(ctx, case["text"], case["schema"], case["kwargs"], case.get("matrix_type"), case.get("ns"),
             case.get("opts"), case.get("src"))
    if case["text"]:
        ctx.nontrivial(canon(case["schema"], case["kwargs"], case["text"]))
        ctx.sample("soup:%s" % case["schema"], {"text": case["text"]})


_WORD = re.compile(r"[A-Za-z0-9_.]+")
DUP_VARIANTS = ("same", "swapcase", "upper", "lower", "number", "same", "swapcase")


def dup_text(case):
    """One taxon symbol of a valid Newick/NEXUS document replaced by (a respelling of) another one, so that a tree may
    name one taxon twice: identical label, case variant (namespaces are case-insensitive by default), TRANSLATE token
    or taxon number next to the label.  Candidate words are the plain taxon labels (either spelling of blanks) and
    short numbers (TRANSLATE tokens / taxon numbers)."""
    d = case["doc"]
    text = d["text"]
    labels = d.get("labels") or []
    known = set()
    for l in labels:
        known.add(l.lower())
        known.add(l.replace(" ", "_").lower())
    words = [m for m in _WORD.finditer(text) if m.group(0).lower() in known or
             (m.group(0).isdigit() and len(m.group(0)) <= 2)]
    if len(words) < 2:
        return text
    src = words[case["src"] % len(words)]
    dst = words[case["dst"] % len(words)]
    w = src.group(0)
    v = case["variant"]
    if v == "swapcase":
        w = w.swapcase()
    elif v == "upper":
        w = w.upper()
    elif v == "lower":
        w = w.lower()
    elif v == "number":
        low = [l.lower() for l in labels]
        key = w.lower().replace("_", " ")
        if key in low:
            w = str(low.index(key) + 1)
    return text[:dst.start()] + w + text[dst.end():]


def sub_dup(ctx, case):
    """case: {"doc": slim document with "labels", "src": int, "dst": int, "variant": one of DUP_VARIANTS,
    "ns_mode": None|"own"|"unrelated"|"reread"}"""
    d = case["doc"]
    text = dup_text(case)
    ctx.cls("dup:%s:%s" % (d["schema"], case["variant"]))
    run_text(ctx, text, d["schema"], d["kwargs"], d.get("matrix_type"), ns_for(d, case.get("ns_mode")),
             case.get("opts"), case.get("stream"))
    if text != d["text"]:
        ctx.nontrivial(canon(d["schema"], d["kwargs"], text))
        ctx.sample("dup:%s" % d["schema"], {"text": text})


_ROW = re.compile(r"^(\s*)('(?:[^']|'')*'|[^\s;']+)(\s+\S.*)$")


ROW_SYMBOLS = [".", ".", "A", "?", "-", "0", "..", ".A", "{AG}", "N.", " 9.99", " 1 2", " .", "x", "1"]
ROW_OPS = ("extra", "misspelt", "rename", "lengthen", "lengthen", "lengthen", "shorten", "page")


def _nexus_matrix_rows(lines):
    """[(line index, match)] of the lines that start a row (or a row's segment) inside NEXUS MATRIX statements"""
    rows = []
    inside = False
    for i, line in enumerate(lines):
        if inside:
            if ";" in line and not _ROW.match(line.split(";")[0] + " x"):
                inside = False
                continue
            m = _ROW.match(line)
            if m:
                rows.append((i, m))
            if ";" in line:
                inside = False
        elif line.strip().upper() == "MATRIX":
            inside = True
    return rows


def _resize(line, op, sym):
    """a data line one symbol (value) longer / shorter; a terminating ';' stays last"""
    body = line.rstrip()
    semi = body.endswith(";")
    if semi:
        body = body[:-1].rstrip()
    if op == "lengthen":
        body += sym
    else:
        cut = body.rstrip()
        # drop the last value (continuous) or the last symbol
        if " " in cut.strip() and cut.split()[-1].replace(".", "").replace("-", "").replace("e", "").isdigit() and \
                len(cut.split()[-1]) > 1:
            body = cut[:len(cut) - len(cut.split()[-1])].rstrip()
        else:
            body = cut[:-1]
    return body + (";" if semi else "")


PAGE_SYMBOLS = {"dna": "ACGT", "rna": "ACGU", "protein": "ACDEFGHIK", "standard": "0123", "continuous": None}


def phylip_page_text(case):
    """A PHYLIP document followed by a further page: ntax + d lines (d = -1, 0, 1, 2) of w symbols / values of the
    document's data type each (w = the declared length, one, one less, one more), optionally behind a blank line -
    the stray trailing lines, surplus page or short page an interleaved or concatenated file has."""
    d = case["doc"]
    text = d["text"]
    m = _PHYLIP_HEADER.match(re.split(r"\r\n|\n|\r", text)[0])
    if m is None:
        return text
    ntax, nchar = int(m.group(1)), int(m.group(2))
    page = case.get("page") or {}
    nlines = max(1, ntax + page.get("lines", 0))
    width = {"full": nchar, "one": 1, "short": max(1, nchar - 1), "long": nchar + 1}[page.get("width", "full")]
    pool = PAGE_SYMBOLS.get(d["kwargs"].get("data_type"), "ACGT")
    out = text if text.endswith("\n") else text + "\n"
    if page.get("blank"):
        out += "\n"
    for i in range(nlines):
        if pool is None:
            out += " ".join("%d.5" % ((i + j) % 7) for j in range(width)) + "\n"
        else:
            out += "".join(pool[(i + j) % len(pool)] for j in range(width)) + "\n"
    return out


def row_text(case):
    """A matrix whose rows contradict the declaration, made from a valid NEXUS / PHYLIP / FASTA document:
      extra / misspelt / rename (NEXUS): every MATRIX line that starts with the chosen row's label (one line when
        sequential, one per block when interleaved) is copied under a new label, copied under a misspelt label, or
        relabelled;
      lengthen / shorten (all three formats, every data type, sequential and interleaved): one data line - a whole row
        or one segment of it, the first row or a later one - gets one more symbol from ROW_SYMBOLS (match character,
        state symbols, multistate group, a further value ...) or loses its last symbol / value."""
    d = case["doc"]
    text = d["text"]
    lines = text.split("\n")
    op = case["op"]
    sym = ROW_SYMBOLS[case.get("sym", 0) % len(ROW_SYMBOLS)]
    if d["schema"] == "phylip" and op == "page":
        return phylip_page_text(case)
    if d["schema"] != "nexus":
        if op not in ("lengthen", "shorten"):
            op = "lengthen" if op != "misspelt" else "shorten"
        if d["schema"] == "phylip":
            data = [i for i, l in enumerate(lines) if i > 0 and l.strip()]
        else:
            data = [i for i, l in enumerate(lines) if l.strip() and not l.lstrip().startswith(">")]
        if not data:
            return text
        k = data[case["row"] % len(data)]
        lines[k] = _resize(lines[k], op, sym)
        return "\n".join(lines)
    rows = _nexus_matrix_rows(lines)
    if not rows:
        return text
    k, chosen = rows[case["row"] % len(rows)]
    if op in ("lengthen", "shorten"):
        lines[k] = _resize(lines[k], op, sym)
        return "\n".join(lines)
    label = chosen.group(2)
    if op == "misspelt" and not label.startswith("'"):
        new = label + "x"
    else:
        new = ["Xtra", "'new one'", "zq9"][case["row"] % 3]
    out = []
    for i, line in enumerate(lines):
        m = _ROW.match(line) if any(i == j for j, _ in rows) else None
        if m is not None and m.group(2) == label:
            if op == "rename":
                out.append(m.group(1) + new + m.group(3))
            else:
                tail = m.group(3)
                semi = tail.rstrip().endswith(";")
                out.append(m.group(1) + label + (tail.rstrip()[:-1] if semi else tail))
                out.append(m.group(1) + new + tail)
        else:
            out.append(line)
    return "\n".join(out)


def sub_row(ctx, case):
    """case: {"doc": slim NEXUS/PHYLIP/FASTA document, "row": int, "op": one of ROW_OPS, "sym": int,
    "ns_mode": None|..., optional "page": {"lines", "width", "blank"} (op "page", PHYLIP), optional "flip":
    "interleaved"|"strict" (PHYLIP: read the text through the other layout mode)}"""
    d = case["doc"]
    text = row_text(case)
    kwargs = d["kwargs"]
    flip = case.get("flip")
    if d["schema"] == "phylip" and flip in ("interleaved", "strict"):
        # the same text through the reader's other layout mode
        kwargs = dict(kwargs)
        kwargs[flip] = not kwargs.get(flip, False)
        ctx.cls("row:phylip:read_with_%s_flipped" % flip)
    ctx.cls("row:%s:%s:%s:%s" % (d["schema"], d.get("matrix_type"), case["op"],
                                 "changed" if text != d["text"] else "no_matrix"))
    if case["op"] == "page" and d["schema"] == "phylip":
        ctx.cls("page:%s:lines%+d:%s:ns=%s" % ("interleaved" if kwargs.get("interleaved") else "sequential",
                                             (case.get("page") or {}).get("lines", 0),
                                             (case.get("page") or {}).get("width", "full"), case.get("ns_mode")))
    run_text(ctx, text, d["schema"], kwargs, d.get("matrix_type"), ns_for(d, case.get("ns_mode")), None,
             case.get("src"))
    if text != d["text"]:
        ctx.nontrivial(canon(d["schema"], d["kwargs"], text))
        ctx.sample("row:%s" % case["op"], {"text": text})


def deep_text(case):
    d = case["depth"]
    kind = case["kind"]
    if kind == "nest":
        core = "(" * d + "A" + ")" * d
    elif kind == "caterpillar":
        core = "(" * d + "A" + "".join(",t%d)" % i for i in range(d))
    elif kind == "open":
        core = "(" * d + "A"
    elif kind == "comments":
        core = "[c] " * d + "(A,B)"
    else:
        raise runner.HarnessError(kind)
    if case["schema"] == "nexus":
        return "#NEXUS\nBEGIN TREES;\n TREE t = " + core + ";\nEND;\n"
    return core + ";"


def sub_deep(ctx, case):
    """case: {"kind": "nest"|"caterpillar"|"open"|"comments", "depth": int, "schema": "newick"|"nexus"}"""
    text = deep_text(case)
    ctx.cls("deep:%s:%d" % (case["kind"], case["depth"]))
    run_text(ctx, text, case["schema"], {}, None)
    ctx.nontrivial(["deep", case])


SUBCHECKS = {"valid": sub_valid, "prefix": sub_prefix, "edit": sub_edit, "dup": sub_dup, "row": sub_row, "page": sub_row,
             "soup": sub_soup,
             "deep": sub_deep}


# ---------------------------------------------------------------------------
# drivers
# ---------------------------------------------------------------------------

def slim(doc):
    out = {"text": doc["text"], "schema": doc["schema"], "kwargs": doc["kwargs"], "matrix_type": doc.get("matrix_type")}
    if doc.get("content"):
        out["labels"] = doc["content"]["taxon_labels"]
    return out


def draw_documents(strategy, n, seed):
    """n documents drawn by Hypothesis with a fixed seed (a pure function of strategy, n, seed)."""
    import hypothesis
    from hypothesis import HealthCheck, Phase, given, settings
    out = []

    def collect(d):
        out.append(d)
    t = given(strategy)(collect)
    t = settings(max_examples=n, deadline=None, database=None, derandomize=False, phases=[Phase.generate],
                 suppress_health_check=list(HealthCheck), print_blob=False)(t)
    t = hypothesis.seed(seed)(t)
    t()
    return out[:n]


def run_prefixes(ctx, documents, name="prefix"):
    """Exhaustive: every proper prefix (and the whole text) of every document handed to this shard."""
    import time
    t0 = time.time()
    n = 0
    stop = False
    for doc in documents:
        text = doc["text"]
        sdoc = slim(doc)
        for cut in range(len(text) + 1):
            if ctx.out_of_time():
                continue
            case = dict(slim(doc), text=text[:cut], full=(cut == len(text)))
            case.pop("labels", None)
            # source kind and (Newick / NEXUS) reader options cycle with the cut point; every second cut keeps the
            # default options
            case["src"] = SRC_KINDS[cut % len(SRC_KINDS)]
            if doc["schema"] in ("newick", "nexus") and cut % 2:
                case["opts"] = TREE_OPTIONS[(cut // 2) % len(TREE_OPTIONS)]
            if doc["schema"] != "newick" or cut % 2 == 0:
                # every route again, reading into a pre-populated namespace (mode cycles with the cut point)
                case["ns"] = ns_for(sdoc, NS_MODES[cut % len(NS_MODES)])
            n += 1
            ctx.evaluations += 1
            try:
                sub_prefix(ctx, case)
            except runner.KnownSkip:
                continue
            except runner.Violation as v:
                runner.record_violation(ctx, name, case, v)
                stop = True
                break
        if stop:
            break
    ctx.notes.setdefault("sub_wall_s", {})[name] = round(time.time() - t0, 2)
    ctx.notes.setdefault("exhaustive_items", {})[name] = n
    ctx.notes.setdefault("prefix_documents", {})["count"] = ctx.notes.get("prefix_documents", {}).get("count", 0) + \
        len(documents)


OPTS_ST = st.sampled_from([None, None, None] + TREE_OPTIONS)
SRC_ST = st.sampled_from(SRC_KINDS)
NS_SOUP = st.sampled_from([None, None, {"mode": "labels", "labels": UNRELATED_LABELS},
                           {"mode": "labels", "labels": ["a", "b", "c", "A", "B", "t1", "1", "2"]}])


def soup_cases():
    def one(schema):
        if schema == "phylip":
            kw = st.fixed_dictionaries({"data_type": st.sampled_from(["dna", "standard", "continuous", "protein"]),
                                        "strict": st.booleans(),
                                        "interleaved": st.booleans()})
        elif schema == "fasta":
            kw = st.fixed_dictionaries({"data_type": st.sampled_from(["dna", "protein"])})
        else:
            kw = st.just({})
        return st.fixed_dictionaries({"text": docs.soups(schema), "schema": st.just(schema), "kwargs": kw,
                                      "ns": NS_SOUP, "opts": OPTS_ST, "src": SRC_ST}).map(
            lambda c: dict(c, matrix_type=c["kwargs"].get("data_type", "dna" if c["schema"] == "nexus" else None)))
    stmt = st.fixed_dictionaries({"text": docs.nexus_statement_soups(), "schema": st.just("nexus"),
                                  "kwargs": st.just({}), "matrix_type": st.sampled_from(["dna", "standard"]),
                                  "ns": NS_SOUP, "opts": OPTS_ST, "src": SRC_ST})
    plain = st.fixed_dictionaries({"text": docs.plain_newick_soups(), "schema": st.just("newick"),
                                   "kwargs": st.just({}), "matrix_type": st.none(), "opts": OPTS_ST, "src": SRC_ST})
    plain2 = st.fixed_dictionaries({"text": docs.plain_newick_mutants(), "schema": st.just("newick"),
                                    "kwargs": st.just({}), "matrix_type": st.none()})
    link = st.fixed_dictionaries({"text": docs.nexus_link_soups(), "schema": st.just("nexus"),
                                  "kwargs": st.just({}), "matrix_type": st.just("dna"), "ns": NS_SOUP,
                                  "opts": OPTS_ST, "src": SRC_ST})
    return st.one_of(one("newick"), plain, plain2, plain2, one("nexus"), one("nexus"), stmt, stmt, stmt, stmt, stmt,
                     link, link, link, link, one("phylip"), one("fasta"))


DEEP_DEPTHS = (10, 100, 900, 2500, 3500, 6000)


def run_atheris(ctx, runs, seed_docs):
    """Thorough tier: coverage-guided campaign in a child process (fuzz/c20_atheris.py) sharing run_text as oracle.
    Every unknown violation it reports is re-executed here through the `soup` sub-check, so replay files and the
    verdict never depend on Atheris."""
    import json
    import os
    import shutil
    import subprocess
    import tempfile
    import time
    t0 = time.time()
    tmp = tempfile.mkdtemp(prefix="c20_atheris_")
    try:
        corpus = os.path.join(tmp, "corpus")
        os.makedirs(corpus)
        for i, d in enumerate(seed_docs):
            variant = _atheris_variant(d["schema"], d["kwargs"])
            with open(os.path.join(corpus, "seed%03d" % i), "wb") as f:
                f.write(bytes([variant]) + d["text"].encode("utf8"))
        with open(os.path.join(corpus, "empty"), "wb") as f:
            f.write(b"")
        words = sorted(set(w for ws in docs.KEYWORDS.values() for w in ws if w.strip() and "\n" not in w))
        dict_path = os.path.join(tmp, "dict.txt")
        with open(dict_path, "w") as f:
            for w in words:
                f.write('"%s"\n' % w.replace("\\", "\\\\").replace('"', '\\"'))
        out = os.path.join(tmp, "violations.jsonl")
        env = dict(os.environ)
        env["VERIF_REPO_SRC"] = runner.REPO_SRC
        env["PYTHONPATH"] = os.pathsep.join([runner.REPO_SRC, runner.VERIF, os.path.join(runner.VERIF, ".deps")])
        cmd = [runner.PY, os.path.join(runner.VERIF, "fuzz", "c20_atheris.py"), "--out", out, "--corpus", corpus, "--",
               "-runs=%d" % runs, "-seed=%d" % (ctx.seed * 1000 + ctx.shard + 1), "-max_len=800", "-timeout=300",
               "-dict=" + dict_path, "-artifact_prefix=" + tmp + os.sep, "-print_final_stats=0", "-verbosity=0"]
        remaining = None if ctx.deadline is None else max(30, ctx.deadline - time.time())
        try:
            p = subprocess.run(cmd, env=env, cwd=tmp, stdout=subprocess.PIPE, stderr=subprocess.STDOUT, text=True,
                               timeout=remaining)
            rc, log = p.returncode, p.stdout
        except subprocess.TimeoutExpired as e:
            rc, log = "timeout", (e.stdout or b"").decode("utf8", "replace") if isinstance(e.stdout, bytes) else (e.stdout or "")
            ctx.skipped_by_time += 1
        stats = {}
        if os.path.exists(out + ".stats"):
            stats = json.load(open(out + ".stats"))
        found = []
        if os.path.exists(out):
            found = [json.loads(l) for l in open(out) if l.strip()]
        if rc not in (0, "timeout") and not found:
            if "No module named 'atheris'" in (log or ""):
                # atheris is installed by MANIFEST.setup_cmd into /verif/.deps; without it the campaign is skipped
                # (the Hypothesis / exhaustive parts above are the deciding checks), never reported as a violation
                ctx.notes.setdefault("atheris", {})["skipped"] = "atheris not importable (run tools/setup.py)"
                ctx.cls("atheris:skipped_not_installed")
                return
            raise runner.HarnessError("atheris child failed (rc=%s): %s" % (rc, log[-1500:]))
        ctx.evaluations += stats.get("execs", 0)
        for k, v in stats.get("classes", {}).items():
            ctx.cls("atheris:" + k, v)
        for k, v in stats.get("known_hits", {}).items():
            ctx.known_hits[k] += v
        ctx.notes.setdefault("atheris", {})["execs"] = stats.get("execs", 0)
        ctx.notes["atheris"]["reported"] = len(found)
        for rec in found:
            case = rec["case"]
            ctx.evaluations += 1
            try:
                sub_soup(ctx, case)
            except runner.KnownSkip:
                continue
            except runner.Violation as v:
                runner.record_violation(ctx, "soup", case, v)
                break
            else:
                ctx.notes["atheris"]["not_reproduced"] = ctx.notes["atheris"].get("not_reproduced", 0) + 1
    finally:
        shutil.rmtree(tmp, ignore_errors=True)
        ctx.notes.setdefault("sub_wall_s", {})["atheris"] = round(time.time() - t0, 2)


ATHERIS_VARIANTS = [
    ("newick", {}), ("nexus", {}), ("nexus", {}),
    ("phylip", {"data_type": "dna", "strict": False, "interleaved": False}),
    ("phylip", {"data_type": "dna", "strict": True, "interleaved": False}),
    ("phylip", {"data_type": "dna", "strict": False, "interleaved": True}),
    ("phylip", {"data_type": "standard", "strict": True, "interleaved": True}),
    ("fasta", {"data_type": "dna"}), ("fasta", {"data_type": "protein"}),
    ("phylip", {"data_type": "continuous", "strict": False, "interleaved": False}),
    ("phylip", {"data_type": "continuous", "strict": False, "interleaved": True}),
    ("phylip", {"data_type": "protein", "strict": False, "interleaved": False}),
    ("nexus", {}), ("fasta", {"data_type": "standard"}),
]   # must list the same (schema, kwargs) as fuzz/c20_atheris.py VARIANTS, in the same order


def _atheris_variant(schema, kwargs):
    for i, (s, kw) in enumerate(ATHERIS_VARIANTS):
        if s == schema and all(kwargs.get(k) == v for k, v in kw.items()):
            return i
    for i, (s, _) in enumerate(ATHERIS_VARIANTS):
        if s == schema:
            return i
    return 0


def run(ctx):
    warnings.simplefilter("ignore")
    if sys.getrecursionlimit() != 3000:
        sys.setrecursionlimit(3000)
    tot = TOTALS[ctx.tier]
    per = lambda n: max(1, n // ctx.nshards)
    max_len = tot["max_len"]
    large = ctx.tier == "thorough"
    valid_docs = docs.documents(max_len=max_len, large=large)

    # (0) generator soundness + valid documents deliver their content
    corpus = docs.load_corpus()
    runner.run_items(ctx, "valid", corpus, sub_valid)
    if any(v["sub"] == "valid" for v in ctx.violations):
        return
    runner.run_given(ctx, "valid", valid_docs, sub_valid, per(tot["valid"]))

    # (1) exhaustive truncation
    mine = corpus[ctx.shard::ctx.nshards]
    generated = draw_documents(valid_docs, per(tot["prefix_docs"]), ctx.seed * 1000 + ctx.shard * 37 + 11)
    run_prefixes(ctx, mine + generated)

    # (2) 1-2 edits of valid documents
    OPTS, SRC = OPTS_ST, SRC_ST
    edit_cases = st.fixed_dictionaries({"edits": docs.edits(2), "ns_mode": st.sampled_from((None,) + NS_MODES),
                                        "opts": OPTS, "src": SRC, "doc": valid_docs.map(slim)})
    runner.run_given(ctx, "edit", edit_cases, sub_edit, per(tot["edit"]))

    # (2b) one taxon named twice (same label, case variant, TRANSLATE token / number next to the label)
    tree_docs = docs.documents(max_len=max_len, schemas=("newick", "nexus"), large=large).map(slim)
    dup_cases = st.fixed_dictionaries({"src": st.integers(0, 200), "dst": st.integers(0, 200),
                                       "variant": st.sampled_from(DUP_VARIANTS),
                                       "ns_mode": st.sampled_from((None, None) + NS_MODES), "opts": OPTS,
                                       "stream": SRC, "doc": tree_docs})
    runner.run_given(ctx, "dup", dup_cases, sub_dup, per(tot["dup"]))

    # (2c) matrix rows that contradict the declaration: extra / misspelt / renamed row label (NEXUS); a data line one
    # symbol or value longer / shorter (NEXUS, PHYLIP, FASTA; every data type; sequential and interleaved)
    row_cases = st.fixed_dictionaries({
        "doc": docs.documents(max_len=max_len, schemas=("nexus", "phylip", "fasta"), large=large).filter(
            lambda d: bool(d["content"]["matrices"])).map(slim),
        "row": st.integers(0, 50), "op": st.sampled_from(ROW_OPS), "sym": st.integers(0, len(ROW_SYMBOLS) - 1),
        "ns_mode": st.sampled_from((None, "empty", "empty", "unrelated", "own", "reread"))})
    runner.run_given(ctx, "row", row_cases, sub_row, per(tot["row"]))
    # (2d) PHYLIP: further pages / stray trailing lines, both layout modes, fresh and pre-populated namespaces
    # (the small decisions first, the document last: late draws of a long example come out minimal too often)
    page_cases = st.fixed_dictionaries({
        "op": st.just("page"), "row": st.just(0), "sym": st.just(0),
        "page": st.fixed_dictionaries({"lines": st.sampled_from([0, 0, 0, -1, 1, 2]),
                                       "width": st.sampled_from(["full", "full", "full", "one", "short", "long"]),
                                       "blank": st.booleans()}),
        "flip": st.sampled_from([None, None, "interleaved", "strict"]),
        "ns_mode": st.sampled_from((None, "unrelated", "unrelated", "own", "empty", "reread")),
        "doc": docs.phylip_docs(max_taxa=4, max_chars=6).map(slim)})
    runner.run_given(ctx, "page", page_cases, sub_row, per(tot["page"]))

    # (3) token soup
    runner.run_given(ctx, "soup", soup_cases(), sub_soup, per(tot["soup"]))

    # (4) deep nesting (fixed list)
    deep = [{"kind": k, "depth": d, "schema": s} for s in ("newick", "nexus") for k in ("nest", "caterpillar", "open", "comments")
            for d in DEEP_DEPTHS]
    runner.run_items(ctx, "deep", deep, sub_deep)

    # (5) thorough only: Atheris campaign with the same oracle
    if tot.get("atheris_runs") and not ctx.violations:
        run_atheris(ctx, per(tot["atheris_runs"]), corpus + generated[:40])
