"""C01 - bipartition encoding is exact, canonical and sufficient to rebuild the topology.

Oracle: frozenset model (lib/refmodel.RefTree) + our own bit model (i-th accession to the namespace => bit i)."""
import itertools

from hypothesis import strategies as st

from lib import runner, shapes
from lib.refmodel import RefTree, all_rooted_trees
from lib.snapshot import snapshot

CONFIG = {
    "shards": {"quick": 8, "thorough": 16},
    "budget_s": {"quick": 120, "thorough": 1500},
    "rule": ("Hypothesis: tree shape (all families, polytomies, unifurcations) x namespace history (extra taxa, removed "
             "taxa -> sparse bits, sorted/reversed namespace) x rooting {True,False,None} x encode options x a second "
             "tree (re-drawing: child permutation / unifurcation insertion / re-seeding for unrooted; NNI neighbour; "
             "edge contraction; independent shape) x permutation of the encoding given to reconstruction x drawn taxon "
             "subsets for the predicates. Exhaustive part: all labelled rooted trees with polytomies on 4 (quick) / 5 "
             "(thorough) leaves, both rootings, iff-clause on all ordered pairs. Large part: deterministic caterpillar / balanced / "
             "star / random shapes with 63..1030 (quick) / ..2050 (thorough) leaves around word-size and power-of-two "
             "boundaries, sparse and reversed namespaces. Non-trivial = tree with >= 1 internal "
             "edge and >= 4 leaves (unrooted) / >= 3 leaves (rooted); distinct = (spec, namespace history, rooting, "
             "second-tree recipe)."),
    "exhaustive_note": {"quick": "all 26 labelled rooted trees on 4 leaves x 2 rootings, all ordered pairs",
                        "thorough": "all 236 labelled rooted trees on 5 leaves x 2 rootings, all ordered pairs"},
    "assumptions": ["every leaf carries a taxon of the tree's namespace", "unrooted trees have >= 3 leaves",
                    "is_trivial on a rooted (n-1)-cluster is not asserted (statement does not settle it)"],
}

# ---------------------------------------------------------------------------
# strategies
# ---------------------------------------------------------------------------


@st.composite
def cases(draw, max_leaves):
    rooted = draw(st.sampled_from([True, False, None]))
    minl = 1 if rooted else 3
    spec = draw(shapes.shapes(min_leaves=minl, max_leaves=max_leaves, max_arity=5, unifurcations=True))
    n = shapes.n_leaves(spec)
    hist = draw(shapes.namespace_history(n))
    opts = {"su": draw(st.booleans()), "cb": draw(st.booleans()), "mut": draw(st.booleans()),
            "ss": draw(st.integers(0, 3)) == 0}
    second = {"kind": draw(st.sampled_from(["redraw", "redraw", "nni", "contract", "independent"])),
              "perm": draw(st.lists(st.integers(0, 5), min_size=1, max_size=8)),
              "reseed": draw(st.integers(0, 50)),
              "unif": draw(st.lists(st.integers(0, 60), max_size=2)),
              "edge": draw(st.integers(0, 50)), "child": draw(st.integers(0, 5)), "sib": draw(st.integers(0, 5))}
    if second["kind"] == "independent":
        second["spec"] = draw(shapes.shapes(min_leaves=n, max_leaves=n, max_arity=5, unifurcations=False))
    return {"spec": spec, "hist": hist, "rooted": rooted, "opts": opts, "second": second,
            "encperm": draw(st.integers(0, 10 ** 6)), "inner": draw(shapes.inner_taxa_picks()),
            "A": draw(st.integers(0, 2 ** 12 - 1)), "B": draw(st.integers(0, 2 ** 12 - 1))}


# ---------------------------------------------------------------------------
# helpers
# ---------------------------------------------------------------------------

def second_tree(rt, rec, rooted):
    """Apply the recipe to RefTree rt (pure model), returning a new RefTree."""
    kind = rec["kind"]
    perm = rec["perm"]
    if kind == "independent":
        return RefTree.from_spec(rec["spec"])

    def permute(t):
        def fn(i, ch):
            if len(ch) < 2:
                return ch
            k = perm[i % len(perm)] % len(ch)
            ch = ch[k:] + ch[:k]
            if perm[(i + 1) % len(perm)] % 2:
                ch = ch[::-1]
            return ch
        return t.permuted(fn)

    t = rt
    if kind == "redraw":
        if not rooted and len(t.children[t.root]) != 1:
            # (re-seeding a drawing whose root has one child would leave that root behind as a taxon-less leaf)
            ints = t.internals()
            if ints:
                t = t.rerooted_at(ints[rec["reseed"] % len(ints)])
        t = permute(t)
        # unifurcation insertion above drawn nodes
        for u in rec["unif"]:
            nodes = t.nodes()
            v = nodes[u % len(nodes)]
            t = insert_unifurcation(t, v)
        return t
    if kind == "nni":
        cand = [v for v in t.internals() if v != t.root and len(t.children[v]) >= 2]
        if not cand:
            return permute(t)
        v = cand[rec["edge"] % len(cand)]
        p = t.parent[v]
        sibs = [s for s in t.children[p] if s != v]
        if not sibs:
            return permute(t)
        c = t.children[v][rec["child"] % len(t.children[v])]
        s = sibs[rec["sib"] % len(sibs)]
        t = t.copy()
        ci = t.children[v].index(c)
        si = t.children[p].index(s)
        t.children[v][ci] = s
        t.children[p][si] = c
        t.parent[s] = v
        t.parent[c] = p
        return permute(t._renumber())
    if kind == "contract":
        cand = [v for v in t.internals() if v != t.root]
        if not cand:
            return permute(t)
        v = cand[rec["edge"] % len(cand)]
        t = t.copy()
        p = t.parent[v]
        i = t.children[p].index(v)
        t.children[p][i:i + 1] = t.children[v]
        for c in t.children[v]:
            t.parent[c] = p
        t.children[v] = []
        t.parent[v] = None
        return permute(t._renumber())
    raise runner.HarnessError(kind)


def insert_unifurcation(t, v):
    """New RefTree with an outdegree-1 node inserted above v (or above the root)."""
    spec = t.to_spec()
    # walk spec in the same preorder as nodes()
    order = []
    def walk(s):
        order.append(s)
        for c in s["ch"]:
            walk(c)
    walk(spec)
    idx = t.preorder().index(v)
    s = order[idx]
    inner = dict(s)
    s.clear()
    s.update({"t": None, "lab": None, "len": None, "ch": [inner]})
    out = RefTree()
    def build(sp, parent):
        j = out.add(parent, sp["t"], sp["lab"], sp["len"])
        for c in sp["ch"]:
            build(c, j)
    build(spec, None)
    return out


def spec_of(rt):
    """RefTree (taxon ids 'T<i>') -> spec with integer taxon indices."""
    def rec(i):
        t = rt.taxon[i]
        return {"t": int(t[1:]) if t is not None else None, "lab": rt.label[i], "len": rt.length[i],
                "ch": [rec(c) for c in rt.children[i]]}
    return rec(rt.root)


def mask_of(cluster, bits):
    m = 0
    for lab in cluster:
        m |= 1 << bits[int(lab[1:])]
    return m


def norm(mask, full):
    low = full & -full
    if mask & low:
        return ~mask & full
    return mask & full


def ref_same_topology(a, b, rooted):
    if a.leafset() != b.leafset():
        return False
    if rooted:
        return a.rooted_cluster_set() == b.rooted_cluster_set()
    return a.unrooted_split_set() == b.unrooted_split_set()


def encode_and_check(ctx, tree, rt_before, bits, rooted, opts, tag):
    """Clause 1 on one tree.  Returns (set of split masks, post-encode RefTree)."""
    ss = bool(opts.get("ss"))
    enc = tree.encode_bipartitions(suppress_unifurcations=opts["su"], collapse_unrooted_basal_bifurcation=opts["cb"],
                                   is_bipartitions_mutable=opts["mut"], suppress_storage=ss)
    if ss:
        ctx.cls("encode:suppress_storage")
    post, problems = snapshot(tree)
    ctx.check(not problems, "encode_keeps_tree_well_formed", "C01.wellformed", lambda: "%s: %r" % (tag, problems))
    full_expected = mask_of(rt_before.leafset(), bits)
    cl = post.clusters()
    # topology unchanged by encoding
    if rooted:
        same = post.rooted_cluster_set() == rt_before.rooted_cluster_set()
    else:
        same = post.unrooted_split_set() == rt_before.unrooted_split_set() and post.leafset() == rt_before.leafset()
    ctx.check(same, "encode_preserves_topology", "C01.encode_preserves_topology",
              lambda: "%s before=%s after=%s" % (tag, rt_before.canon(), post.canon()))
    if opts["su"]:
        ctx.check(all(len(post.children[i]) != 1 for i in post.nodes()), "unifurcations_suppressed",
                  "C01.unifurcations_suppressed", lambda: "%s after=%s" % (tag, post.canon()))
    if not rooted and len(post.children[post.root]) == 2:
        ctx.cls("post_encode:unrooted_bifurcating_seed")  # allowed (not part of the statement); counted only
    masks = []
    edge_bips = []
    for i in post.nodes():
        nd = post.obj[i]
        b = nd.edge.bipartition
        edge_bips.append(b)
        want_leafset = mask_of(cl[i], bits)
        ctx.check(b is not None and b.leafset_bitmask == want_leafset, "leafset_bitmask_exact", "C01.leafset_bitmask",
                  lambda: "%s node over %s: leafset %s want %s" % (tag, sorted(cl[i]), bin(b.leafset_bitmask), bin(want_leafset)))
        ctx.check(b.tree_leafset_bitmask == full_expected, "tree_leafset_bitmask_exact", "C01.tree_leafset_bitmask",
                  lambda: "%s got %s want %s" % (tag, bin(b.tree_leafset_bitmask), bin(full_expected)))
        want_split = want_leafset if rooted else norm(want_leafset, full_expected)
        ctx.check(b.split_bitmask == want_split, "split_bitmask_exact", "C01.split_bitmask",
                  lambda: "%s rooted=%r node over %s: split %s want %s (tree mask %s)" % (
                      tag, rooted, sorted(cl[i]), bin(b.split_bitmask), bin(want_split), bin(full_expected)))
        masks.append(b.split_bitmask)
        # the public decoders of the stored masks name the same taxa / the same integers
        ns_ = tree.taxon_namespace
        dec = ctx.call("C01.leafset_taxa", b.leafset_taxa, ns_)
        ctx.check(len(dec) == len(cl[i]) and set(t.label for t in dec) == set(cl[i]), "leafset_taxa_decodes_to_leaves_below", "C01.leafset_taxa",
                  lambda: "%s node over %s: decoded %s (leafset %s)" % (tag, sorted(cl[i]), sorted(t.label for t in dec), bin(b.leafset_bitmask)))
        dec2 = ctx.call("C01.bitmask_taxa_list", ns_.bitmask_taxa_list, b.leafset_bitmask)
        ctx.check(len(dec2) == len(cl[i]) and set(t.label for t in dec2) == set(cl[i]), "namespace_decodes_leafset_bitmask", "C01.bitmask_taxa_list",
                  lambda: "%s node over %s: decoded %s" % (tag, sorted(cl[i]), sorted(t.label for t in dec2)))
        ctx.check(int(b) == b.split_bitmask == b.split_as_int() and b.leafset_as_int() == b.leafset_bitmask
                  and int(b.leafset_as_bitstring(), 2) == b.leafset_bitmask and int(b.split_as_bitstring(), 2) == b.split_bitmask,
                  "integer_and_bitstring_views", "C01.views",
                  lambda: "%s int=%r split=%r leafset_bits=%r split_bits=%r" % (tag, int(b), b.split_bitmask, b.leafset_as_bitstring(), b.split_as_bitstring()))
    if ss:
        # documented: the list is not stored; the edges still carry fully compiled bipartitions
        ctx.check(enc is None and tree.bipartition_encoding is None, "suppress_storage_stores_no_list", "C01.suppress_storage", tag)
        return set(masks), post, list(edge_bips)
    ctx.check(enc is tree.bipartition_encoding and len(enc) == len(edge_bips)
              and sorted(id(b) for b in enc) == sorted(id(b) for b in edge_bips),
              "encoding_list_is_edges_bipartitions", "C01.encoding_list",
              lambda: "%s len(enc)=%d edges=%d" % (tag, len(enc or []), len(edge_bips)))
    # edge maps (mutable bipartitions are unhashable by design, so the maps exist only for immutable encodings)
    if not opts["mut"]:
        sem = tree.split_bitmask_edge_map
        bem = tree.bipartition_edge_map
        for b in edge_bips:
            e = sem.get(b.split_bitmask)
            ctx.check(e is not None and e.bipartition.split_bitmask == b.split_bitmask, "split_bitmask_edge_map",
                      "C01.split_bitmask_edge_map", tag)
            e2 = bem.get(b)
            ctx.check(e2 is not None and e2.bipartition.split_bitmask == b.split_bitmask, "bipartition_edge_map",
                      "C01.bipartition_edge_map", tag)
    return set(masks), post, enc


def clusters_compatible(a, b, full, rooted):
    if rooted:
        return not (a & b) or a <= b or b <= a
    ac, bc = full - a, full - b
    return not (a & b) or not (a & bc) or not (ac & b) or not (ac & bc)


def check_case(ctx, case):
    import dendropy
    from dendropy.datamodel.treemodel import Bipartition
    rooted_flag = case["rooted"]
    rooted = bool(rooted_flag)
    spec = case["spec"]
    opts = case["opts"]
    rt1 = RefTree.from_spec(spec)
    n = rt1.n_leaves()
    ns, taxa, bits = shapes.build_namespace(case["hist"])
    t1 = shapes.build_tree(spec, ns, taxa, is_rooted=rooted_flag)
    if shapes.add_inner_taxa(t1, ns, case.get("inner")):
        ctx.cls("shape:taxon_on_internal_node")
    if case["hist"]["removed"] or case["hist"]["sort"]:
        ctx.cls("ns:sparse_or_reordered")
    low_ns = min(bits.values())
    low_tree = min(bits[i] for i in range(n))
    if low_ns != low_tree:
        ctx.cls("ns:lowest_namespace_bit_not_on_tree")
    if any(len(rt1.children[i]) == 1 for i in rt1.nodes()):
        ctx.cls("shape:has_unifurcation")
    ctx.cls("rooting:%r" % rooted_flag)
    masks1, post1, enc1 = encode_and_check(ctx, t1, rt1, bits, rooted, opts, "T1")

    # ---- clause 2: iff with a second tree -----------------------------------
    rt2 = second_tree(rt1, case["second"], rooted)
    if rt2.leafset() == rt1.leafset():
        t2 = shapes.build_tree(spec_of(rt2), ns, taxa, is_rooted=rooted_flag)
        shapes.add_inner_taxa(t2, ns, case.get("inner"))
        masks2, post2, enc2 = encode_and_check(ctx, t2, rt2, bits, rooted, opts, "T2")
        want_same = ref_same_topology(rt1, rt2, rooted)
        ctx.cls("pair:%s:%s" % (case["second"]["kind"], "same" if want_same else "different"))
        ctx.check((masks1 == masks2) == want_same, "split_sets_equal_iff_same_topology", "C01.iff",
                  lambda: "kind=%s rooted=%r ref_same=%r masks1=%s masks2=%s t1=%s t2=%s" % (
                      case["second"]["kind"], rooted_flag, want_same, sorted(masks1), sorted(masks2), rt1.canon(), rt2.canon()))
        # ---- clause 4: predicates between bipartitions of the two trees -------
        full = rt1.leafset()
        cl1 = post1.clusters()
        cl2 = post2.clusters()
        pairs = 0
        for i in post1.nodes():
            b1 = post1.obj[i].edge.bipartition
            for j in post2.nodes():
                if pairs > 60:
                    break
                pairs += 1
                b2 = post2.obj[j].edge.bipartition
                want = clusters_compatible(cl1[i], cl2[j], full, rooted)
                got = b1.is_compatible_with(b2)
                ctx.check(got == want, "is_compatible_with", "C01.is_compatible_with",
                          lambda: "rooted=%r A=%s B=%s got %r want %r" % (rooted_flag, sorted(cl1[i]), sorted(cl2[j]), got, want))
                ctx.check(b1.is_incompatible_with(b2) == (not want), "is_incompatible_with", "C01.is_incompatible_with")
                wantn = cl1[i] <= cl2[j]
                gotn = b1.is_leafset_nested_within(b2)
                ctx.check(gotn == wantn, "is_leafset_nested_within", "C01.is_leafset_nested_within",
                          lambda: "A=%s B=%s got %r want %r" % (sorted(cl1[i]), sorted(cl2[j]), gotn, wantn))
        # tree-level compatibility: bipartitions of T2 against T1 (re-encodes T1 with default options)
        t1b = shapes.build_tree(spec, ns, taxa, is_rooted=rooted_flag)
        ref1 = rt1
        for j in post2.nodes()[:8]:
            b2 = post2.obj[j].edge.bipartition
            want = all(clusters_compatible(c, cl2[j], full, rooted) for c in ref1.clusters().values())
            got = t1b.is_compatible_with_bipartition(b2)
            ctx.check(got == want, "tree_is_compatible_with_bipartition", "C01.tree_compatible",
                      lambda: "rooted=%r tree=%s bip=%s got %r want %r" % (rooted_flag, rt1.canon(), sorted(cl2[j]), got, want))
            ctx.cls("tree_compat:%s" % want)

        # the same question on a tree that was encoded BEFORE it was restructured (raw subtree move, which does not
        # refresh encodings): with default arguments the answer must describe the current structure
        t1c = shapes.build_tree(spec, ns, taxa, is_rooted=rooted_flag)
        t1c.encode_bipartitions()
        cur, _p = snapshot(t1c)
        nonroot = [i for i in cur.nodes() if i != cur.root]
        if nonroot:
            x = nonroot[case["A"] % len(nonroot)]
            sub = set(cur.preorder(x))
            targets = [i for i in cur.internals() if i not in sub and i != cur.parent[x]]
            if targets:
                y = targets[case["B"] % len(targets)]
                cur.obj[cur.parent[x]].remove_child(cur.obj[x])
                cur.obj[y].add_child(cur.obj[x])
                now, problems_now = snapshot(t1c)
                if not problems_now and all(now.taxon[i] is not None for i in now.leaves()) and (rooted or now.n_leaves() >= 3):
                    nowcl = now.clusters().values()
                    for j in post2.nodes()[:6]:
                        b2 = post2.obj[j].edge.bipartition
                        want = all(clusters_compatible(c, cl2[j], full, rooted) for c in nowcl)
                        got = t1c.is_compatible_with_bipartition(b2)
                        ctx.check(got == want, "tree_is_compatible_with_bipartition_after_edit", "C01.tree_compatible_stale",
                                  lambda: "rooted=%r tree now=%s (was %s) bip=%s got %r want %r" % (rooted_flag, now.canon(), rt1.canon(), sorted(cl2[j]), got, want))
                        now2, _ = snapshot(t1c)
                        nowcl = now2.clusters().values()
                    ctx.cls("tree_compat:after_raw_edit")

    # ---- clause 3: rebuild from the encoding in any order --------------------
    import random
    order = list(enc1)
    random.Random(case["encperm"]).shuffle(order)
    for route in ("bipartitions", "bitmasks"):
        if route == "bipartitions":
            rb = dendropy.Tree.from_bipartition_encoding(order, ns, is_rooted=rooted)
        else:
            rb = dendropy.Tree.from_split_bitmasks([b.split_bitmask for b in order], ns, is_rooted=rooted)
        rrt, problems = snapshot(rb)
        ctx.check(not problems, "rebuilt_tree_well_formed", "C01.rebuild_wellformed", lambda: repr(problems))
        ctx.check(rb.taxon_namespace is ns, "rebuilt_tree_namespace", "C01.rebuild_namespace")
        want_leaves = sorted(t.label for t in ns)
        got_leaves = sorted(str(rrt.taxon[i]) for i in rrt.leaves())
        ctx.check(got_leaves == want_leaves, "rebuilt_tree_spans_namespace_once", "C01.rebuild_spans",
                  lambda: "got %r want %r" % (got_leaves, want_leaves))
        ctx.check(bool(rb.is_rooted) == rooted, "rebuilt_tree_rooting", "C01.rebuild_rooting")
        if got_leaves == want_leaves:
            restricted = rrt.restrict(rt1.leafset(), suppress=True)
            ok = ref_same_topology(restricted, rt1.suppress_unifurcations(), rooted)
            ctx.check(ok, "rebuilt_topology_equals_source", "C01.rebuild_topology",
                      lambda: "route=%s rooted=%r source=%s rebuilt=%s restricted=%s masks=%s" % (
                          route, rooted_flag, rt1.canon(), rrt.canon(), restricted.canon(),
                          [bin(b.split_bitmask) for b in order]))

    # ---- clause 1 again: re-encoding after the taxa on the leaves changed -------------------------------
    # (a tree that was encoded before must not keep anything from the old encoding)
    t3 = shapes.build_tree(spec, ns, taxa, is_rooted=rooted_flag)
    # (the first encoding uses the drawn mutability flag: mutable bipartitions are objects that a later encoding might re-use)
    t3.encode_bipartitions(suppress_unifurcations=False, collapse_unrooted_basal_bifurcation=False, is_bipartitions_mutable=opts["mut"])
    pre3, _ = snapshot(t3)
    lv = pre3.leaves()
    k = 1 + case["encperm"] % max(1, n - 1) if n > 1 else 0
    pruned3 = False
    if case["A"] % 3 == 2 and n >= (4 if not rooted else 2):
        # the leaf set shrinks: the leaf holding the LOWEST bit on the tree (or a drawn one) is pruned
        low = min(lv, key=lambda i: bits[int(pre3.taxon[i][1:])])
        victim = low if case["B"] % 2 == 0 else lv[case["encperm"] % len(lv)]
        t3.prune_taxa([pre3.obj[victim].taxon])
        bits3 = bits
        pruned3 = True
        ctx.cls("reencode:leaf_pruned:%s" % ("lowest_bit" if victim == low else "drawn"))
    elif case["A"] % 2 == 0 or n < 2:
        # rotate the taxa over the leaves
        old = [pre3.obj[i].taxon for i in lv]
        for j, i in enumerate(lv):
            pre3.obj[i].taxon = old[(j + k) % len(old)]
        bits3 = bits
        ctx.cls("reencode:taxa_rotated")
    else:
        # migrate to a namespace holding the same labels in another accession order
        import dendropy as _d
        order3 = sorted(bits, key=lambda i: (-(i % 3), i))
        ns3 = _d.TaxonNamespace()
        bits3 = {}
        for acc, idx in enumerate(order3):
            ns3.add_taxon(_d.Taxon(label="T%d" % idx))
            bits3[idx] = acc
        t3.migrate_taxon_namespace(ns3)
        ctx.cls("reencode:namespace_migrated")
    now3, problems3 = snapshot(t3)
    if not problems3 and (now3.leafset() == rt1.leafset() or pruned3):
        encode_and_check(ctx, t3, now3, bits3, rooted, opts, "T3(re-encoded)")

    # ---- clause 4b: predicates on directly constructed bipartitions -----------
    leaf_ids = sorted(rt1.leafset(), key=lambda s: int(s[1:]))
    full = frozenset(leaf_ids)
    fullmask = mask_of(full, bits)
    A = frozenset(l for k, l in enumerate(leaf_ids) if (case["A"] >> k) & 1)
    B = frozenset(l for k, l in enumerate(leaf_ids) if (case["B"] >> k) & 1)
    for r in (True, False):
        if not r and n < 3:
            continue
        ba = Bipartition(leafset_bitmask=mask_of(A, bits), tree_leafset_bitmask=fullmask, is_rooted=r)
        bb = Bipartition(leafset_bitmask=mask_of(B, bits), tree_leafset_bitmask=fullmask, is_rooted=r)
        want_split = mask_of(A, bits) if r else norm(mask_of(A, bits), fullmask)
        ctx.check(ba.split_bitmask == want_split, "constructed_split_bitmask", "C01.constructed_split",
                  lambda: "rooted=%r A=%s got %s want %s" % (r, sorted(A), bin(ba.split_bitmask), bin(want_split)))
        want = clusters_compatible(A, B, full, r)
        got = ba.is_compatible_with(bb)
        ctx.check(got == want, "constructed_is_compatible_with", "C01.constructed_compatible",
                  lambda: "rooted=%r A=%s B=%s full=%s got %r want %r" % (r, sorted(A), sorted(B), sorted(full), got, want))
        ctx.check(ba.is_leafset_nested_within(bb) == (A <= B), "constructed_nested", "C01.constructed_nested",
                  lambda: "A=%s B=%s" % (sorted(A), sorted(B)))
        # triviality
        k = len(A)
        if r:
            if k <= 1 or k == len(full):
                wt = True
            elif k <= len(full) - 2:
                wt = False
            else:
                wt = None  # (n-1)-cluster: not settled by the statement
        else:
            wt = k <= 1 or k >= len(full) - 1
        if wt is None:
            ctx.cls("trivial:skipped_n-1_cluster")
        else:
            ctx.check(ba.is_trivial() == wt, "constructed_is_trivial", "C01.constructed_trivial",
                      lambda: "rooted=%r A=%s of %d got %r want %r" % (r, sorted(A), len(full), ba.is_trivial(), wt))

    internal_edges = sum(1 for i in rt1.internals() if i != rt1.root)
    if internal_edges >= 1 and n >= (3 if rooted else 4):
        ctx.nontrivial([spec, case["hist"], rooted_flag, case["second"]])
    ctx.sample("case:%s" % case["second"]["kind"], {"newick": shapes.spec_to_newick(spec), "rooted": rooted_flag,
                                                   "hist": case["hist"], "opts": opts,
                                                   "second": shapes.spec_to_newick(spec_of(rt2))})


# ---------------------------------------------------------------------------
# exhaustive pairs
# ---------------------------------------------------------------------------
_CACHE = {}


def _all_trees(n):
    if ("trees", n) not in _CACHE:
        _CACHE[("trees", n)] = list(all_rooted_trees(range(n)))
    return _CACHE[("trees", n)]


def _encoded(ctx, n, idx, rooted):
    key = (n, idx, rooted)
    if key not in _CACHE:
        spec = _all_trees(n)[idx]
        if ("ns", n) not in _CACHE:
            _CACHE[("ns", n)] = shapes.build_namespace(shapes.plain_history(n))
        ns, taxa, bits = _CACHE[("ns", n)]
        rt = RefTree.from_spec(spec)
        t = shapes.build_tree(spec, ns, taxa, is_rooted=rooted)
        masks, post, enc = encode_and_check(ctx, t, rt, bits, rooted, {"su": True, "cb": True, "mut": False}, "X%d" % idx)
        _CACHE[key] = (masks, rt)
    return _CACHE[key]


def check_pair(ctx, case):
    n, i, j, rooted = case["n"], case["i"], case["j"], case["rooted"]
    m1, r1 = _encoded(ctx, n, i, rooted)
    m2, r2 = _encoded(ctx, n, j, rooted)
    want = ref_same_topology(r1, r2, rooted)
    ctx.cls("exh_pair:%s" % ("same" if want else "different"))
    ctx.check((m1 == m2) == want, "split_sets_equal_iff_same_topology", "C01.iff",
              lambda: "rooted=%r %s vs %s masks %s / %s" % (rooted, r1.canon(), r2.canon(), sorted(m1), sorted(m2)))
    if i != j and not want:
        ctx.nontrivial(["pair", n, i, j, rooted])


def large_spec(kind, n, seed):
    """Deterministic big shapes (size-triggered defects need size-directed inputs)."""
    import random as _r
    rng = _r.Random(seed)
    ids = list(range(n))
    rng.shuffle(ids)
    nodes = [shapes.leaf(i) for i in ids]
    if kind == "star":
        return shapes.internal(nodes)
    if kind == "caterpillar":
        cur = nodes[0]
        for x in nodes[1:]:
            cur = shapes.internal([cur, x])
        return cur
    if kind == "balanced":
        level = nodes
        while len(level) > 1:
            nxt = [shapes.internal(level[k:k + 2]) if k + 1 < len(level) else level[k] for k in range(0, len(level), 2)]
            level = nxt
        return level[0]
    while len(nodes) > 1:
        k = rng.choice([2, 2, 2, 3, 5])
        k = min(k, len(nodes))
        i = rng.randrange(0, len(nodes) - k + 1)
        nodes[i:i + k] = [shapes.internal(nodes[i:i + k])]
    return nodes[0]


def check_large(ctx, item):
    spec = large_spec(item["kind"], item["n"], item["n"] * 7 + 1)
    n = item["n"]
    hist = {"extra": 2, "order": [n] + list(range(n)) + [n + 1], "removed": [n], "sort": item.get("sort")}
    case = {"spec": spec, "hist": hist, "rooted": item["rooted"], "opts": {"su": True, "cb": True, "mut": False, "ss": False},
            "second": {"kind": "nni", "perm": [1, 0, 3], "reseed": 7, "unif": [5], "edge": 11, "child": 1, "sib": 0},
            "encperm": n, "A": 0b101101, "B": 0b110110}
    check_case(ctx, case)
    ctx.cls("large:%s" % item["kind"])


SUBCHECKS = {"random": check_case, "pairs": check_pair, "large": check_large}


def run(ctx):
    quick = ctx.tier == "quick"
    total = 6400 if quick else 96000
    maxl = 10 if quick else 40
    runner.run_given(ctx, "random", cases(maxl), check_case, total // ctx.nshards)
    n = 4 if quick else 5
    ntrees = len(_all_trees(n))
    items = [{"n": n, "i": i, "j": j, "rooted": r} for r in (True, False) for i in range(ntrees) for j in range(ntrees)]
    runner.run_items(ctx, "pairs", items, check_pair)
    sizes = [63, 64, 65, 129, 1030] if quick else [63, 64, 65, 127, 128, 129, 257, 1023, 1024, 1025, 1030, 2050]
    large = [{"kind": k, "n": n, "rooted": r, "sort": srt} for n in sizes for k in ("caterpillar", "balanced", "star", "random")
             for r, srt in ((True, None), (False, "rev")) if not (k == "caterpillar" and n > 600)]
    runner.run_items(ctx, "large", large, check_large)
