"""C02 - trees survive a write/read round trip through Newick, NEXUS and NeXML.

Generated: a tree list (0-4 trees, one namespace, optional taxa on no tree) with tricky taxon labels, internal
labels / internal taxa, all edge-length patterns, rootings, weights; written through one of the public entry points
with one of the documented-consistent writer/reader option pairs and read back.

Oracle: lib/snapshot.snapshot of the re-read tree against the RefTree of the spec (the original DendroPy tree is
snapshotted too, before and after writing): same ordered topology, same taxon label / internal label on every node,
float(length) equality, rooting, weights, number and order of trees, namespace labels."""
import os
import re
import shutil
import tempfile

from hypothesis import strategies as st

from lib import runner, shapes
from lib.refmodel import RefTree
from lib.snapshot import snapshot

CONFIG = {
    "shards": {"quick": 8, "thorough": 16},
    "budget_s": {"quick": 120, "thorough": 1500},
    "rule": ("Hypothesis: format {newick,nexus,nexml} x tree list of 0-4 trees over one namespace (0-2 taxa on no tree, "
             "drawn namespace order) x shapes (single node, unifurcations, polytomies) x taxon labels from the tricky-"
             "label strategy (>= 60 % contain punctuation/space/tab/underscore/quote/digits-only/keyword-like/non-ASCII) "
             "x internal nodes with label / taxon / nothing x edge lengths (absent, 0, ints <= 1e9, floats incl. "
             "1e-300, 1.5e+20, negative, mixed) x root-edge length x rooting {True,False,None} x weights x option "
             "pair (a)-(f) x translate_tree_taxa (NEXUS) x entry point (TreeList/Tree as_string/write(path) -> "
             "TreeList.get/Tree.get incl. tree_offset; Newick/NEXUS: 1 in 4 read into the original namespace) x "
             "namespace history (throw-away taxa added at drawn points and removed again, then sort()/sort(reverse)/"
             "reverse(), so list position != accession index) x in 2 of 3 cases a SECOND write/read of the same objects "
             "in the same process after relabelling none/some/all taxa or rotating their labels, with a drawn format, "
             "option pair and entry point; in 1 of 3 cases one or two CONFUSABLE PAIRS are planted in the label pool "
             "(space vs underscore, swapped separators, trailing/leading underscore, quoted copy, ' vs '', one vs two "
             "spaces/underscores, space vs tab ...). Pairs: deterministic list of every confusable derivation of 8 base "
             "labels x 19 format/option combinations x 3 layouts (both labels on one tree / on two trees of a list in "
             "either order). Sweep: every label of length <= 2 (quick) / <= 3 (thorough) over a "
             "45-character alphabet as a leaf of a three-leaf tree (length 1 / <= 2 also as an internal node label) x "
             "formats x label option pairs (a)-(d) x translate. "
             "Non-trivial = a label with a character outside [A-Za-z0-9], or a non-default option pair, or a length "
             "written in scientific notation; distinct = (format, option pair, translate, label multiset, shapes)."),
    "exhaustive": {"quick": False, "thorough": False},
    "exhaustive_note": {"quick": "sweep: all 1 892 labels of length <= 2 over the 45-character alphabet (no leading/"
                                 "trailing whitespace) as leaf taxon label (length 1 also as internal node label) x 13 "
                                 "format/option combinations",
                        "thorough": "sweep: all 85 097 labels of length <= 3 over the 45-character alphabet (no "
                                    "leading/trailing whitespace) as leaf taxon label (length <= 2 also as internal "
                                    "node label) x 13 format/option combinations"},
    "assumptions": ["labels are non-empty, have no leading/trailing whitespace, contain printable ASCII, TAB and "
                    "non-ASCII letters only, and are pairwise distinct under str.lower()",
                    "every leaf carries a taxon; leaf node labels are not generated (not written by default)",
                    "internal nodes of one tree list carry either labels or taxa, never both kinds (a Newick token "
                    "cannot tell them apart; the reader option suppress_internal_node_taxa decides for the whole file)",
                    "under suppress_rooting all trees of a list share the rooting state given to the reader",
                    "relabelling a Taxon of a namespace (taxon.label = ...) to a label that keeps all labels distinct "
                    "up to case is a supported operation; sort()/reverse()/remove_taxon() on a namespace are too",
                    "tree weight None is not compared (the reader substitutes its default weight)",
                    "NeXML: undefined rooting may come back as unrooted, a missing root-edge length as 0"],
}

SPECIAL = "()[]{}\\/,;:=*'\"`+-<>_ &#%!?.|~^@"
STRUCTURAL = "(),:;"
NONASCII = "éßΩж中ı"
SWEEP_ALPHABET = SPECIAL + "$" + "\t" + "01" + "aEentux" + "éß"      # 45 characters
WS = " \t"
KEYWORDS = ["end", "END", "End", "tree", "TREE", "begin", "BEGIN", "endblock", "translate", "Translate", "taxlabels",
            "title", "link", "dimensions", "utree", "trees", "taxa", "#NEXUS", "end;", ";end", "tree ;", "end ;",
            "begin trees;", "=", "tree 1 =", "[&R]", "[&U]", "[&W 1]", "[&r]", "a[b]c", "[x", "x]", "ntax=3", "NaN",
            "1e5", "0", "1", "2", "3", "-1", "1.5", "+", "''", "'a'", "a''b", "\"a\"", "_", "__", "a_", "_a", "a__b",
            "a _b", "a_ b", "a  b", "a \tb", "&amp;", "&lt;", "&#9;", "<a>", "</node>", "]]>", "<!--", "\\t", "\\n",
            "\\u00e9", "\\\\", "\\", "\\\"", "%s", "{}", "{0}", "d0", "d1"]

PAIRS = ("a", "b", "c", "d", "e", "f")

# ---------------------------------------------------------------------------
# strategies (plain data)
# ---------------------------------------------------------------------------
_LETTERS = "abcdefghijklmnopqrstuvwxyzABCDEFGHIJKLMNOPQRSTUVWXYZ"
_DIGITS = "0123456789"
_EDGE_CHARS = _LETTERS + _DIGITS + SPECIAL.replace(" ", "") + NONASCII       # allowed first/last characters
_MID_CHARS = _EDGE_CHARS + "  \t" + "___" + "''"                           # anywhere else


@st.composite
def label_strategy(draw):
    kind = draw(st.sampled_from(["plain", "plain", "plain", "mix", "mix", "mix", "mix", "single", "digits", "keyword",
                                 "keyword", "spaces", "quotes", "nonascii", "struct"]))
    if kind == "plain":
        return draw(st.sampled_from(_LETTERS)) + draw(st.text(alphabet=_LETTERS + _DIGITS, max_size=5))
    if kind == "mix":
        first = draw(st.sampled_from(_EDGE_CHARS))
        n = draw(st.integers(0, 6))
        if n == 0:
            return first
        mid = draw(st.text(alphabet=_MID_CHARS, max_size=n - 1)) if n > 1 else ""
        return first + mid + draw(st.sampled_from(_EDGE_CHARS))
    if kind == "single":
        return draw(st.sampled_from(SPECIAL.replace(" ", "")))
    if kind == "digits":
        return draw(st.text(alphabet=_DIGITS, min_size=1, max_size=4))
    if kind == "keyword":
        return draw(st.sampled_from(KEYWORDS))
    if kind == "spaces":
        words = draw(st.lists(st.text(alphabet="abXY12", min_size=1, max_size=3), min_size=2, max_size=3))
        seps = draw(st.lists(st.sampled_from([" ", "_", "  ", "\t", " _", "_ ", "__"]), min_size=2, max_size=2))
        out = words[0]
        for w, s in zip(words[1:], seps):
            out += s + w
        return out
    if kind == "quotes":
        parts = draw(st.lists(st.sampled_from(["a", "b", "'", "''", "\"", "`", " ", "_", "x"]), min_size=1, max_size=5))
        return "q" + "".join(parts) + "z" if draw(st.booleans()) else "'" + "".join(parts) + "'"
    if kind == "nonascii":
        return draw(st.text(alphabet=NONASCII + "ab ", min_size=0, max_size=3)).strip() + draw(st.sampled_from(NONASCII))
    if kind == "struct":
        a = draw(st.sampled_from(STRUCTURAL + "=[]'"))
        return draw(st.sampled_from(["x" + a, a + "x", "x" + a + "y", a + a, a]))
    raise AssertionError(kind)


def length_strategy():
    return st.one_of(
        st.sampled_from([0, 0.0, 1, 1.0, 1e-300, 1.5e+20, -1.5, -1, 1e-12, 123456789.125, 1e9, 10 ** 9, 2.5e-05, 1e16, 1e22,
                         0.1, 5e-324, 1.7976931348623157e+308]),
        st.integers(0, 10 ** 9),
        st.floats(min_value=-1e6, max_value=1e6, allow_nan=False, allow_infinity=False),
        st.floats(allow_nan=False, allow_infinity=False),
    )


def _swap_all(b):
    return b.translate({32: "_", 95: " "})


def _swap_one(b):
    for k, c in enumerate(b):
        if c in " _":
            return b[:k] + ("_" if c == " " else " ") + b[k + 1:]
    return b


# name -> function(base) -> list of labels that replace (base's slot, the partner's slot); None keeps the slot
CONFUSABLE = {
    "space_vs_underscore": lambda b: [b + " x", b + "_x"],
    "swap_all": lambda b: [None, _swap_all(b)],
    "swap_one": lambda b: [None, _swap_one(b)],
    "trailing_underscore": lambda b: [None, b + "_"],
    "leading_underscore": lambda b: [None, "_" + b],
    "single_quoted": lambda b: [None, "'" + b + "'"],
    "double_quoted": lambda b: [None, '"' + b + '"'],
    "quote_vs_doubled_quote": lambda b: [b + "'s", b + "''s"],
    "one_vs_two_spaces": lambda b: [b + " x", b + "  x"],
    "one_vs_two_underscores": lambda b: [b + "_x", b + "__x"],
    "space_vs_tab": lambda b: [b + " x", b + "\tx"],
    "underscore_vs_nothing": lambda b: [b + "_x", b + "x"],
    "space_underscore_order": lambda b: [b + " _x", b + "_ x"],
}
CONFUSABLE_NAMES = sorted(CONFUSABLE)


def admissible(l):
    return bool(l) and l == l.strip() and l[0] not in WS and l[-1] not in WS


def apply_confusable(pool, i, j, name):
    """Replace pool[i] / pool[j] by a near-colliding pair derived from pool[i]; no-op unless the result is admissible
    and the pool stays pairwise distinct under str.lower().  Returns True when applied."""
    if i == j:
        return False
    a, b = CONFUSABLE[name](pool[i])
    a = pool[i] if a is None else a
    if not (admissible(a) and admissible(b)) or a.lower() == b.lower():
        return False
    others = set(l.lower() for k, l in enumerate(pool) if k not in (i, j))
    if a.lower() in others or b.lower() in others:
        return False
    pool[i], pool[j] = a, b
    return True


def confusion_key(l):
    """Labels with the same key are distinct but differ only in space/underscore/tab/quote characters."""
    return re.sub(r"[ _\t'\"]+", " ", l).strip().lower()


@st.composite
def tree_strategy(draw, n_taxa, max_leaves, imode, rooted):
    """One tree over taxon indices 0..n_taxa-1 (drawn injection), lengths and internal decorations drawn."""
    hi = min(max_leaves, n_taxa)
    lo = min(hi, draw(st.sampled_from([1, 2, 3, 3, 4])))
    spec = draw(shapes.shapes(min_leaves=lo, max_leaves=hi, max_arity=4, unifurcations=True))
    nodes = shapes.spec_nodes(spec)
    leaves = [s for s in nodes if not s["ch"]]
    internals = [s for s in nodes if s["ch"]]
    perm = list(draw(st.permutations(list(range(n_taxa)))))
    for s in leaves:
        s["t"] = perm[s["t"]]
    free = perm[len(leaves):]
    lenpat = draw(st.sampled_from(["none", "none", "int", "float", "float", "mixed", "zero"]))
    for k, s in enumerate(nodes):
        if k == 0:
            if draw(st.integers(0, 3)) == 0:
                s["len"] = draw(length_strategy())
            continue
        if lenpat == "none":
            s["len"] = None
        elif lenpat == "zero":
            s["len"] = 0
        elif lenpat == "int":
            s["len"] = draw(st.integers(0, 10 ** 9))
        elif lenpat == "float":
            s["len"] = draw(length_strategy())
        else:
            s["len"] = draw(st.one_of(st.none(), length_strategy()))
    for s in internals:
        if imode == "label" and draw(st.booleans()):
            s["lab"] = draw(label_strategy())
        elif imode == "taxon" and free and draw(st.booleans()):
            s["t"] = free.pop()
    weight = draw(st.one_of(st.none(), st.sampled_from([1, 2, 0.5, 0.25, 1.0, 3.75, 1e-05, 12345.678, 0.1]),
                            st.floats(min_value=1e-9, max_value=1e9, allow_nan=False)))
    return {"spec": spec, "rooted": rooted, "weight": weight, "lenpat": lenpat}


@st.composite
def cases(draw, max_leaves, fmt=None):
    fmt = fmt or draw(st.sampled_from(["newick", "newick", "nexus", "nexus", "nexml"]))
    pair = "a" if fmt == "nexml" else draw(st.sampled_from(["a", "a", "b", "c", "d", "e", "f"]))
    imode = draw(st.sampled_from(["none", "label", "label", "taxon"]))
    ntrees = draw(st.sampled_from([0, 1, 1, 2, 2, 3, 4]))
    n_taxa = draw(st.sampled_from([1, 2, 3, 4, 5, 6])) if max_leaves <= 8 and draw(st.booleans()) else draw(st.integers(1, max_leaves + 2))
    with_second = draw(st.integers(0, 2)) > 0
    npool = 2 * n_taxa if with_second else n_taxa
    pool = draw(st.lists(label_strategy(), min_size=npool, max_size=npool, unique_by=lambda s: s.lower()))
    # confusable pairs: labels of ONE namespace that must stay distinct although they differ only in space vs
    # underscore, quoting, doubled separators ... (every asserted option pair keeps them distinguishable: a space is
    # written as an unquoted underscore or inside quotes, an underscore always inside quotes unless the reader
    # preserves unquoted underscores)
    if npool >= 2 and draw(st.integers(0, 2)) == 0:
        pool = list(pool)
        for rep in range(draw(st.integers(1, 2))):
            hi = (n_taxa if rep == 0 and n_taxa >= 2 else npool) - 1
            apply_confusable(pool, draw(st.integers(0, hi)), draw(st.integers(0, hi)),
                             draw(st.sampled_from(CONFUSABLE_NAMES)))
    labels = pool[:n_taxa]
    ns_order = list(draw(st.permutations(list(range(n_taxa)))))
    # namespace history: throw-away taxa that join at drawn points and are removed again (list position != accession
    # index afterwards), then an optional sort()/reverse() of the namespace
    hist = {"ghosts": sorted(draw(st.lists(st.integers(0, n_taxa), max_size=2))) if draw(st.booleans()) else [],
            "sort": draw(st.sampled_from([None, None, "fwd", "rev", "reverse"]))}
    list_rooting = draw(st.sampled_from([True, False, None]))
    trees = []
    for _ in range(ntrees):
        rooted = list_rooting if pair == "e" else draw(st.sampled_from([True, False, None]))
        trees.append(draw(tree_strategy(n_taxa, max_leaves, imode, rooted)))
    if ntrees == 0:
        route = draw(st.sampled_from(["list_string", "list_path"]))
    else:
        route = draw(st.sampled_from(["list_string", "list_string", "list_path", "tree_string", "tree_path",
                                      "tree_offset"]))
    second = None
    if with_second:
        # a second write/read of the SAME objects in the same process, after relabelling taxa
        mode = draw(st.sampled_from(["same", "some", "some", "all", "rotate"]))
        alt = pool[n_taxa:]
        if mode == "same":
            labels2 = list(labels)
        elif mode == "all":
            labels2 = list(alt)
        elif mode == "rotate":
            labels2 = labels[1:] + labels[:1]
        else:
            mask = draw(st.lists(st.booleans(), min_size=n_taxa, max_size=n_taxa))
            labels2 = [alt[i] if mask[i] else labels[i] for i in range(n_taxa)]
        fmt2 = draw(st.sampled_from([fmt, fmt, "newick", "nexus", "nexml"]))
        if fmt2 == "nexml":
            pair2 = "a"
        else:
            pair2 = draw(st.sampled_from(["a", "a", "b", "c", "d", "f"] + (["e"] if pair == "e" else [])))
        second = {"relabel": mode, "labels": labels2, "fmt": fmt2, "pair": pair2,
                  "translate": draw(st.booleans()) if fmt2 == "nexus" else False,
                  "route": route if draw(st.booleans()) else draw(st.sampled_from(
                      ["list_string", "list_path"] if ntrees == 0 else
                      ["list_string", "list_path", "tree_string", "tree_path", "tree_offset"])),
                  "into": fmt2 != "nexml" and draw(st.integers(0, 3)) == 0}
    return {"fmt": fmt, "pair": pair, "imode": imode, "labels": labels, "ns_order": ns_order, "trees": trees,
            "translate": draw(st.booleans()) if fmt == "nexus" else False, "route": route,
            "k": draw(st.integers(0, 3)), "list_rooting": list_rooting,
            "into": fmt != "nexml" and draw(st.integers(0, 3)) == 0, "hist": hist, "second": second}


# ---------------------------------------------------------------------------
# option pairs
# ---------------------------------------------------------------------------

def options(case):
    """(writer kwargs, reader kwargs) for the case: only documented-consistent pairs."""
    fmt, pair = case["fmt"], case["pair"]
    w, r = {}, {}
    if fmt in ("newick", "nexus"):
        if pair == "b":
            w["preserve_spaces"] = True
        elif pair == "c":
            w["unquoted_underscores"] = True
            w["preserve_spaces"] = True
            r["preserve_underscores"] = True
        elif pair == "d":
            w["preserve_spaces"] = True
            r["preserve_underscores"] = True
        elif pair == "e":
            w["suppress_rooting"] = True
            lr = case["list_rooting"]
            r["rooting"] = "force-rooted" if lr is True else ("force-unrooted" if lr is False else None)
        elif pair == "f":
            w["store_tree_weights"] = True
            r["store_tree_weights"] = True
        if fmt == "nexus":
            w["translate_tree_taxa"] = bool(case["translate"])
    elif pair != "a":
        raise runner.HarnessError("NeXML has no writer options: pair %r" % pair)
    if case["imode"] == "taxon":
        r["suppress_internal_node_taxa"] = False
    return w, r


# ---------------------------------------------------------------------------
# helpers
# ---------------------------------------------------------------------------

def label_class(s):
    out = []
    if re.fullmatch(r"[A-Za-z][A-Za-z0-9]*", s):
        return ["plain"]
    if re.fullmatch(r"[0-9]+", s):
        out.append("digits_only")
    if " " in s:
        out.append("space")
    if "\t" in s:
        out.append("tab")
    if "_" in s:
        out.append("underscore")
    if "'" in s:
        out.append("single_quote")
    if '"' in s:
        out.append("double_quote")
    if any(c in "()[]{}" for c in s):
        out.append("bracket")
    if any(c in ",;:=" for c in s):
        out.append("separator")
    if "\\" in s or "/" in s:
        out.append("slash")
    if any(c in "<>&" for c in s):
        out.append("xml_markup")
    if any(ord(c) > 127 for c in s):
        out.append("non_ascii")
    if s.lower() in ("end", "tree", "begin", "endblock", "translate", "taxlabels", "title", "link", "dimensions",
                     "utree", "trees", "taxa"):
        out.append("keyword")
    if len(s) == 1 and s in STRUCTURAL:
        out.append("single_structural_char")
    if not out:
        out.append("other_punctuation")
    return out


def is_tricky(s):
    return re.fullmatch(r"[A-Za-z0-9]*[A-Za-z][A-Za-z0-9]*", s) is None


def sci(x):
    return isinstance(x, float) and "e" in repr(x)


def text_order_taxa(spec, out):
    """Taxon indices in the order their tokens appear in a Newick statement (children before the node's own tag)."""
    for c in spec["ch"]:
        text_order_taxa(c, out)
    if spec["t"] is not None:
        out.append(spec["t"])
    return out


def tokens_in_statement(case, tree_indices):
    """Label strings that appear as tokens inside the tree statements of the listed trees (before translation)."""
    out = []
    for i in tree_indices:
        for s in shapes.spec_nodes(case["trees"][i]["spec"]):
            if s["t"] is not None:
                out.append(("taxon", case["labels"][s["t"]]))
            if s["lab"] is not None:
                out.append(("label", s["lab"]))
    return out


def known_predicate(case, written):
    """Narrow input predicates of listed findings; returns a key suffix or None.

    (The defect behind this predicate is repaired by the `fix:` commit "tree statements and TAXLABELS treat quoted
    ( ) , : ; tokens as labels"; the predicate stays so that, on a tree without that commit, the failure can be listed
    in known_findings.json under a key that cannot hide any other failure.)

    label_is_single_structural_char: Newick/NEXUS only; a label that is exactly one of ( ) , : ; occurs as a token of
    a written tree statement (taxon labels only when no TRANSLATE table replaces them), or (NEXUS) the label ';' is in
    the namespace (TAXLABELS / TRANSLATE statements end at the first ';' token, quoted or not)."""
    fmt = case["fmt"]
    if fmt not in ("newick", "nexus"):
        return None
    for kind, lab in tokens_in_statement(case, written):
        if len(lab) == 1 and lab in STRUCTURAL:
            if kind == "taxon" and fmt == "nexus" and case["translate"]:
                continue
            return "label_is_single_structural_char"
    if fmt == "nexus" and ";" in case["labels"]:
        return "label_is_single_structural_char"
    return None


class Run(object):
    """One case: carries ctx + case so that every verdict gets a key computed from the input."""

    def __init__(self, ctx, case, sub):
        self.ctx = ctx
        self.case = case
        self.sub = sub
        self.written = []

    def key(self, clause):
        pred = known_predicate(self.case, self.written)
        if pred is not None:
            return "C02.roundtrip:%s:%s" % (self.case["fmt"], pred)
        return "C02.%s:%s" % (clause, self.case["fmt"])

    def fail(self, clause, detail):
        self.ctx.fail(clause, self.key(clause), detail)
        raise runner.KnownSkip()

    def check(self, cond, clause, detail):
        if not cond:
            self.fail(clause, detail() if callable(detail) else detail)

    def lib(self, clause, fn, *a, **kw):
        try:
            return fn(*a, **kw)
        except runner.Violation:
            raise
        except Exception as e:
            if runner.exc_in_dendropy(e):
                best, _ = runner.innermost_dendropy_frame(e)
                self.fail(clause, "%s: %s (at %s:%s in %s)" % (type(e).__name__, str(e)[:300], best[1], best[2], best[0]))
            raise


def build(case):
    """Returns (ns, tree list, taxa by index, expected order of taxon indices in the namespace)."""
    import dendropy
    labels = case["labels"]
    hist = case.get("hist") or {"ghosts": [], "sort": None}
    ns = dendropy.TaxonNamespace()
    taxa = {}
    ghosts = []
    for pos, idx in enumerate(list(case["ns_order"]) + [None]):
        for g in hist["ghosts"]:
            if g == pos:
                ghosts.append(ns.new_taxon(label="\u2603ghost%d" % len(ghosts)))   # label outside the generated domain
        if idx is not None:
            t = dendropy.Taxon(label=labels[idx])
            ns.add_taxon(t)
            taxa[idx] = t
    for g in ghosts:
        ns.remove_taxon(g)
    order = list(case["ns_order"])
    if hist["sort"] == "fwd":
        ns.sort()
        order.sort(key=lambda i: labels[i])
    elif hist["sort"] == "rev":
        ns.sort(reverse=True)
        order.sort(key=lambda i: labels[i], reverse=True)
    elif hist["sort"] == "reverse":
        ns.reverse()
        order.reverse()
    tl = dendropy.TreeList(taxon_namespace=ns)
    for tr in case["trees"]:
        t = shapes.build_tree(tr["spec"], ns, taxa, is_rooted=tr["rooted"])
        if tr["weight"] is not None:
            t.weight = tr["weight"]
        tl.append(t)
    return ns, tl, taxa, order


def expected_reftree(case, tr):
    rt = RefTree.from_spec(tr["spec"], labels=case["labels"])
    rt.is_rooted = tr["rooted"]
    return rt


def same_reftree(a, b):
    return (a.parent == b.parent and a.taxon == b.taxon and a.label == b.label and a.is_rooted == b.is_rooted
            and [repr(x) for x in a.length] == [repr(x) for x in b.length])


def describe(rt):
    return [(rt.parent[i], rt.taxon[i], rt.label[i], rt.length[i]) for i in rt.nodes()]


def compare_tree(run, want, tree, tag):
    """want: RefTree of the spec; tree: re-read DendroPy tree."""
    fmt = run.case["fmt"]
    got, problems = snapshot(tree)
    run.check(not problems, "read_tree_well_formed", lambda: "%s: %r" % (tag, problems))
    run.check(got.parent == want.parent, "topology_and_child_order",
              lambda: "%s: parent vector (preorder) got %r want %r" % (tag, got.parent, want.parent))
    run.check(got.taxon == want.taxon, "taxon_on_every_node",
              lambda: "%s: taxon labels (preorder) got %r want %r" % (tag, got.taxon, want.taxon))
    run.check(got.label == want.label, "internal_node_labels",
              lambda: "%s: node labels (preorder) got %r want %r" % (tag, got.label, want.label))
    for i in want.nodes():
        w, g = want.length[i], got.length[i]
        if w is None:
            ok = g is None
            if not ok and fmt == "nexml" and i == want.root:
                ok = g == 0
            run.check(ok, "edge_length_absent_stays_absent",
                      lambda: "%s: node %d (preorder; taxon %r) had no length, read back %r" % (tag, i, want.taxon[i], g))
        else:
            run.check(g is not None and not isinstance(g, str) and float(w) == g, "edge_length_value",
                      lambda: "%s: node %d length written %r read %r" % (tag, i, w, g))
    wr, gr = want.is_rooted, got.is_rooted
    ok = gr is wr
    if fmt == "nexml" and wr is None:
        ok = gr is None or gr is False
    run.check(ok, "rooting_state", lambda: "%s: is_rooted written %r read %r" % (tag, wr, gr))
    return got


def run_case(ctx, case, sub):
    ns, tl, taxa, order = build(case)
    if [t.label for t in ns] != [case["labels"][i] for i in order]:
        raise runner.HarnessError("namespace history model disagrees with the namespace: %r" % ([t.label for t in ns],))
    round_trip(Run(ctx, case, sub), case, ns, tl, order)
    second = case.get("second")
    if second:
        # history on the same objects: relabel the original taxa, then write + read again (possibly another format)
        for idx, t in taxa.items():
            if t.label != second["labels"][idx]:
                t.label = second["labels"][idx]
        case2 = dict(case, second=None, **second)
        round_trip(Run(ctx, case2, sub), case2, ns, tl, order)


def round_trip(run, case, ns, tl, order):
    import dendropy
    fmt, route = case["fmt"], case["route"]
    labels = case["labels"]
    w, r = options(case)
    ntrees = len(case["trees"])
    k = case["k"] % ntrees if ntrees else 0
    wants = [expected_reftree(case, tr) for tr in case["trees"]]
    # the harness's own construction must denote the spec (guards the oracle, not the library)
    for i, t in enumerate(tl):
        before, problems = snapshot(t)
        if problems or not same_reftree(before, wants[i]):
            raise runner.HarnessError("built tree differs from spec: %r / %r" % (problems, describe(before)))
    single = route in ("tree_string", "tree_path")
    run.written = [k] if single else list(range(ntrees))
    src = tl[k] if single else tl
    tmpdir = None
    try:
        if route in ("list_path", "tree_path"):
            tmpdir = tempfile.mkdtemp(prefix="c02_")
            path = os.path.join(tmpdir, "t." + fmt)
            run.lib("write", src.write, path=path, schema=fmt, **w)
            text = None
        else:
            text = run.lib("write", src.as_string, schema=fmt, **w)
        # writing must not change the trees
        for i, t in enumerate(tl):
            after, problems = snapshot(t)
            run.check(not problems and same_reftree(after, wants[i]), "writing_leaves_tree_unchanged",
                      lambda: "tree %d after writing: %r %r" % (i, problems, describe(after)))
        run.check([t.label for t in ns] == [labels[i] for i in order], "writing_leaves_namespace_unchanged",
                  lambda: "namespace after writing %r" % ([t.label for t in ns],))
        srckw = {"path": path} if text is None else {"data": text}
        into = bool(case.get("into"))
        if into:
            # read into the namespace the trees were written from: every label must resolve to the existing taxon
            r = dict(r, taxon_namespace=ns)
        if route in ("list_string", "list_path"):
            got = run.lib("read", dendropy.TreeList.get, schema=fmt, **dict(srckw, **r))
            got_trees = list(got)
            got_ns = got.taxon_namespace
            pairs = list(range(ntrees))
            run.check(len(got_trees) == ntrees, "number_of_trees",
                      lambda: "wrote %d trees, read %d\n%s" % (ntrees, len(got_trees), text))
        else:
            kw = dict(srckw, **r)
            if route == "tree_offset":
                kw["tree_offset"] = k
            gt = run.lib("read", dendropy.Tree.get, schema=fmt, **kw)
            got_trees = [gt]
            got_ns = gt.taxon_namespace
            pairs = [k]
        shown = text if text is not None else open(path).read()
        for gtree, i in zip(got_trees, pairs):
            tag = "tree %d of %d via %s %s\n%s" % (i, ntrees, route, (w, r), shown[:1500])
            grt = compare_tree(run, wants[i], gtree, tag)
            run.check(gtree.taxon_namespace is got_ns, "trees_share_the_read_namespace", tag)
            members = set(id(t) for t in got_ns)
            run.check(all(n.taxon is None or id(n.taxon) in members for n in grt.obj), "node_taxa_belong_to_namespace", tag)
            if case["pair"] == "f" and case["trees"][i]["weight"] is not None:
                ww = case["trees"][i]["weight"]
                gw = gtree.weight
                run.check(gw is not None and abs(float(ww) - gw) <= 1e-12 * abs(float(ww)), "tree_weight",
                          lambda: "%s: weight written %r read %r" % (tag, ww, gw))
        # namespace
        got_labels = [t.label for t in got_ns]
        if into:
            run.check(got_ns is ns, "read_into_given_namespace", "TreeList/Tree.get(taxon_namespace=ns) uses another namespace")
            want_labels = [labels[i] for i in order]
        elif fmt == "newick":
            want_idx = []
            for i in run.written:
                for t in text_order_taxa(case["trees"][i]["spec"], []):
                    if t not in want_idx:
                        want_idx.append(t)
            want_labels = [labels[i] for i in want_idx]
        else:
            want_labels = [labels[i] for i in order]
        run.check(got_labels == want_labels, "namespace_labels",
                  lambda: "namespace read %r want %r (%s %s)\n%s" % (got_labels, want_labels, route, (w, r), shown[:1500]))
    finally:
        if tmpdir is not None:
            shutil.rmtree(tmpdir, ignore_errors=True)


def bookkeeping(ctx, case, sub):
    used = set()
    nint = 0
    any_sci = False
    for tr in case["trees"]:
        for s in shapes.spec_nodes(tr["spec"]):
            if s["t"] is not None:
                used.add(case["labels"][s["t"]])
            if s["lab"] is not None:
                used.add(s["lab"])
                nint += 1
            if sci(s["len"]):
                any_sci = True
    alllabels = set(case["labels"]) | used
    for lab in alllabels:
        for c in label_class(lab):
            ctx.cls("label:%s" % c)
    ctx.cls("fmt:%s" % case["fmt"])
    ctx.cls("pair:%s:%s" % (case["fmt"], case["pair"]))
    ctx.cls("route:%s" % case["route"])
    ctx.cls("imode:%s" % case["imode"])
    ctx.cls("ntrees:%d" % len(case["trees"]))
    if case["translate"]:
        ctx.cls("nexus:translate")
    if case.get("into"):
        ctx.cls("read_into_original_namespace")
    for labs, tag in ((case["labels"], "first"), ((case.get("second") or {}).get("labels") or [], "second")):
        keys = [confusion_key(l) for l in labs]
        if len(set(keys)) < len(keys):
            ctx.cls("ns:confusable_pair_in_namespace:%s_round" % tag)
        norm = [l.replace("_", " ") for l in labs]
        if len(set(norm)) < len(norm):
            ctx.cls("ns:space_vs_underscore_pair:%s_round" % tag)
    hist = case.get("hist") or {"ghosts": [], "sort": None}
    n = len(case["labels"])
    if any(g < n for g in hist["ghosts"]):
        ctx.cls("ns_history:taxon_removed_before_last")
    if hist["sort"]:
        ctx.cls("ns_history:%s" % hist["sort"])
    if case["translate"] and (any(g < n for g in hist["ghosts"]) or hist["sort"]):
        ctx.cls("nexus:translate_with_position_not_accession_order")
    second = case.get("second")
    if second:
        ctx.cls("second_round:relabel_%s" % second["relabel"])
        ctx.cls("second_round:%s_then_%s" % (case["fmt"], second["fmt"]))
    if len(case["labels"]) > len(set(case["labels"]) & used) and case["trees"]:
        ctx.cls("ns:taxa_on_no_tree")
    for tr in case["trees"]:
        ctx.cls("rooting:%r" % tr["rooted"])
        ctx.cls("lenpat:%s" % tr["lenpat"])
        nodes = shapes.spec_nodes(tr["spec"])
        if len(nodes) == 1:
            ctx.cls("shape:single_node")
        if any(len(s["ch"]) == 1 for s in nodes):
            ctx.cls("shape:has_unifurcation")
        if any(len(s["ch"]) > 2 for s in nodes):
            ctx.cls("shape:has_polytomy")
        if nodes[0]["len"] is not None:
            ctx.cls("shape:root_edge_length")
    if any_sci:
        ctx.cls("length:scientific_notation")
    tricky = any(is_tricky(l) for l in alllabels)
    ctx.cls("case:has_tricky_label" if tricky else "case:plain_labels_only")
    if tricky or case["pair"] != "a" or any_sci:
        ctx.nontrivial([case["fmt"], case["pair"], case["translate"], sorted(alllabels),
                        [shapes.spec_to_newick(tr["spec"]) for tr in case["trees"]], hist,
                        [second["fmt"], second["pair"], second["labels"]] if second else None])
    if sub == "random":
        ctx.sample("%s:%s" % (case["fmt"], case["pair"]), case)


def check_case(ctx, case):
    bookkeeping(ctx, case, "random")
    run_case(ctx, case, "random")


# ---------------------------------------------------------------------------
# deterministic sweep
# ---------------------------------------------------------------------------

def sweep_labels(maxlen):
    chars = [c for c in SWEEP_ALPHABET]
    out = []
    cur = [""]
    for n in range(1, maxlen + 1):
        cur = [p + c for p in cur for c in chars]
        out.extend(l for l in cur if l[0] not in WS and l[-1] not in WS)
    return out


SWEEP_COMBOS = ([("newick", p, False) for p in "abcd"] + [("nexus", p, tr) for p in "abcd" for tr in (False, True)]
                + [("nexml", "a", False)])


def sweep_items(maxlen, maxlen_internal):
    """(label as leaf taxon label | label as internal node label) x format/option combination."""
    items = []
    for n, lab in enumerate(sweep_labels(maxlen)):
        for m, (fmt, pair, tr) in enumerate(SWEEP_COMBOS):
            items.append({"label": lab, "fmt": fmt, "pair": pair, "translate": tr, "pos": (n + m) % 3, "as": "leaf"})
            if len(lab) <= maxlen_internal:
                items.append({"label": lab, "fmt": fmt, "pair": pair, "translate": tr, "pos": (n + m) % 3,
                              "as": "internal"})
    return items


def sweep_case(item):
    """Expand a sweep item into a full case: three-leaf tree, the swept label at leaf `pos` (as="leaf") or as the
    node label of the clade holding leaves 1 and 2 / of the root (as="internal")."""
    lens = [1.5, None, 2]
    pos = item["pos"]
    if item.get("as", "leaf") == "leaf":
        labels = ["Kx", "Ky"]
        labels.insert(pos, item["label"])
        spec = {"t": None, "lab": None, "len": None,
                "ch": [{"t": i, "lab": None, "len": lens[(i + pos) % 3], "ch": []} for i in range(3)]}
        imode = "none"
    else:
        labels = ["Kx", "Ky", "Kz"]
        lf = [{"t": i, "lab": None, "len": lens[(i + pos) % 3], "ch": []} for i in range(3)]
        inner = {"t": None, "lab": item["label"] if pos != 2 else None, "len": lens[pos], "ch": [lf[1], lf[2]]}
        spec = {"t": None, "lab": item["label"] if pos == 2 else None, "len": None,
                "ch": [lf[0], inner] if pos == 0 else [inner, lf[0]]}
        imode = "label"
    return {"fmt": item["fmt"], "pair": item["pair"], "imode": imode, "labels": labels, "ns_order": [0, 1, 2],
            "trees": [{"spec": spec, "rooted": None, "weight": None, "lenpat": "mixed"}],
            "translate": item["translate"], "route": "list_string", "k": 0, "list_rooting": None}


def check_sweep(ctx, item):
    case = sweep_case(item)
    lab = item["label"]
    for c in label_class(lab):
        ctx.cls("sweep_label:%s" % c)
    ctx.cls("sweep:%s:%s%s:%s" % (item["fmt"], item["pair"], ":translate" if item["translate"] else "",
                                  item.get("as", "leaf")))
    ctx.nontrivial(["sweep", item["fmt"], item["pair"], item["translate"], lab, item["pos"], item.get("as", "leaf")])
    ctx.sample("sweep:%s" % item["fmt"], item)
    run_case(ctx, case, "sweep")


CONFUSABLE_BASES = ["a", "a b", "a_b", "P regius", "x'y", "1", "é ß", "a  b_c"]
PAIR_COMBOS = ([("newick", p, False) for p in "abcdef"] + [("nexus", p, tr) for p in "abcdef" for tr in (False, True)]
               + [("nexml", "a", False)])


def pair_items():
    """Every confusable derivation of every base x format/option combination x layout (both labels on one tree /
    on two trees of one list / the second label only on the second tree, read into the first's namespace order)."""
    items = []
    seen = set()
    for base in CONFUSABLE_BASES:
        for name in CONFUSABLE_NAMES:
            pool = [base, "Kq"]
            if not apply_confusable(pool, 0, 1, name) or tuple(pool) in seen:
                continue
            seen.add(tuple(pool))
            for fmt, pair, tr in PAIR_COMBOS:
                for layout in ("one_tree", "two_trees", "two_trees_reversed"):
                    items.append({"pair_labels": pool, "derivation": name, "fmt": fmt, "pair": pair, "translate": tr,
                                  "layout": layout})
    return items


def pair_case(item):
    a, b = item["pair_labels"]
    labels = [a, b, "Kx", "Ky"]

    def lf(i, L):
        return {"t": i, "lab": None, "len": L, "ch": []}

    def tree(ch):
        return {"spec": {"t": None, "lab": None, "len": None, "ch": ch}, "rooted": True, "weight": 2, "lenpat": "mixed"}
    if item["layout"] == "one_tree":
        trees = [tree([lf(0, 1.5), lf(2, None), lf(1, 2)])]
    elif item["layout"] == "two_trees":
        trees = [tree([lf(0, 1.5), lf(2, None)]), tree([lf(3, 1), lf(1, 2)])]
    else:
        trees = [tree([lf(2, None), lf(1, 1.5)]), tree([lf(0, 1), lf(3, 2)])]
    return {"fmt": item["fmt"], "pair": item["pair"], "imode": "none", "labels": labels, "ns_order": [0, 1, 2, 3],
            "trees": trees, "translate": item["translate"], "route": "list_string", "k": 0, "list_rooting": True}


def check_pair_item(ctx, item):
    case = pair_case(item)
    ctx.cls("pairs:%s" % item["derivation"])
    ctx.cls("pairs:%s:%s%s" % (item["fmt"], item["pair"], ":translate" if item["translate"] else ""))
    ctx.cls("pairs:layout:%s" % item["layout"])
    ctx.nontrivial(["pairs", item])
    ctx.sample("pairs:%s" % item["fmt"], item)
    run_case(ctx, case, "pairs")


SUBCHECKS = {"random": check_case, "sweep": check_sweep, "pairs": check_pair_item}


def run(ctx):
    quick = ctx.tier == "quick"
    # the sweep is deterministic and cheap: run it first so that a loaded machine cannot starve it
    runner.run_items(ctx, "pairs", pair_items(), check_pair_item)
    runner.run_items(ctx, "sweep", sweep_items(2, 1) if quick else sweep_items(3, 2), check_sweep)
    total = 6400 if quick else 48000
    maxl = 8 if quick else 20
    runner.run_given(ctx, "random", cases(maxl), check_case, total // ctx.nshards)
