"""C19 - character-matrix row/column operations select exactly what they name, and terminate.

Three sub-checks share one reference model (taxon index -> list of symbol strings, plus {subset label -> index set}):

machine          stateful, model-based: 1-3 matrices of one data type over a shared TaxonNamespace (taxon labels repeat,
                 so taxa can only be told apart by identity) plus one matrix over a foreign namespace.  Every library
                 call runs inside budget.run (deterministic step budget) and is compared with what its docstring says;
                 after every step ALL matrices (targets, arguments, bystanders, the foreign one) are compared with the
                 model, which is what establishes "arguments unchanged" and "rows are copies, not aliases".  The
                 namespace itself changes during a history (taxa removed while matrices still hold their rows, added
                 back, new taxa, sort/reverse); rows are therefore observed by Taxon object (membership test, item
                 access, len, raw store) and, separately, through public iteration for member taxa.
concat_patterns  exhaustive: every (object-identity pattern x label pattern) of <= 3 matrices for every data type.
concat_random    @given: up to 4 matrices with random dimensions, contents and labels.
concat_streams   @given (small): concatenate_from_streams over FASTA texts against the same per-taxon oracle.
"""
import io
import itertools

from hypothesis import strategies as st

from lib import budget, runner, stateful

CONFIG = {
    "shards": {"quick": 8, "thorough": 16},
    "budget_s": {"quick": 300, "thorough": 2400},   # only reached when a hanging case is being shrunk
    "rule": ("machine: Hypothesis rule-based histories over concatenate / export_character_indices / "
             "export_character_subset (argument: recorded label, also in other letter case; the recorded object; a "
             "caller-built CharacterSubset whose label is None / unused / equal exactly or up to case to a recorded label "
             "with different indices - the indices of the object passed are exported) / new_character_subset / fill / fill_taxa / pack / add_ / replace_ / update_ / "
             "extend_sequences / extend_matrix / remove_ / discard_ / keep_sequences (+ a row assignment to keep states "
             "varied, + namespace events: remove a taxon that still has rows, add it back, new taxa, sort/reverse; rows "
             "are observed by Taxon through membership/item access/the raw store and, for member taxa, through public "
             "iteration) on 1-3 matrices of one of 9 data types over a shared namespace of 1-4 taxa with repeated labels and "
             "one foreign-namespace matrix; non-trivial = history with >= 3 effective steps (a step that changed a "
             "matrix, returned a checked non-empty result or was a checked refusal); distinct = (init, op sequence). "
             "concat_patterns: exhaustive over identity patterns (restricted growth strings) x labels from a 6-label "
             "pool x 9 data types for <= 3 matrices; every case is non-trivial. concat_random / concat_streams: random "
             "dimensions and contents; non-trivial = at least two source matrices or a repeated object."),
    "assumptions": [
        "cell values come from each type's own alphabet (<= 26 symbols) or from 7 dyadic numbers for continuous data",
        "<= 4 taxa x <= 5 columns per generated matrix (results of concatenation/extension grow up to 40 columns)",
        "rows whose taxon left the namespace: the Taxon-keyed operations (add_/replace_/update_/extend_*/remove_/discard_/"
        "keep_sequences) are asserted in full; for the namespace-walking ones (fill, pack, export_*) only member rows are "
        "asserted plus 'existing cells kept', and concatenate is not called (outside its documented domain)",
        "concatenate is only called on complete rectangular matrices over one namespace (its documented domain), "
        "except for the refusal clause (one matrix over a foreign namespace)",
        "step budget: limit = 50000 + 2000 x cells events (>= 50x the largest passing call of that size); observed maxima are "
        "recorded in notes.max, and a passing call above limit/10 is a harness error",
        "subset labels that differ only by case are not asserted either way (the store is caseless, undocumented)",
    ],
    "exhaustive": {"quick": False, "thorough": False},
    "exhaustive_note": {"quick": "concat_patterns enumerates all 378 identity x label patterns of <= 3 matrices for each of "
                                 "9 data types (3402 cases)",
                        "thorough": "concat_patterns enumerates all 378 identity x label patterns of <= 3 matrices for each "
                                    "of 9 data types, at two dimension settings (6804 cases)"},
}

# ---------------------------------------------------------------------------------------------------------------------
# data types
# ---------------------------------------------------------------------------------------------------------------------
CONT_POOL = [0.0, 1.5, -2.25, 3, 100.0, 0.125, -7]
TYPES = {
    "dna": ("DnaCharacterMatrix", "ACGT-?NRYMWSKVHDB"),
    "rna": ("RnaCharacterMatrix", "ACGU-?NRY"),
    "nucleotide": ("NucleotideCharacterMatrix", "ACGTU-?N"),
    "protein": ("ProteinCharacterMatrix", "ACDEFGHIKLMNPQRSTVWY*-?BZX"),
    "restriction": ("RestrictionSitesCharacterMatrix", "10"),
    "infinite": ("InfiniteSitesCharacterMatrix", "10"),
    "standard": ("StandardCharacterMatrix", "0123456789-?"),
    "standard_abc": ("StandardCharacterMatrix", "abc-?"),
    "continuous": ("ContinuousCharacterMatrix", None),
}
TYPE_NAMES = sorted(TYPES)
NS_LABELS = ["a", "b", "c"]                       # few labels => repeated labels inside one namespace
MAT_LABELS = [None, "A", "a", "B", "locus001", "A_002"]
SUB_LABELS = ["s1", "s2", "S3", "A", "B", "locus000"]
MAX_TAXA = 4
MAX_COLS = 5
MAX_WIDTH = 40      # histories are not allowed to grow rows beyond this (repeated self-extension doubles them)


def limit_for(cells):
    """Step budget for a call over `cells` cells.  DESIGN 1.5 planned 200000 + 5000 x cells; the measured maxima (a few
    hundred events for the smallest inputs - deep copies dominate - and < 7 events per cell beyond that, see notes.max)
    allow a quarter of that while staying > 50x above every passing call, and make shrinking a hanging case 4x cheaper."""
    return 50000 + 2000 * cells


class Kit(object):
    """Builds matrices of one data type; maps drawn cell numbers to (library value, expected symbol)."""

    def __init__(self, dtype):
        import dendropy
        self.d = dendropy
        self.dtype = dtype
        self.cls = getattr(dendropy, TYPES[dtype][0])
        self.alphabet = None
        if dtype == "continuous":
            self.pool = [(v, str(v)) for v in CONT_POOL]
        else:
            if dtype == "standard_abc":
                self.alphabet = dendropy.new_standard_state_alphabet("abc")
                sa = self.alphabet
            elif dtype == "standard":
                self.alphabet = dendropy.new_standard_state_alphabet()
                sa = self.alphabet
            else:
                sa = self.cls.datatype_alphabet
            by_symbol = {}
            for s in sa:
                by_symbol.setdefault(s.symbol, s)
            missing = [c for c in TYPES[dtype][1] if c not in by_symbol]
            if missing:
                raise runner.HarnessError("alphabet of %s lacks symbols %r" % (dtype, missing))
            self.pool = [(by_symbol[c], c) for c in TYPES[dtype][1]]

    def value(self, c):
        return self.pool[c % len(self.pool)][0]

    def symbol(self, c):
        return self.pool[c % len(self.pool)][1]

    def new_matrix(self, ns, label):
        if self.alphabet is not None:
            return self.cls(taxon_namespace=ns, label=label, default_state_alphabet=self.alphabet)
        return self.cls(taxon_namespace=ns, label=label)

    def build(self, ns, taxa, label, rows):
        """rows: {taxon index: [cell numbers]} -> (matrix, {taxon index: [symbols]})"""
        m = self.new_matrix(ns, label)
        model = {}
        for i in sorted(rows):
            m[taxa[i]] = [self.value(c) for c in rows[i]]
            model[i] = [self.symbol(c) for c in rows[i]]
        return m, model


def observe(m, taxa):
    """Rows of `m` as {taxon index: [symbols]} using only membership test + item access on taxa that are present."""
    rows = {}
    for i, t in enumerate(taxa):
        if t in m:
            rows[i] = list(m[t].symbols_as_list())
    return rows


def observe_subsets(m):
    out = {}
    for label, cs in m.character_subsets.items():
        out[label] = set(cs.character_indices)
    return out


def fmt_rows(rows):
    return "{%s}" % ", ".join("%d:%s" % (i, "".join(r) if all(len(x) == 1 for x in r) else " ".join(r))
                              for i, r in sorted(rows.items()))


def select_columns(rows, indices):
    want = sorted(set(indices))
    return dict((i, [r[c] for c in want if c < len(r)]) for i, r in rows.items())


class Caller(object):
    """Runs library calls under the step budget, keeps the calibration record."""

    def __init__(self, ctx):
        self.ctx = ctx

    def __call__(self, op, fn, cells, allowed=(), hang_key=None):
        ctx = self.ctx
        limit = limit_for(cells)
        try:
            res, n = ctx.call(op, budget.run, fn, limit, _allowed=allowed)
        except budget.HangDetected as e:
            ctx.fail("terminates", hang_key or ("C19.terminates." + op),
                     "%s did not finish within %d events (%d cells): %s" % (op, limit, cells, e))
            raise runner.KnownSkip()
        mx = ctx.notes.setdefault("max", {})
        if n > mx.get("events:" + op, 0):
            mx["events:" + op] = n
        ratio = round(float(n) / limit, 5)
        if ratio > mx.get("events_over_limit", 0):
            mx["events_over_limit"] = ratio
        if n * 10 > limit:
            raise runner.HarnessError("budget calibration: passing %s call over %d cells used %d events, more than a tenth "
                                      "of its limit %d" % (op, cells, n, limit))
        return res


# ---------------------------------------------------------------------------------------------------------------------
# concatenation oracle (shared by the machine and the concat sub-checks)
# ---------------------------------------------------------------------------------------------------------------------
def check_concatenation(ctx, result, kit, ns, taxa, sources, where, idxs=None):
    """sources: list of (label, rows-model) in argument order; every model is complete (a row for exactly the taxa
    `idxs`, the members of the namespace) and rectangular."""
    idxs = list(range(len(taxa))) if idxs is None else list(idxs)
    ctx.check(isinstance(result, kit.cls), "concat_type", "C19.concat_type",
              lambda: "%s: result is %s, expected %s" % (where, type(result).__name__, kit.cls.__name__))
    ctx.check(result.taxon_namespace is ns, "concat_namespace", "C19.concat_namespace",
              "%s: result is not over the namespace of its sources" % where)
    want = dict((i, []) for i in idxs)
    ranges = []
    pos = 0
    for label, rows in sources:
        width = len(rows[idxs[0]])
        for i in idxs:
            want[i] = want[i] + rows[i]
        ranges.append((pos, pos + width))
        pos += width
    got = observe(result, taxa)
    ctx.check(got == want and len(result) == len(want), "concat_rows", "C19.concat_rows",
              lambda: "%s: labels %r: got %s (len %d) want %s" % (where, [s[0] for s in sources], fmt_rows(got),
                                                                   len(result), fmt_rows(want)))
    subs = observe_subsets(result)
    got_sets = sorted(tuple(sorted(v)) for v in subs.values())
    want_sets = sorted(tuple(range(a, b)) for a, b in ranges)
    ctx.check(got_sets == want_sets, "concat_subsets", "C19.concat_subsets",
              lambda: "%s: labels %r: recorded subsets %r, expected one per source with column ranges %r" % (
                  where, [s[0] for s in sources], sorted((k, sorted(v)) for k, v in subs.items()), ranges))
    # a source whose label is unique (ignoring case) among the sources and cannot be produced by the naming of the other
    # parts is retrievable under its own label
    labels = [s[0] for s in sources]
    for k, label in enumerate(labels):
        if label not in ("A", "a", "B"):
            continue
        if sum(1 for l in labels if l is not None and l.lower() == label.lower()) != 1:
            continue
        found = [v for key, v in subs.items() if key == label]
        ctx.check(len(found) == 1 and sorted(found[0]) == list(range(*ranges[k])), "concat_subset_label",
                  "C19.concat_subset_label",
                  lambda: "%s: labels %r: subset for source %d (label %r) should cover %r; recorded %r" % (
                      where, labels, k, label, ranges[k], sorted((kk, sorted(v)) for kk, v in subs.items())))
    return want, subs


# ---------------------------------------------------------------------------------------------------------------------
# machine
# ---------------------------------------------------------------------------------------------------------------------
CELL = st.integers(0, 25)
K = st.integers(0, 5)
IDX = st.lists(st.integers(0, 9), max_size=6)
TAXA = st.lists(st.integers(0, 7), max_size=5)
MLBL = st.integers(0, len(MAT_LABELS) - 1)
STORE = st.sampled_from([None, None, 0, 1, 2, 3])
ROW = st.lists(CELL, min_size=MAX_COLS, max_size=MAX_COLS)
MAT = st.fixed_dictionaries({
    "label": MLBL,
    "kind": st.sampled_from([0, 0, 1, 1, 2]),     # 0 complete rectangular, 1 rectangular with absent rows, 2 ragged
    "ncols": st.integers(0, MAX_COLS),
    "mask": st.integers(0, 2 ** MAX_TAXA - 1),
    "lens": st.lists(st.integers(0, MAX_COLS), min_size=MAX_TAXA, max_size=MAX_TAXA),
    "rows": st.lists(ROW, min_size=MAX_TAXA, max_size=MAX_TAXA),
})
INIT = st.fixed_dictionaries({
    "dtype": st.sampled_from(TYPE_NAMES),
    "ns": st.lists(st.integers(0, len(NS_LABELS) - 1), min_size=1, max_size=MAX_TAXA),
    "nmats": st.sampled_from([1, 2, 2, 2, 3, 3, 3]),
    "mats": st.lists(MAT, min_size=3, max_size=3),
    "foreign": MAT,
})


def fd(**kw):
    return st.fixed_dictionaries(kw)


PAD = dict(k=K, v=CELL, size=st.sampled_from([None, None, 0, 1, 2, 3, 4, 5, 6, 8]), append=st.booleans())
OTHER = dict(k=K, off=st.sampled_from([1, 1, 1, 1, 2, 2, 0]), foreign=st.sampled_from([False] * 5 + [True]))
ROWSET = dict(k=K, taxa=TAXA, foreign_taxon=st.sampled_from([False, False, True]), as_iter=st.booleans())
RULES = {
    "concatenate": fd(sel=st.lists(K, min_size=1, max_size=3), foreign_at=st.sampled_from([None] * 5 + [0, 1, 2]),
                      store=STORE, label=MLBL, prep=st.booleans()),
    "export_indices": fd(k=K, idx=IDX, store=STORE, label=MLBL),
    "export_subset": fd(k=K, which=st.integers(0, 5), idx=IDX, store=STORE, label=MLBL,
                        by=st.sampled_from(["label", "label", "label_case", "object", "object", "built_none", "built_unused",
                                            "built_same", "built_same", "built_case", "built_case", "missing"])),
    "new_subset": fd(k=K, label=st.integers(0, len(SUB_LABELS) - 1), idx=IDX),
    "fill": fd(**PAD),
    "fill_taxa": fd(k=K),
    "pack": fd(**PAD),
    "add_sequences": fd(**OTHER),
    "replace_sequences": fd(**OTHER),
    "update_sequences": fd(**OTHER),
    "extend_sequences": fd(addnew=st.sampled_from([None, False, True]), **OTHER),
    "extend_matrix": fd(**OTHER),
    "remove_sequences": fd(**ROWSET),
    "discard_sequences": fd(**ROWSET),
    "keep_sequences": fd(**ROWSET),
    "set_row": fd(k=K, t=st.integers(0, 7), cells=st.lists(CELL, max_size=MAX_COLS)),
    # namespace-level events: rows are keyed by Taxon, whatever happens to the namespace afterwards
    "ns_remove": fd(t=st.integers(0, 7)),
    "ns_add_back": fd(t=st.integers(0, 7)),
    "ns_new": fd(l=st.integers(0, len(NS_LABELS) - 1)),
    "ns_reorder": fd(how=st.sampled_from(["sort", "sort_reverse", "reverse"])),
}
MAX_KNOWN_TAXA = 6


def rows_from_spec(spec, ntaxa):
    rows = {}
    for i in range(ntaxa):
        if spec["kind"] != 0 and not (spec["mask"] >> i) & 1:
            continue
        n = spec["lens"][i] if spec["kind"] == 2 else spec["ncols"]
        rows[i] = list(spec["rows"][i][:n])
    return rows


class Slot(object):
    def __init__(self, m, rows, subsets=None):
        self.m = m
        self.rows = rows            # {taxon index: [symbols]}
        self.subsets = subsets if subsets is not None else {}   # {label: set of ints}

    def cells(self):
        return sum(len(r) for r in self.rows.values()) + len(self.rows)

    def complete_rect(self, members):
        """a row for exactly the member taxa of the namespace, all equally long: concatenate's documented domain"""
        return (len(members) > 0 and set(self.rows) == set(members)
                and len(set(len(r) for r in self.rows.values())) == 1)

    def strays(self, members):
        """rows whose taxon is (currently) not a member of the namespace"""
        return [i for i in self.rows if i not in members]


class Interp(object):
    def __init__(self, ctx, init):
        self.ctx = ctx
        self.kit = Kit(init["dtype"])
        d = self.kit.d
        self.call = Caller(ctx)
        self.ns = d.TaxonNamespace()
        self.taxa = [self.ns.new_taxon(NS_LABELS[l]) for l in init["ns"]]
        self.n = len(self.taxa)            # size of the foreign namespace (never changed)
        self.members = list(range(self.n))  # indices into self.taxa, in namespace order; self.taxa only ever grows
        self.fns = d.TaxonNamespace()
        self.ftaxa = [self.fns.new_taxon(NS_LABELS[l]) for l in init["ns"]]
        self.slots = []
        for spec in init["mats"][:init.get("nmats", 3)]:
            m, rows = self.kit.build(self.ns, self.taxa, MAT_LABELS[spec["label"]], rows_from_spec(spec, self.n))
            self.slots.append(Slot(m, rows))
        fspec = dict(init["foreign"], kind=0, ncols=max(1, init["foreign"]["ncols"]))
        fm, frows = self.kit.build(self.fns, self.ftaxa, MAT_LABELS[fspec["label"]], rows_from_spec(fspec, self.n))
        self.foreign = Slot(fm, frows)
        self.effective = 0
        self.sig = [init["dtype"], init["ns"], [[s["label"], s["kind"]] for s in init["mats"][:init.get("nmats", 3)]]]
        ctx.cls("type:" + init["dtype"])
        ctx.cls("matrices:%d" % len(self.slots))
        if len(set(NS_LABELS[l] for l in init["ns"])) < self.n:
            ctx.cls("namespace_with_repeated_taxon_labels")
        self.check_all("init")

    # -- helpers -----------------------------------------------------------------------------------------------------
    def V(self, cond, clause, detail=""):
        if not cond:
            self.ctx.fail(clause, "C19." + clause, detail() if callable(detail) else detail)

    def slot(self, k):
        return self.slots[k % len(self.slots)]

    def store(self, a, m, rows, subsets):
        """Optionally make a returned matrix one of the matrices of the history."""
        j = a.get("store")
        if j is None:
            return
        m.label = MAT_LABELS[a["label"]]
        s = Slot(m, dict((i, list(r)) for i, r in rows.items()), dict((k, set(v)) for k, v in subsets.items()))
        if j < len(self.slots):
            self.slots[j] = s
        elif len(self.slots) < 3:
            self.slots.append(s)
        else:
            self.slots[j % 3] = s
        self.ctx.cls("result_stored")

    def taxon_args(self, a, unique):
        idx = [i % len(self.taxa) for i in a["taxa"]]     # members and former members alike
        if unique:
            seen = []
            for i in idx:
                if i not in seen:
                    seen.append(i)
            idx = seen
        objs = [self.taxa[i] for i in idx]
        if a["foreign_taxon"]:
            # a Taxon of another namespace carrying the same label as a member
            objs.insert(len(objs) // 2, self.ftaxa[(idx[0] if idx else 0) % self.n])
        return idx, objs

    # -- one step ------------------------------------------------------------------------------------------------------
    def step(self, op, a):
        ctx = self.ctx
        d = self.kit.d
        ctx.cls("op:" + op)
        self.sig.append([op, a])
        before = self.effective
        getattr(self, "op_" + op)(a, d)
        self.check_all(op)
        ctx.cls("steps_checked")
        if self.effective > before:
            ctx.cls("steps_effective")
        if len(self.sig) == 9:
            ctx.sample("history", {"init": self.sig[:3], "ops": self.sig[3:]})

    def finish(self):
        if self.effective >= 3:
            self.ctx.nontrivial(self.sig)

    # -- operations ----------------------------------------------------------------------------------------------------
    def op_concatenate(self, a, d):
        ctx = self.ctx
        sel = [self.slot(k) for k in a["sel"]]
        if a.get("prep"):
            # bring the chosen matrices into concatenate's documented domain with a (checked) pack
            for k in a["sel"]:
                if not self.slot(k).complete_rect(self.members) and not self.slot(k).strays(self.members):
                    self.op_pack({"k": k, "v": a["label"], "size": None, "append": True}, d)
        if not all(s.complete_rect(self.members) for s in sel):
            ctx.cls("concatenate:skipped_incomplete_or_ragged_source")
            return
        args = list(sel)
        fa = a["foreign_at"]
        if fa is not None:
            fa = fa % (len(args) + 1)
            args.insert(fa, self.foreign)
            if len(args) > 3:
                for j in range(len(args) - 1, -1, -1):   # drop the last shared-namespace matrix
                    if args[j] is not self.foreign:
                        del args[j]
                        break
                fa = [j for j, x in enumerate(args) if x is self.foreign][0]
        if sum(len(next(iter(s.rows.values()))) for s in args) > MAX_WIDTH:
            ctx.cls("skipped_row_would_exceed_%d_columns" % MAX_WIDTH)
            return
        mats = [s.m for s in args]
        cells = sum(s.cells() for s in args) + 1
        ids = [id(x) for x in mats]
        if len(set(ids)) < len(ids):
            ctx.cls("concatenate:same_object_repeated")
        labels = [x.label for x in mats]
        low = [l.lower() for l in labels if l is not None]
        if len(set(low)) < len(low):
            ctx.cls("concatenate:equal_labels")
        if None in labels:
            ctx.cls("concatenate:none_label")
        if fa is not None:
            try:
                self.call("concatenate", lambda: self.kit.cls.concatenate(mats), cells, allowed=(ValueError,))
                self.V(False, "concat_refuses_foreign_namespace",
                       "concatenate accepted matrices over two different namespaces (foreign at position %d of %d)" % (
                           fa, len(mats)))
            except ValueError:
                ctx.cls("concatenate:foreign_refused")
                self.effective += 1
            return
        res = self.call("concatenate", lambda: self.kit.cls.concatenate(mats), cells)
        want, subs = check_concatenation(ctx, res, self.kit, self.ns, self.taxa,
                                         [(s.m.label, s.rows) for s in args], "machine", idxs=self.members)
        ctx.cls("concatenate:checked_n=%d" % len(args))
        self.effective += 1
        self.store(a, res, want, subs)

    def op_export_indices(self, a, d):
        s = self.slot(a["k"])
        idx = list(a["idx"])
        res = self.call("export_character_indices", lambda: s.m.export_character_indices(idx), s.cells() + 1)
        self.check_export(s, res, idx, "export_character_indices(%r)" % (idx,))
        self.store_export(a, s, res, idx)

    def store_export(self, a, s, res, idx):
        if s.strays(self.members):
            return      # what a copy does with rows of non-member taxa is not documented: do not build on it
        self.store(a, res, select_columns(s.rows, idx), observe_subsets(res))

    def check_export(self, s, res, idx, what):
        # "columns given by the indices" is asserted for the rows of the namespace's taxa; the matrix model of the
        # library has no documented place for rows of taxa outside the namespace in a copy
        strays = s.strays(self.members)
        want = select_columns(dict((i, r) for i, r in s.rows.items() if i in self.members), idx)
        got = dict((i, r) for i, r in observe(res, self.taxa).items() if i in self.members)
        self.V(res is not s.m, "export_returns_new_matrix", what)
        self.V(type(res) is type(s.m), "export_type", lambda: "%s returned %s" % (what, type(res).__name__))
        self.V(res.taxon_namespace is self.ns, "export_namespace", "%s: result does not reference the same namespace" % what)
        self.V(got == want and (strays or len(res) == len(want)), "export_columns",
               lambda: "%s on %s: got %s (len %d) want %s" % (what, fmt_rows(s.rows), fmt_rows(got), len(res),
                                                              fmt_rows(want)))
        if strays:
            self.ctx.cls("export:source_with_rows_of_non_member_taxa")
        width = max([len(r) for r in s.rows.values()] or [0])
        sel = set(i for i in idx if i < width)
        if s.rows and width:
            self.effective += 1
            self.ctx.cls("export:%s" % ("all_columns" if len(sel) == width else "no_column" if not sel else "proper_subset"))
            if len(set(len(r) for r in s.rows.values())) > 1:
                self.ctx.cls("export:ragged_source")

    def op_export_subset(self, a, d):
        s = self.slot(a["k"])
        by = {"fresh": "built_unused"}.get(a["by"], a["by"])      # "fresh": spelling used by older replay files
        labels = sorted(s.subsets)
        if by in ("label", "label_case", "object", "built_same", "built_case") and not labels:
            # register one first (same clauses as the new_subset rule), so that named exports are not starved
            self.op_new_subset({"k": a["k"], "label": a["which"] % len(SUB_LABELS), "idx": a["idx"]}, d)
            labels = sorted(s.subsets)
        if by == "missing":
            name = "no_such_subset"
            try:
                self.call("export_character_subset", lambda: s.m.export_character_subset(name), s.cells() + 1,
                          allowed=(KeyError,))
                self.V(False, "export_unknown_subset_raises", "export_character_subset(%r) did not raise KeyError" % name)
            except KeyError:
                self.ctx.cls("export_subset:unknown_label_refused")
            return
        CS = d.datamodel.charmatrixmodel.CharacterSubset
        if by.startswith("built_"):
            # a CharacterSubset object made by the caller: exactly ITS indices are exported, whatever its label is
            # (None, unused, or equal - exactly / up to case - to the label of a recorded subset with other indices)
            idx = sorted(set(a["idx"]))
            if by == "built_none":
                label = None
            elif by == "built_unused":
                label = "fresh"
            else:
                label = labels[a["which"] % len(labels)]
                if set(idx) == set(s.subsets[label]):
                    idx = sorted(set(idx) ^ set([0]))      # differ from the recorded subset by construction
                if by == "built_case":
                    label = label.swapcase()
            arg = CS(label=label, character_indices=list(idx))
        else:
            label = labels[a["which"] % len(labels)]
            idx = sorted(s.subsets[label])
            if by == "object":
                arg = s.m.character_subsets[label]
            elif by == "label_case":
                arg = label.swapcase()      # the subset store is an OrderedCaselessDict
            else:
                arg = label
        self.ctx.cls("export_subset:by_" + by)
        res = self.call("export_character_subset", lambda: s.m.export_character_subset(arg), s.cells() + 1)
        self.check_export(s, res, idx, "export_character_subset(<%s> %r)" % (by, idx))
        self.store_export(a, s, res, idx)

    def op_new_subset(self, a, d):
        s = self.slot(a["k"])
        label = SUB_LABELS[a["label"]]
        idx = list(a["idx"])
        exact = label in s.subsets
        caseless = any(k.lower() == label.lower() for k in s.subsets)
        try:
            res = self.call("new_character_subset", lambda: s.m.new_character_subset(label, idx), len(idx) + 1,
                            allowed=(ValueError,))
        except ValueError:
            self.V(caseless, "new_subset_spurious_error",
                   lambda: "new_character_subset(%r) refused although no subset of that label exists (%r)" % (
                       label, sorted(s.subsets)))
            self.ctx.cls("new_subset:duplicate_refused")
            self.effective += 1
            return
        self.V(not exact, "new_subset_duplicate_label_accepted",
               "new_character_subset(%r) accepted although a subset of that label exists" % label)
        if caseless:
            # differs from an existing label only by case: undocumented; adopt what the library recorded
            s.subsets = observe_subsets(s.m)
            return
        self.V(isinstance(res, d.datamodel.charmatrixmodel.CharacterSubset) and res.label == label and set(res.character_indices) == set(idx),
               "new_subset_returned", lambda: "returned %r" % (res,))
        s.subsets[label] = set(idx)
        self.effective += 1

    def pad(self, rows, value, size, append):
        if size is None:
            size = max([len(r) for r in rows.values()] or [0])
        out = {}
        for i, r in rows.items():
            extra = [value] * max(0, size - len(r))
            out[i] = (r + extra) if append else (extra + r)
        return out

    def padding(self, op, a, d, add_missing):
        """fill (add_missing=False) and pack (add_missing=True).

        Both walk the namespace: rows of member taxa are padded (and, for pack, created).  A row whose taxon has left the
        namespace is in a state the documentation does not cover; for it only "existing cells are not altered" is
        asserted (it is either untouched or padded like the others) and the model adopts what happened.  When such a row
        is longer than every member row, "the longest sequence" (size=None) is ambiguous and the call is not made."""
        s = self.slot(a["k"])
        v, sym = self.kit.value(a["v"]), self.kit.symbol(a["v"])
        size, append = a["size"], a["append"]
        rows = dict((i, list(r)) for i, r in s.rows.items())
        if add_missing:
            for i in self.members:
                rows.setdefault(i, [])
        mem = dict((i, r) for i, r in rows.items() if i in self.members)
        strays = s.strays(self.members)
        eff = size if size is not None else max([len(r) for r in mem.values()] or [0])
        if strays and size is None and max(len(rows[i]) for i in strays) > eff:
            self.ctx.cls("skipped:%s_longest_row_belongs_to_non_member_taxon" % op)
            return
        cells = s.cells() + (len(rows) + 1) * (1 + eff) + 1
        if size is None and append:
            self.call(op, lambda: getattr(s.m, op)(v), cells)
        elif op == "pack":
            self.call(op, lambda: s.m.pack(value=v, size=size, append=append), cells)
        else:
            self.call(op, lambda: s.m.fill(v, size=size, append=append), cells)
        new = self.pad(mem, sym, eff, append)
        if strays:
            got = observe(s.m, self.taxa)
            for i in strays:
                alt = self.pad({i: rows[i]}, sym, eff, append)[i]
                self.V(got.get(i) in (rows[i], alt), "padding_keeps_existing_cells",
                       lambda: "%s: row of non-member taxon %d was %r, now %r" % (op, i, rows[i], got.get(i)))
                new[i] = got[i]
            self.ctx.cls("%s:target_with_rows_of_non_member_taxa" % op)
        if new != s.rows:
            self.effective += 1
            self.ctx.cls("%s:changed_%s" % (op, "end" if append else "front"))
        s.rows = new
        if op == "pack" and size is None and not strays:
            self.V(s.complete_rect(self.members), "harness_pack_model")

    def op_fill(self, a, d):
        self.padding("fill", a, d, False)

    def op_pack(self, a, d):
        self.padding("pack", a, d, True)

    def op_fill_taxa(self, a, d):
        s = self.slot(a["k"])
        self.call("fill_taxa", lambda: s.m.fill_taxa(), s.cells() + len(self.taxa))
        for i in self.members:
            if i not in s.rows:
                s.rows[i] = []
                self.effective += 1
                self.ctx.cls("fill_taxa:row_added")

    def binary(self, op, a, d, apply_model, call=None):
        s = self.slot(a["k"])
        if a["foreign"]:
            o = self.foreign
            fn = call(s, o) if call else (lambda: getattr(s.m, op)(o.m))
            try:
                self.call(op, fn, s.cells() + o.cells(), allowed=(ValueError,))
                self.V(False, "refuses_foreign_namespace", "%s accepted a matrix over a different namespace" % op)
            except d.utility.error.TaxonNamespaceIdentityError:
                self.ctx.cls("foreign_refused:" + op)
                self.effective += 1
            except ValueError as e:
                self.V(False, "refuses_foreign_namespace",
                       "%s raised %s instead of the documented TaxonNamespaceIdentityError" % (op, type(e).__name__))
            return
        o = self.slot(a["k"] + a["off"])     # off == 0 (or a single matrix): the matrix is its own argument
        fn = call(s, o) if call else (lambda: getattr(s.m, op)(o.m))
        both = set(s.rows) & set(o.rows)
        only_o = set(o.rows) - set(s.rows)
        only_s = set(s.rows) - set(o.rows)
        self.ctx.cls("%s:%s" % (op, "self_argument" if o is s else
                                "partial_overlap" if both and (only_o or only_s) else
                                "disjoint" if not both else "same_taxa"))
        orows = dict((i, list(r)) for i, r in o.rows.items())
        new = apply_model(dict((i, list(r)) for i, r in s.rows.items()), orows)
        if max([len(r) for r in new.values()] or [0]) > MAX_WIDTH:
            self.ctx.cls("skipped_row_would_exceed_%d_columns" % MAX_WIDTH)
            return
        hang_key = "C19.terminates.%s.self_argument" % op if o is s else None
        self.call(op, fn, 2 * (s.cells() + o.cells()) + 1, hang_key=hang_key)
        if new != s.rows:
            self.effective += 1
        s.rows = new

    def op_add_sequences(self, a, d):
        def model(mine, other):
            for i, r in other.items():
                if i not in mine:
                    mine[i] = r
            return mine
        self.binary("add_sequences", a, d, model)

    def op_replace_sequences(self, a, d):
        def model(mine, other):
            for i, r in other.items():
                if i in mine:
                    mine[i] = r
            return mine
        self.binary("replace_sequences", a, d, model)

    def op_update_sequences(self, a, d):
        def model(mine, other):
            mine.update(other)
            return mine
        self.binary("update_sequences", a, d, model)

    def op_extend_sequences(self, a, d):
        addnew = a["addnew"]

        def model(mine, other):
            for i, r in other.items():
                if i in mine:
                    mine[i] = mine[i] + r
                elif addnew:
                    mine[i] = r
            return mine

        def call(s, o):
            if addnew is None:
                return lambda: s.m.extend_sequences(o.m)
            return lambda: s.m.extend_sequences(o.m, is_add_new_sequences=addnew)
        self.binary("extend_sequences", a, d, model, call)

    def op_extend_matrix(self, a, d):
        def model(mine, other):
            for i, r in other.items():
                mine[i] = (mine[i] + r) if i in mine else r
            return mine
        self.binary("extend_matrix", a, d, model)

    def op_remove_sequences(self, a, d):
        s = self.slot(a["k"])
        idx, objs = self.taxon_args(a, unique=True)
        arg = iter(objs) if a["as_iter"] else objs
        ok = all(i in s.rows for i in idx) and not a["foreign_taxon"]
        try:
            self.call("remove_sequences", lambda: s.m.remove_sequences(arg), s.cells() + len(objs) + 1, allowed=(KeyError,))
        except KeyError:
            self.V(not ok, "remove_spurious_keyerror",
                   lambda: "remove_sequences(taxa %r) raised KeyError although all have sequences (%r)" % (idx, sorted(s.rows)))
            self.ctx.cls("remove:missing_refused")
            # rows that were not named are untouched; named rows are either still there (unchanged) or gone
            got = observe(s.m, self.taxa)
            for i in list(s.rows):
                if i in idx and i not in got:
                    del s.rows[i]
            self.effective += 1
            return
        self.V(ok, "remove_missing_raises",
               lambda: "remove_sequences(taxa %r%s) did not raise KeyError; rows present were %r" % (
                   idx, " + a taxon of another namespace" if a["foreign_taxon"] else "", sorted(s.rows)))
        for i in idx:
            del s.rows[i]
        if idx:
            self.effective += 1
            self.ctx.cls("remove:removed")

    def op_discard_sequences(self, a, d):
        s = self.slot(a["k"])
        idx, objs = self.taxon_args(a, unique=False)
        arg = iter(objs) if a["as_iter"] else objs
        self.call("discard_sequences", lambda: s.m.discard_sequences(arg), s.cells() + len(objs) + 1)
        hit = [i for i in set(idx) if i in s.rows]
        miss = [i for i in set(idx) if i not in s.rows]
        for i in hit:
            del s.rows[i]
        if hit:
            self.effective += 1
            self.ctx.cls("discard:%s" % ("some_absent" if miss or a["foreign_taxon"] else "all_present"))

    def op_keep_sequences(self, a, d):
        s = self.slot(a["k"])
        idx, objs = self.taxon_args(a, unique=False)
        arg = iter(objs) if a["as_iter"] else objs
        self.call("keep_sequences", lambda: s.m.keep_sequences(arg), s.cells() + len(objs) + 1)
        drop = [i for i in s.rows if i not in idx]
        if any(i not in self.members for i in drop):
            self.ctx.cls("keep:dropped_row_of_non_member_taxon")
        labels_kept = set(t.label for t in objs)
        if any(self.taxa[i].label in labels_kept for i in drop):
            self.ctx.cls("keep:dropped_row_shares_label_with_kept_taxon")
        for i in drop:
            del s.rows[i]
        if drop:
            self.effective += 1
            self.ctx.cls("keep:%s" % ("dropped_all" if not s.rows else "dropped_some"))

    def op_set_row(self, a, d):
        # not a clause of C19: keeps histories varied after rows were removed (plain item assignment)
        s = self.slot(a["k"])
        i = self.members[a["t"] % len(self.members)]    # item assignment is only defined for members of the namespace
        s.m[self.taxa[i]] = [self.kit.value(c) for c in a["cells"]]
        s.rows[i] = [self.kit.symbol(c) for c in a["cells"]]

    # -- namespace-level events (not clauses of C19; they create the states the row operations must cope with) ------
    def op_ns_remove(self, a, d):
        if len(self.members) < 2:
            return
        i = self.members[a["t"] % len(self.members)]
        self.ns.remove_taxon(self.taxa[i])
        self.members.remove(i)
        if any(i in s.rows for s in self.slots):
            self.ctx.cls("ns:removed_taxon_that_still_has_rows")

    def op_ns_add_back(self, a, d):
        out = [i for i in range(len(self.taxa)) if i not in self.members]
        if not out:
            return
        i = out[a["t"] % len(out)]
        self.ns.add_taxon(self.taxa[i])
        self.members.append(i)
        if any(i in s.rows for s in self.slots):
            self.ctx.cls("ns:readded_taxon_that_has_rows")

    def op_ns_new(self, a, d):
        if len(self.taxa) >= MAX_KNOWN_TAXA:
            return
        self.taxa.append(self.ns.new_taxon(NS_LABELS[a["l"]]))
        self.members.append(len(self.taxa) - 1)
        self.ctx.cls("ns:new_taxon")

    def op_ns_reorder(self, a, d):
        if a["how"] == "reverse":
            self.ns.reverse()
        else:
            self.ns.sort(reverse=(a["how"] == "sort_reverse"))
        order = [[k for k, t in enumerate(self.taxa) if t is x] for x in self.ns]
        if sorted(k for ks in order for k in ks) != sorted(self.members) or any(len(ks) != 1 for ks in order):
            raise runner.KnownSkip()     # the namespace itself misbehaved: C10's business, nothing to build on here
        order = [ks[0] for ks in order]
        if order != self.members:
            self.ctx.cls("ns:reordered")
        self.members = order

    # -- invariant -----------------------------------------------------------------------------------------------------
    def check_all(self, after):
        self.V(len(self.ns) == len(self.members) and all(x is self.taxa[i] for x, i in zip(self.ns, self.members)),
               "namespace_unchanged",
               lambda: "after %s the shared namespace holds %r" % (after, [t.label for t in self.ns]))
        self.V(len(self.fns) == self.n and all(x is y for x, y in zip(self.fns, self.ftaxa)), "namespace_unchanged",
               lambda: "after %s the foreign namespace holds %r" % (after, [t.label for t in self.fns]))
        for k, s in enumerate(self.slots + [self.foreign]):
            foreign = s is self.foreign
            who = "foreign matrix" if foreign else "matrix %d" % k
            taxa = self.ftaxa if foreign else self.taxa
            members = list(range(self.n)) if foreign else self.members
            self.V(s.m.taxon_namespace is (self.fns if foreign else self.ns), "matrix_namespace_unchanged", who)
            self.V(isinstance(s.m, self.kit.cls), "matrix_type", who)
            # (1) by Taxon, independent of the namespace: membership test + item access for every Taxon ever used,
            #     the row count, and the raw taxon -> sequence store
            got = observe(s.m, taxa)
            raw = {}
            unknown = 0
            for t, seq in s.m._taxon_sequence_map.items():
                ks = [i for i, x in enumerate(taxa) if x is t]
                if ks:
                    raw[ks[0]] = list(seq.symbols_as_list())
                else:
                    unknown += 1
            self.V(got == s.rows and len(s.m) == len(s.rows) and raw == s.rows and not unknown, "rows_match_model",
                   lambda: "after %s, %s (namespace members %r): rows %s (len %d; store %s + %d unknown taxa), "
                           "documented outcome %s" % (after, who, members, fmt_rows(got), len(s.m), fmt_rows(raw),
                                                      unknown, fmt_rows(s.rows)))
            # (2) public iteration shows exactly the rows of the taxa that are members of the namespace
            pub = {}
            dup = False
            for t in s.m:
                ks = [i for i, x in enumerate(taxa) if x is t]
                if not ks or ks[0] in pub:
                    dup = True
                    continue
                pub[ks[0]] = list(s.m[t].symbols_as_list())
            items = dict((i, list(seq.symbols_as_list())) for t, seq in s.m.items()
                         for i, x in enumerate(taxa) if x is t)
            vis = dict((i, r) for i, r in s.rows.items() if i in members)
            self.V(pub == vis and items == vis and not dup, "iteration_matches_model",
                   lambda: "after %s, %s (namespace members %r): iteration gives %s, items() %s, expected %s" % (
                       after, who, members, fmt_rows(pub), fmt_rows(items), fmt_rows(vis)))
            if len(vis) < len(s.rows):
                self.ctx.cls("state:matrix_with_rows_of_non_member_taxa")
            subs = observe_subsets(s.m)
            self.V(subs == s.subsets, "subsets_match_model",
                   lambda: "after %s, %s: subsets %r, expected %r" % (
                       after, who, sorted((k2, sorted(v)) for k2, v in subs.items()),
                       sorted((k2, sorted(v)) for k2, v in s.subsets.items())))


# ---------------------------------------------------------------------------------------------------------------------
# concatenation sub-checks
# ---------------------------------------------------------------------------------------------------------------------
def concat_case(ctx, case):
    """case: {"dtype", "ntaxa", "objs": [{"label": i, "ncols": c, "seed": s}], "pattern": [object index per argument]}"""
    kit = Kit(case["dtype"])
    d = kit.d
    call = Caller(ctx)
    ns = d.TaxonNamespace()
    taxa = [ns.new_taxon("t%d" % i) for i in range(case["ntaxa"])]
    built = []
    for o in case["objs"]:
        rows = {}
        for i in range(case["ntaxa"]):
            cells = o.get("cells")
            if cells is not None:
                rows[i] = list(cells[i][:o["ncols"]])
            else:
                rows[i] = [(o["seed"] * 7 + i * 3 + j * 5 + (i * j) % 4) % 26 for j in range(o["ncols"])]
        m, model = kit.build(ns, taxa, MAT_LABELS[o["label"]] if isinstance(o["label"], int) else o["label"], rows)
        built.append((m, model))
    args = [built[p % len(built)] for p in case["pattern"]]
    mats = [x[0] for x in args]
    before = [(observe(m, taxa), observe_subsets(m), m.label) for m, _ in built]
    cells = sum(len(r) + 1 for _, model in args for r in model.values()) + 1
    res = call("concatenate", lambda: kit.cls.concatenate(mats), cells)
    check_concatenation(ctx, res, kit, ns, taxa, [(m.label, model) for m, model in args], "concatenate")
    after = [(observe(m, taxa), observe_subsets(m), m.label) for m, _ in built]
    ctx.check(before == after and all(b[0] == model for b, (_, model) in zip(after, built)), "concat_arguments_unchanged",
              "C19.concat_arguments_unchanged", lambda: "before %r after %r" % (before, after))
    ctx.check(len(ns) == case["ntaxa"], "namespace_unchanged", "C19.namespace_unchanged", "concatenate grew the namespace")
    # each recorded part, exported, is the corresponding source matrix
    ranges = []
    pos = 0
    for _, model in args:
        ranges.append(list(range(pos, pos + len(model[0]))))
        pos += len(model[0])
    by_range = {}
    for label, cs in res.character_subsets.items():
        by_range.setdefault(tuple(sorted(cs.character_indices)), label)
    for k, (m, model) in enumerate(args):
        label = by_range.get(tuple(ranges[k]))
        if label is None:
            continue  # reported by concat_subsets above
        part = call("export_character_subset", lambda: res.export_character_subset(label), cells)
        got = observe(part, taxa)
        ctx.check(got == model, "concat_part_export", "C19.concat_part_export",
                  lambda: "exporting subset %r of the concatenation gives %s, source %d is %s" % (
                      label, fmt_rows(got), k, fmt_rows(model)))
    labels = [m.label for m in mats]
    low = [l.lower() for l in labels if l is not None]
    ctx.cls("concat:n=%d" % len(mats))
    if len(set(id(m) for m in mats)) < len(mats):
        ctx.cls("concat:same_object_repeated")
    if len(set(low)) < len(low):
        ctx.cls("concat:equal_labels_ignoring_case")
    if len(set(l for l in labels if l is not None)) < len(low):
        ctx.cls("concat:equal_labels_exact")
    if None in labels:
        ctx.cls("concat:none_label")
    if any(len(model[0]) == 0 for _, model in args):
        ctx.cls("concat:zero_width_source")
    ctx.cls("type:" + case["dtype"])
    if len(mats) >= 2:
        ctx.nontrivial(case)
    if len(mats) == 3 and len(case["objs"]) == 2:
        ctx.sample("concat_case", case)


def rgs(n):
    """restricted growth strings of length n: which arguments are the same object"""
    out = [[0]]
    for _ in range(n - 1):
        out = [p + [x] for p in out for x in range(max(p) + 2)]
    return out


def pattern_items(tier):
    items = []
    dims = [(3, [2, 3, 1])] if tier == "quick" else [(3, [2, 3, 1]), (1, [1, 0, 4])]
    for dtype in TYPE_NAMES:
        for ntaxa, widths in dims:
            for n in (1, 2, 3):
                for pat in rgs(n):
                    nobj = max(pat) + 1
                    for labels in itertools.product(range(len(MAT_LABELS)), repeat=nobj):
                        items.append({"dtype": dtype, "ntaxa": ntaxa, "pattern": pat,
                                      "objs": [{"label": labels[k], "ncols": widths[k], "seed": k + 1 + len(items) % 5}
                                               for k in range(nobj)]})
    return items


RANDOM_LABELS = MAT_LABELS + ["a_002", "LOCUS000", "locus000", "b", "x y"]
CONCAT_RANDOM = st.fixed_dictionaries({
    "dtype": st.sampled_from(TYPE_NAMES),
    "ntaxa": st.integers(1, 6),
    "objs": st.lists(st.fixed_dictionaries({
        "label": st.sampled_from(RANDOM_LABELS),
        "ncols": st.integers(0, 8),
        "cells": st.lists(st.lists(CELL, min_size=8, max_size=8), min_size=6, max_size=6),
    }), min_size=1, max_size=4),
    "pattern": st.lists(st.integers(0, 3), min_size=1, max_size=4),
})

STREAM_TYPES = {"dna": "ACGT", "rna": "ACGU", "protein": "ACDEFGHIKLMNPQRSTVWY"}
CONCAT_STREAMS = st.fixed_dictionaries({
    "dtype": st.sampled_from(sorted(STREAM_TYPES)),
    "ntaxa": st.integers(1, 4),
    "mats": st.lists(st.fixed_dictionaries({
        "ncols": st.integers(1, 6),
        "order": st.permutations(list(range(4))),
        "cells": st.lists(st.lists(st.integers(0, 19), min_size=6, max_size=6), min_size=4, max_size=4),
    }), min_size=1, max_size=3),
})


def concat_streams_case(ctx, case):
    """concatenate_from_streams over FASTA texts: rows are matched by taxon label whatever the order inside each file."""
    import dendropy
    cls = getattr(dendropy, TYPES[case["dtype"]][0])
    syms = STREAM_TYPES[case["dtype"]]
    call = Caller(ctx)
    n = case["ntaxa"]
    want = dict((i, []) for i in range(n))
    texts = []
    ranges = []
    pos = 0
    for mspec in case["mats"]:
        lines = []
        order = [i for i in mspec["order"] if i < n]
        for i in order:
            row = [syms[c % len(syms)] for c in mspec["cells"][i][:mspec["ncols"]]]
            lines.append(">t%d\n%s\n" % (i, "".join(row)))
        for i in range(n):
            want[i] = want[i] + [syms[c % len(syms)] for c in mspec["cells"][i][:mspec["ncols"]]]
        texts.append("".join(lines))
        ranges.append(tuple(range(pos, pos + mspec["ncols"])))
        pos += mspec["ncols"]
    cells = sum(len(t) for t in texts) + 1
    streams = [io.StringIO(t) for t in texts]
    res = call("concatenate_from_streams", lambda: cls.concatenate_from_streams(streams, "fasta"), 4 * cells)
    ctx.check(isinstance(res, cls), "concat_type", "C19.concat_type", type(res).__name__)
    got = {}
    for t in res.taxon_namespace:
        if t in res:
            got[t.label] = list(res[t].symbols_as_list())
    want = dict(("t%d" % i, r) for i, r in want.items())
    ctx.check(got == want and len(res) == n, "concat_streams_rows", "C19.concat_streams_rows",
              lambda: "files %r: got %r want %r" % (texts, got, want))
    subs = sorted(tuple(sorted(cs.character_indices)) for cs in res.character_subsets.values())
    ctx.check(subs == sorted(ranges), "concat_streams_subsets", "C19.concat_streams_subsets",
              lambda: "files %r: subsets %r want ranges %r" % (texts, subs, ranges))
    ctx.cls("concat_streams:n=%d" % len(texts))
    if len(texts) >= 2:
        ctx.nontrivial(case)


SUBCHECKS = {
    "machine": stateful.replay(Interp),
    "concat_patterns": concat_case,
    "concat_random": concat_case,
    "concat_streams": concat_streams_case,
}


def run(ctx):
    quick = ctx.tier == "quick"
    runner.run_items(ctx, "concat_patterns", pattern_items(ctx.tier), concat_case)
    runner.run_given(ctx, "concat_random", CONCAT_RANDOM, concat_case, (800 if quick else 24000) // ctx.nshards)
    runner.run_given(ctx, "concat_streams", CONCAT_STREAMS, concat_streams_case, (400 if quick else 4000) // ctx.nshards)
    total = 1400 if quick else 40000
    steps = 30 if quick else 60
    stateful.run_machine(ctx, "machine", Interp, INIT, RULES, total // ctx.nshards, steps)
