"""C04 - tree-to-tree distances equal their split-set definitions and are true metrics.

Oracle: split -> summed edge length maps computed in RefTree (frozensets of taxon labels), never bitmasks."""
import math
import warnings

from hypothesis import strategies as st

from checks.c01_bipartitions import second_tree, spec_of
from lib import runner, shapes
from lib.refmodel import RefTree, all_rooted_trees
from lib.snapshot import snapshot

CONFIG = {
    "shards": {"quick": 8, "thorough": 16},
    "budget_s": {"quick": 120, "thorough": 1500},
    "rule": ("Hypothesis: pairs and triples of trees over one namespace and leaf set (3-10 leaves quick / <= 30 "
             "thorough; polytomies, unifurcations), same rooting flag {True,False,None}; second/third tree = re-drawing "
             "(child permutation, re-seeding for unrooted, unifurcation insertion), NNI neighbour, contraction, or "
             "independent shape; lengths all present (unit/small int/dyadic/float), absent or partially missing; a "
             "history variant interleaves raw subtree moves (remove_child/add_child, which do not refresh encodings) "
             "with default-argument distance calls; a namespace variant uses two namespace objects. Exhaustive part: "
             "all ordered pairs of the 26 (quick) / 236 (thorough) labelled trees on 4 / 5 leaves, both rootings, unit "
             "lengths. Non-trivial = pair differing in >= 1 non-trivial split, triple with 3 distinct topologies, or "
             "history with an edit between two calls; distinct = canonical forms + lengths + recipe."),
    "exhaustive_note": {"quick": "all ordered pairs of labelled trees on 4 leaves x 2 rootings, unit lengths",
                        "thorough": "all ordered pairs of labelled trees on 5 leaves x 2 rootings, unit lengths"},
    "assumptions": ["root edge carries no length", "exact-value clauses only for trees with every non-root length present",
                    "trees with missing lengths are checked for definedness symmetry and value symmetry only",
                    "unrooted trees have >= 3 leaves; every leaf carries a taxon"],
}

TOL = 1e-9
SECOND = {"kind": st.sampled_from(["redraw", "redraw", "nni", "nni", "contract", "independent"]),
          "perm": st.lists(st.integers(0, 5), min_size=1, max_size=8), "reseed": st.integers(0, 50),
          "unif": st.lists(st.integers(0, 60), max_size=2), "edge": st.integers(0, 50), "child": st.integers(0, 5),
          "sib": st.integers(0, 5)}


@st.composite
def second_recipe(draw, n):
    rec = dict((k, draw(v)) for k, v in SECOND.items())
    if rec["kind"] == "independent":
        rec["spec"] = draw(shapes.shapes(min_leaves=n, max_leaves=n, max_arity=4, unifurcations=False))
    rec["lens"] = draw(st.lists(st.integers(0, 32), min_size=4, max_size=12))
    rec["relength"] = draw(st.booleans())
    rec["strip"] = draw(st.one_of(st.just([]), st.just([]), st.just([]), st.lists(st.integers(0, 60), min_size=1, max_size=2)))
    return rec


@st.composite
def pair_cases(draw, max_leaves, k=2, full=False):
    rooted = draw(st.sampled_from([True, False, None]))
    pats = ("unit", "smallint", "dyadic", "float", "dyadic") + (() if full else ("none", "partial"))
    sl = draw(shapes.with_lengths(shapes.shapes(min_leaves=3 if not full else 4, max_leaves=max_leaves, max_arity=4,
                                                unifurcations=True), patterns=pats))
    n = shapes.n_leaves(sl["spec"])
    others = [draw(second_recipe(n)) for _ in range(k - 1)]
    if full:
        for rec in others:
            rec["strip"] = []
            if k == 3 and rec["kind"] in ("redraw", "contract"):
                rec["kind"] = "nni"
    return {"spec": sl["spec"], "lenpat": sl["lenpat"], "rooted": rooted, "others": others,
            # pairs sub-check: some internal nodes / the seed carry taxa of their own (distances speak about leaf taxa)
            "inner": draw(shapes.inner_taxa_picks()),
            # rooted trees only: lengths on the seed edge and on the chain of unifurcations above the first branching
            "root_chain": draw(st.one_of(st.none(), st.none(), st.lists(st.sampled_from([0.0, 0.5, 1.0, 7.0]), min_size=1, max_size=3)))}


@st.composite
def edit_cases(draw, max_leaves):
    c = draw(pair_cases(max_leaves, full=True))
    c["edits"] = draw(st.lists(st.tuples(st.integers(0, 100), st.integers(0, 100)), min_size=1, max_size=4))
    c["edit_kinds"] = draw(st.lists(st.sampled_from(["move", "move", "prune_leaf", "flip_rooting", "reseed", "swap_taxa"]), min_size=4, max_size=4))
    c["followup_updated"] = draw(st.booleans())
    c["first"] = draw(st.integers(0, 9))
    c["root_chain"] = None
    return c


def derive(rt1, rec, rooted, lenpat):
    """Second tree as RefTree (pure model)."""
    rt2 = second_tree(rt1, rec, rooted)
    # give lengths to nodes that have none where the first tree has all lengths present (independent / new nodes)
    if lenpat not in ("none", "partial"):
        lens = rec["lens"]
        for k, i in enumerate(rt2.nodes()):
            if i == rt2.root:
                rt2.length[i] = None
            elif rec["relength"]:
                rt2.length[i] = lens[k % len(lens)] / 8.0
            elif rt2.length[i] is None:
                # nodes created by the recipe: zero-length for re-drawings (inserted unifurcations must not add length)
                rt2.length[i] = 0.0 if rec["kind"] == "redraw" else lens[k % len(lens)] / 8.0
    elif lenpat == "none":
        for i in rt2.nodes():
            rt2.length[i] = None
    for sidx in rec.get("strip", []):
        nodes = [i for i in rt2.nodes() if i != rt2.root]
        rt2.length[nodes[sidx % len(nodes)]] = None
    return rt2


def spec_with_lengths(rt):
    def rec(i):
        t = rt.taxon[i]
        return {"t": int(t[1:]) if t is not None else None, "lab": rt.label[i], "len": rt.length[i],
                "ch": [rec(c) for c in rt.children[i]]}
    return rec(rt.root)


def split_map(rt, rooted):
    m = rt.split_lengths(rooted)
    return m


def oracle(rt1, rt2, rooted):
    m1, m2 = split_map(rt1, rooted), split_map(rt2, rooted)
    k1, k2 = set(m1), set(m2)
    fp = len(k2 - k1)
    fn = len(k1 - k2)
    wrf = 0.0
    eu = 0.0
    for k in k1 | k2:
        a = m1.get(k) or 0.0
        b = m2.get(k) or 0.0
        wrf += abs(a - b)
        eu += (a - b) ** 2
    return {"sd": fp + fn, "fp": fp, "fn": fn, "wrf": wrf, "eu": math.sqrt(eu), "missing": k1 - k2, "scale": sum(abs(x or 0.0) for x in list(m1.values()) + list(m2.values()))}


def close(a, b, scale):
    return abs(a - b) <= TOL * (1.0 + abs(scale))


def bip_key(b, ns, rooted, full):
    labs = frozenset(t.label for t in ns.bitmask_taxa_list(b.leafset_bitmask))
    if rooted:
        return labs
    return frozenset([labs, full - labs])


def compare_all(ctx, t1, t2, rt1, rt2, rooted, values, tag, first=0):
    """All functions against the oracle.  values=False: only structural (split-count) clauses.  `first` rotates the
    order of the calls: the function asked first after an edit is the one that meets whatever the trees still cache."""
    from dendropy.calculate import treecompare as tc
    o = oracle(rt1, rt2, rooted)
    d = lambda: "%s first=%d rooted=%r t1=%s t2=%s" % (tag, first, rooted, rt1.canon(lengths=True), rt2.canon(lengths=True))
    out = {}

    def c_sd():
        sd = ctx.call("C04.symmetric_difference", tc.symmetric_difference, t1, t2)
        ctx.check(sd == o["sd"], "symmetric_difference_is_split_count", "C04.symmetric_difference", lambda: "got %r want %r; %s" % (sd, o["sd"], d()))

    def c_urf():
        urf = ctx.call("C04.unweighted_rf", tc.unweighted_robinson_foulds_distance, t1, t2)
        ctx.check(urf == o["sd"], "unweighted_rf_is_split_count", "C04.unweighted_rf", lambda: "got %r want %r; %s" % (urf, o["sd"], d()))

    def c_fpfn():
        fpn = ctx.call("C04.fpfn", tc.false_positives_and_negatives, t1, t2)
        ctx.check(tuple(fpn) == (o["fp"], o["fn"]), "false_positives_and_negatives", "C04.fpfn",
                  lambda: "got %r want %r; %s" % (fpn, (o["fp"], o["fn"]), d()))

    def c_missing():
        miss = ctx.call("C04.find_missing", tc.find_missing_bipartitions, t1, t2)
        full = rt1.leafset()
        got_missing = set(bip_key(b, t1.taxon_namespace, rooted, full) for b in miss)
        ctx.check(got_missing == o["missing"] and len(miss) == len(o["missing"]), "find_missing_bipartitions", "C04.find_missing",
                  lambda: "got %r want %r; %s" % (sorted(map(repr, got_missing)), sorted(map(repr, o["missing"])), d()))

    def c_alias_sd():
        with warnings.catch_warnings():
            warnings.simplefilter("ignore")
            a = ctx.call("C04.alias_sd", t1.symmetric_difference, t2)
            ctx.check(a == o["sd"], "tree_method_alias_symmetric_difference", "C04.alias_sd", d)

    def c_alias_fpfn():
        with warnings.catch_warnings():
            warnings.simplefilter("ignore")
            fa = ctx.call("C04.alias_fpfn", t1.false_positives_and_negatives, t2)
            ctx.check(tuple(fa) == (o["fp"], o["fn"]), "tree_method_alias_fpfn", "C04.alias_fpfn", d)

    def c_wrf():
        w = ctx.call("C04.wrf", tc.weighted_robinson_foulds_distance, t1, t2)
        ctx.check(close(w, o["wrf"], o["scale"]), "weighted_rf_is_l1_norm", "C04.wrf", lambda: "got %r want %r; %s" % (w, o["wrf"], d()))
        out["w"] = w

    def c_eu():
        e = ctx.call("C04.euclidean", tc.euclidean_distance, t1, t2)
        ctx.check(close(e, o["eu"], o["scale"]), "euclidean_is_l2_norm", "C04.euclidean", lambda: "got %r want %r; %s" % (e, o["eu"], d()))
        out["e"] = e

    def c_alias_rf():
        with warnings.catch_warnings():
            warnings.simplefilter("ignore")
            w2 = ctx.call("C04.alias_rf", t1.robinson_foulds_distance, t2)
            ctx.check(close(w2, o["wrf"], o["scale"]), "tree_method_alias_rf", "C04.alias_rf", d)

    def c_alias_eu():
        with warnings.catch_warnings():
            warnings.simplefilter("ignore")
            e2 = ctx.call("C04.alias_eu", t1.euclidean_distance, t2)
            ctx.check(close(e2, o["eu"], o["scale"]), "tree_method_alias_euclidean", "C04.alias_eu", d)

    clauses = [c_sd, c_urf, c_fpfn, c_missing, c_alias_sd, c_alias_fpfn]
    if values:
        clauses += [c_wrf, c_eu, c_alias_rf, c_alias_eu]
    k = first % len(clauses)
    for c in clauses[k:] + clauses[:k]:
        c()
    return o, out.get("w"), out.get("e")


def defined(fn, a, b):
    try:
        return True, fn(a, b)
    except ValueError as e:
        return False, None


def lengths_present(rt):
    cl = rt.clusters()
    full = cl[rt.root]
    return all(rt.length[i] is not None for i in rt.nodes() if cl[i] != full)


def build_pair(case):
    rooted_flag = case["rooted"]
    rooted = bool(rooted_flag)
    rt1 = RefTree.from_spec(case["spec"])
    n = rt1.n_leaves()
    ns, taxa, bits = shapes.build_namespace(shapes.plain_history(n))
    rts = [rt1]
    for rec in case["others"]:
        rts.append(derive(rt1, rec, rooted, case["lenpat"]))
    root_chain = case.get("root_chain")
    for rt in rts:
        # unrooted trees: no length on the root edge, nor on edges above the first branching (they are 'root edges'
        # once suppressed and belong to no split).  Rooted trees: the root cluster is a cluster like any other, its
        # length is the sum over the chain of edges above the first branching, and cases may put lengths there.
        cl = rt.clusters()
        full = cl[rt.root]
        chain = [j for j in rt.preorder() if cl[j] == full]
        for k, i in enumerate(chain):
            if rooted and root_chain and case["lenpat"] not in ("none",):
                # the same total for every re-drawing of a tree, whatever the number of unifurcations in its chain:
                # all of it on the seed edge or all of it on the first branching node, zero on the rest
                holder = chain[0] if len(root_chain) % 2 else chain[-1]
                rt.length[i] = root_chain[0] if i == holder else 0.0
            else:
                rt.length[i] = None
    trees = [shapes.build_tree(spec_with_lengths(rt), ns, taxa, is_rooted=rooted_flag) for rt in rts]
    return rooted_flag, rooted, rts, trees, ns, taxa


def check_pair(ctx, case):
    from dendropy.calculate import treecompare as tc
    rooted_flag, rooted, rts, trees, ns, taxa = build_pair(case)
    rt1, rt2 = rts[0], rts[1]
    t1, t2 = trees[0], trees[1]
    inner = case.get("inner") or []
    if inner:
        shapes.add_inner_taxa(t1, ns, inner)
        shapes.add_inner_taxa(t2, ns, inner[::-1])
        ctx.cls("pair:taxon_on_internal_node")
    kind = case["others"][0]["kind"]
    values = lengths_present(rt1) and lengths_present(rt2)
    if values:
        # the FIRST distance ever computed on a pair of tree objects may be any of the functions (the call encodes and
        # thereby restructures the trees: unifurcations, basal bifurcation), so each is also asked first on fresh objects
        o0 = oracle(rt1, rt2, rooted)
        for name, fn, want in (("wrf", tc.weighted_robinson_foulds_distance, o0["wrf"]), ("eu", tc.euclidean_distance, o0["eu"]),
                               ("sd", tc.symmetric_difference, o0["sd"])):
            fa = shapes.build_tree(spec_with_lengths(rt1), ns, taxa, is_rooted=rooted_flag)
            fb = shapes.build_tree(spec_with_lengths(rt2), ns, taxa, is_rooted=rooted_flag)
            shapes.add_inner_taxa(fa, ns, inner)
            shapes.add_inner_taxa(fb, ns, inner[::-1])
            v1 = ctx.call("C04.first_call:" + name, fn, fa, fb)
            v2 = ctx.call("C04.first_call:" + name, fn, fa, fb)
            ctx.check(close(v1, want, o0["scale"]) and close(v2, want, o0["scale"]), "first_call_on_fresh_trees", "C04.first_call:" + name,
                      lambda: "%s first call %r, repeated %r, want %r; t1=%s t2=%s rooted=%r" % (name, v1, v2, want, rt1.canon(lengths=True), rt2.canon(lengths=True), rooted_flag))
        o, w, e = compare_all(ctx, t1, t2, rt1, rt2, rooted, True, "pair:" + kind)
        o2, w2, e2 = compare_all(ctx, t2, t1, rt2, rt1, rooted, True, "pair-swapped:" + kind)
        ctx.check(close(w, w2, o["scale"]) and close(e, e2, o["scale"]) and o["sd"] == o2["sd"], "value_symmetry", "C04.symmetry",
                  lambda: "wrf %r/%r eu %r/%r" % (w, w2, e, e2))
        same_topo = o["sd"] == 0
        # a tree compared with itself (the very same object)
        for name, fn in (("sd", tc.symmetric_difference), ("wrf", tc.weighted_robinson_foulds_distance), ("eu", tc.euclidean_distance)):
            v = ctx.call("C04.self_distance:" + name, fn, t1, t1)
            ctx.check(close(v, 0.0, o["scale"]), "distance_to_itself_is_zero", "C04.self_distance:" + name, lambda: "%s(t,t)=%r" % (name, v))
        # encodings made by the caller with the basal bifurcation of an unrooted tree kept (the two basal edges then carry
        # one and the same split): the split COUNTS are those of the split sets all the same
        ca = shapes.build_tree(spec_with_lengths(rt1), ns, taxa, is_rooted=rooted_flag)
        cb_ = shapes.build_tree(spec_with_lengths(rt2), ns, taxa, is_rooted=rooted_flag)
        for t_ in (ca, cb_):
            t_.encode_bipartitions(collapse_unrooted_basal_bifurcation=False)
        sdk = ctx.call("C04.sd_caller_encoded", tc.symmetric_difference, ca, cb_, is_bipartitions_updated=True)
        fpk = ctx.call("C04.fpfn_caller_encoded", tc.false_positives_and_negatives, ca, cb_, is_bipartitions_updated=True)
        ctx.check(sdk == o["sd"] and tuple(fpk) == (o["fp"], o["fn"]), "counts_on_caller_made_encodings", "C04.caller_encoded",
                  lambda: "sd %r want %r, fp/fn %r want %r; rooted=%r t1=%s t2=%s" % (sdk, o["sd"], fpk, (o["fp"], o["fn"]), rooted_flag, rt1.canon(), rt2.canon()))
        # repeat with the (now current) encodings
        w3 = ctx.call("C04.wrf_updated", tc.weighted_robinson_foulds_distance, t1, t2, is_bipartitions_updated=True)
        e3 = ctx.call("C04.eu_updated", tc.euclidean_distance, t1, t2, is_bipartitions_updated=True)
        w4 = ctx.call("C04.wrf_updated", tc.weighted_robinson_foulds_distance, t1, t2, is_bipartitions_updated=True)
        ctx.check(close(w3, o["wrf"], o["scale"]) and close(e3, o["eu"], o["scale"]) and close(w4, o["wrf"], o["scale"]), "repeat_with_current_encoding", "C04.repeat_updated",
                  lambda: "wrf %r then %r want %r; eu %r want %r; t1=%s t2=%s" % (w3, w4, o["wrf"], e3, o["eu"], rt1.canon(lengths=True), rt2.canon(lengths=True)))
        if kind == "redraw" and not case["others"][0]["relength"]:
            sd = tc.symmetric_difference(t1, t2)
            w = tc.weighted_robinson_foulds_distance(t1, t2)
            e = tc.euclidean_distance(t1, t2)
            ctx.check(sd == 0 and close(w, 0.0, o["scale"]) and close(e, 0.0, o["scale"]), "zero_between_redrawings", "C04.zero_redraw",
                      lambda: "sd=%r wrf=%r eu=%r t1=%s t2=%s" % (sd, w, e, rt1.canon(lengths=True), rt2.canon(lengths=True)))
            ctx.cls("redraw_zero_checked")
        nontriv = len(rt1.unrooted_split_set(True) ^ rt2.unrooted_split_set(True)) >= 1 if not rooted else \
            len(rt1.rooted_cluster_set(True) ^ rt2.rooted_cluster_set(True)) >= 1
        if nontriv:
            ctx.nontrivial(["pair", case["spec"], rooted_flag, case["others"]])
        ctx.cls("pair:%s:%s" % (kind, "sd0" if o["sd"] == 0 else "sd>0"))
    else:
        # missing lengths: structural clauses + definedness symmetry + value symmetry when defined
        compare_all(ctx, t1, t2, rt1, rt2, rooted, False, "pair-missing:" + kind)
        for name, fn in (("wrf", tc.weighted_robinson_foulds_distance), ("euclidean", tc.euclidean_distance)):
            d12, v12 = defined(fn, t1, t2)
            d21, v21 = defined(fn, t2, t1)
            ctx.cls("missing_lengths:%s:%s:%s" % (name, "t1_full" if lengths_present(rt1) else "t1_missing", "defined" if d12 else "refused"))
            ctx.check(d12 == d21, "definedness_symmetry", "C04.definedness_symmetry:" + name,
                      lambda: "%s(t1,t2) %s but %s(t2,t1) %s; t1=%s t2=%s" % (
                          name, "defined" if d12 else "refused", name, "defined" if d21 else "refused",
                          rt1.canon(lengths=True), rt2.canon(lengths=True)))
            if d12 and d21:
                ctx.check(close(v12, v21, abs(v12)), "value_symmetry_when_defined", "C04.symmetry_missing:" + name,
                          lambda: "%r vs %r" % (v12, v21))
        ctx.nontrivial(["pair-missing", case["spec"], rooted_flag, case["others"]])
    ctx.sample("pair:" + kind, {"t1": rt1.canon(ordered=True, lengths=True), "t2": rt2.canon(ordered=True, lengths=True),
                                "rooted": rooted_flag})


def check_triple(ctx, case):
    from dendropy.calculate import treecompare as tc
    rooted_flag, rooted, rts, trees, ns, taxa = build_pair(case)
    if not all(lengths_present(rt) for rt in rts):
        ctx.cls("triple:skipped_missing_lengths")
        return
    a, b, c = trees
    vals = {}
    for name, fn in (("sd", tc.symmetric_difference), ("wrf", tc.weighted_robinson_foulds_distance), ("eu", tc.euclidean_distance)):
        ab, bc, ac = fn(a, b), fn(b, c), fn(a, c)
        sc = abs(ab) + abs(bc) + abs(ac)
        ctx.check(ac <= ab + bc + TOL * (1 + sc) and ab <= ac + bc + TOL * (1 + sc) and bc <= ab + ac + TOL * (1 + sc),
                  "triangle_inequality", "C04.triangle:" + name,
                  lambda: "%s: ab=%r bc=%r ac=%r trees=%s" % (name, ab, bc, ac, [rt.canon(lengths=True) for rt in rts]))
        vals[name] = (ab, bc, ac)
    for (x, y, rx, ry) in ((a, b, rts[0], rts[1]), (b, c, rts[1], rts[2]), (a, c, rts[0], rts[2])):
        compare_all(ctx, x, y, rx, ry, rooted, True, "triple")
    topo = set(rt.canon() if rooted else repr(sorted(map(sorted, map(lambda s: sorted(map(sorted, s)), rt.unrooted_split_set())))) for rt in rts)
    if len(topo) == 3:
        ctx.nontrivial(["triple", case["spec"], rooted_flag, case["others"]])
    ctx.cls("triple:distinct_topologies=%d" % len(topo))


def check_edits(ctx, case):
    """Distance calls with default arguments must reflect the current structure after raw edits."""
    from dendropy.calculate import treecompare as tc
    rooted_flag, rooted, rts, trees, ns, taxa = build_pair(case)
    if not all(lengths_present(rt) for rt in rts):
        return
    t1, t2 = trees[0], trees[1]
    rt2 = rts[1]
    # first call populates encodings / edge maps
    compare_all(ctx, t1, t2, rts[0], rt2, rooted, True, "before-edit")
    moved = 0
    kinds = case.get("edit_kinds") or ["move"] * 4
    for step, (xi, yi) in enumerate(case["edits"]):
        kind = kinds[step % len(kinds)]
        cur, problems = snapshot(t1)
        if kind == "move":
            nonroot = [i for i in cur.nodes() if i != cur.root]
            x = nonroot[xi % len(nonroot)]
            sub = set(cur.preorder(x))
            targets = [i for i in cur.internals() if i not in sub and i != cur.parent[x]]
            if not targets:
                continue
            y = targets[yi % len(targets)]
            px = cur.obj[cur.parent[x]]
            px.remove_child(cur.obj[x])
            cur.obj[y].add_child(cur.obj[x])
        elif kind == "reseed":
            # the seed moves to another internal node: on an unrooted tree every split stays, but sits on other edge
            # objects afterwards; on a rooted tree the clusters change
            ints = [i for i in cur.internals() if i != cur.root]
            if not ints:
                continue
            t1.reseed_at(cur.obj[ints[xi % len(ints)]], update_bipartitions=False, suppress_unifurcations=False,
                         collapse_unrooted_basal_bifurcation=False)
            ctx.cls("edits:reseed")
        elif kind == "swap_taxa":
            # two leaves exchange their taxa: nothing is restructured, the splits (and the lengths on them) change
            lv = cur.leaves()
            a_, b_ = cur.obj[lv[xi % len(lv)]], cur.obj[lv[yi % len(lv)]]
            if a_ is b_:
                continue
            a_.taxon, b_.taxon = b_.taxon, a_.taxon
            ctx.cls("edits:swap_taxa")
        elif kind == "prune_leaf":
            # the leaf set changes: both trees lose the same taxon (t2 is rebuilt fresh, t1 is edited in place and
            # still carries whatever it cached while it had the larger leaf set)
            lv = cur.leaves()
            if len(lv) <= (3 if not rooted else 2) + 1:
                continue
            victim = cur.taxon[lv[xi % len(lv)]]
            t1.prune_taxa_with_labels([victim])
            keep = rt2.leafset() - frozenset([victim])
            rt2 = rt2.restrict(keep, suppress=True)
            rt2.length[rt2.root] = None
            t2 = shapes.build_tree(spec_with_lengths(rt2), ns, taxa, is_rooted=t1.is_rooted)
            ctx.cls("edits:prune_leaf")
        else:
            # the rooting state changes on both trees (t2 rebuilt fresh)
            newflag = not bool(t1.is_rooted)
            if not newflag and cur.n_leaves() < 3:
                continue
            t1.is_rooted = newflag
            t2 = shapes.build_tree(spec_with_lengths(rt2), ns, taxa, is_rooted=newflag)
            rooted = newflag
            ctx.cls("edits:flip_rooting")
        moved += 1
        now, problems = snapshot(t1)
        if problems:
            raise runner.HarnessError("edit broke the tree: %r" % problems)
        if not rooted and now.n_leaves() < 3:
            return
        # emptied internal nodes would be taxon-less leaves: stop the history there (outside the domain)
        if any(now.taxon[i] is None for i in now.leaves()):
            return
        if not lengths_present(now) or not lengths_present(rt2):
            return
        # root edges carry no length in the oracle's domain
        ncl = now.clusters()
        for i in now.nodes():
            if ncl[i] == ncl[now.root] and now.length[i] is not None:
                return
        compare_all(ctx, t1, t2, now, rt2, rooted, True, "after-edit-%d:%s" % (moved, kind), first=case.get("first", 0) + step)
        compare_all(ctx, t2, t1, rt2, now, rooted, True, "after-edit-swapped-%d:%s" % (moved, kind))
        if case.get("followup_updated"):
            # encodings are current right after a default-argument call: the same question asked again with
            # is_bipartitions_updated=True must get the same answer (nothing may have been consumed from the caches)
            o = oracle(now, rt2, rooted)
            w = ctx.call("C04.wrf_updated", tc.weighted_robinson_foulds_distance, t1, t2, is_bipartitions_updated=True)
            e = ctx.call("C04.eu_updated", tc.euclidean_distance, t1, t2, is_bipartitions_updated=True)
            sd = ctx.call("C04.sd_updated", tc.symmetric_difference, t1, t2, is_bipartitions_updated=True)
            ctx.check(close(w, o["wrf"], o["scale"]) and close(e, o["eu"], o["scale"]) and sd == o["sd"], "repeat_with_current_encoding",
                      "C04.repeat_updated", lambda: "wrf %r/%r eu %r/%r sd %r/%r t1=%s t2=%s" % (w, o["wrf"], e, o["eu"], sd, o["sd"], now.canon(lengths=True), rt2.canon(lengths=True)))
    if moved:
        ctx.nontrivial(["edits", case["spec"], rooted_flag, case["others"], case["edits"]])
        ctx.cls("edits:%d" % moved)


def check_namespace(ctx, case):
    import dendropy
    from dendropy.calculate import treecompare as tc
    from dendropy.utility.error import TaxonNamespaceIdentityError
    rt1 = RefTree.from_spec(case["spec"])
    n = rt1.n_leaves()
    rooted_flag = case["rooted"]
    nsA, taxaA, _ = shapes.build_namespace(shapes.plain_history(n))
    nsB, taxaB, _ = shapes.build_namespace(shapes.plain_history(n))
    a = shapes.build_tree(case["spec"], nsA, taxaA, is_rooted=rooted_flag)
    b = shapes.build_tree(case["spec"], nsB, taxaB, is_rooted=rooted_flag)
    fns = [("symmetric_difference", tc.symmetric_difference), ("unweighted_rf", tc.unweighted_robinson_foulds_distance),
           ("fpfn", tc.false_positives_and_negatives), ("find_missing", tc.find_missing_bipartitions),
           ("wrf", tc.weighted_robinson_foulds_distance), ("euclidean", tc.euclidean_distance),
           ("robinson_foulds_distance", tc.robinson_foulds_distance)]
    with warnings.catch_warnings():
        warnings.simplefilter("ignore")
        fns += [("alias_sd", lambda x, y: x.symmetric_difference(y)), ("alias_fpfn", lambda x, y: x.false_positives_and_negatives(y)),
                ("alias_rf", lambda x, y: x.robinson_foulds_distance(y)), ("alias_eu", lambda x, y: x.euclidean_distance(y))]
        for name, fn in fns:
            try:
                fn(a, b)
                ok = False
            except TaxonNamespaceIdentityError:
                ok = True
            ctx.check(ok, "different_namespaces_refused", "C04.namespace_refused:" + name, "no TaxonNamespaceIdentityError from %s" % name)
    ctx.nontrivial(["ns", case["spec"], rooted_flag])


_CACHE = {}


def check_exh(ctx, item):
    from dendropy.calculate import treecompare as tc
    n, i, j, rooted = item["n"], item["i"], item["j"], item["rooted"]
    if ("trees", n) not in _CACHE:
        _CACHE[("trees", n)] = list(all_rooted_trees(range(n)))
        _CACHE[("ns", n)] = shapes.build_namespace(shapes.plain_history(n))
    ns, taxa, bits = _CACHE[("ns", n)]
    out = []
    for idx in (i, j):
        spec = shapes.copy_spec(_CACHE[("trees", n)][idx])
        for k, s in enumerate(shapes.spec_nodes(spec)):
            if k:
                s["len"] = 1.0
        out.append((RefTree.from_spec(spec), shapes.build_tree(spec, ns, taxa, is_rooted=rooted)))
    (r1, t1), (r2, t2) = out
    o = oracle(r1, r2, rooted)
    sd = tc.symmetric_difference(t1, t2)
    w = tc.weighted_robinson_foulds_distance(t1, t2)
    fpn = tc.false_positives_and_negatives(t1, t2)
    ctx.check(sd == o["sd"] and tuple(fpn) == (o["fp"], o["fn"]) and close(w, o["wrf"], o["scale"]), "exhaustive_pair_distances", "C04.exhaustive",
              lambda: "rooted=%r %s vs %s: sd %r/%r fpfn %r/%r wrf %r/%r" % (rooted, r1.canon(), r2.canon(), sd, o["sd"], fpn, (o["fp"], o["fn"]), w, o["wrf"]))
    if o["sd"] > 0:
        ctx.nontrivial(["exh", n, i, j, rooted])


SUBCHECKS = {"pairs": check_pair, "triples": check_triple, "edits": check_edits, "namespace": check_namespace,
             "exhaustive": check_exh}


def run(ctx):
    quick = ctx.tier == "quick"
    maxl = 10 if quick else 30
    n = ctx.nshards
    runner.run_given(ctx, "pairs", pair_cases(maxl), check_pair, (2000 if quick else 40000) // n)
    runner.run_given(ctx, "triples", pair_cases(maxl, k=3, full=True), check_triple, (600 if quick else 12000) // n)
    runner.run_given(ctx, "edits", edit_cases(maxl), check_edits, (600 if quick else 12000) // n)
    runner.run_given(ctx, "namespace", pair_cases(6), check_namespace, (80 if quick else 800) // n)
    nl = 4 if quick else 5
    nt = sum(1 for _ in all_rooted_trees(range(nl)))
    items = [{"n": nl, "i": i, "j": j, "rooted": r} for r in (True, False) for i in range(nt) for j in range(nt)]
    runner.run_items(ctx, "exhaustive", items, check_exh)
