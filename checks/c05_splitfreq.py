"""C05 - split frequencies, consensus trees and support annotations are exact.

Oracle: exact frequency table (Fractions) over frozenset splits from RefTree; validity predicate for greedy consensus;
reference statistics."""
import math
import warnings

from hypothesis import strategies as st

from lib import runner, samples, shapes, treechecks
from lib.refmodel import RefTree
from lib.snapshot import snapshot

CONFIG = {
    "shards": {"quick": 8, "thorough": 16},
    "budget_s": {"quick": 150, "thorough": 1800},
    "rule": ("Hypothesis: sample of 1-8 trees (thorough <= 30) over a namespace equal to the leaf set (4-8 taxa, thorough <= "
             "14) built from a base tree by 0-3 NNIs each (so splits recur with varied frequencies) plus independent "
             "trees; common rooting flag {True,False,None}; weights none / ints / dyadic / partly missing; "
             "use_tree_weights both; thresholds = exact frequency values, midpoints between adjacent distinct "
             "frequencies, arbitrary values in (0,1]; summarisation settings (percentages, support labels + decimals, "
             "set_edge_lengths keep/support/mean-length/median-length/mean-age/median-age; node ages on exactly "
             "ultrametric dyadic inputs); target tree = sample member / NNI neighbour / independent tree; routes "
             "TreeArray, TreeList and SplitDistribution. Non-trivial = sample with >= 3 trees, >= 2 distinct topologies "
             "and a threshold separating at least one non-trivial split from another; distinct = (sample, weights, "
             "threshold, settings)."),
    "assumptions": ["every tree's leaves carry exactly the namespace's taxa", "weights are positive dyadic numbers so "
                    "frequencies are exact in binary floating point", "thresholds are never within 1e-9 of a frequency "
                    "unless exactly equal by construction", "n = 1 summaries: sd not compared"],
}

TOL = 1e-9


@st.composite
def cases(draw, max_taxa, max_trees, ultrametric=False):
    s = draw(samples.samples(4, max_taxa, 1, max_trees, weights=True, ultrametric=ultrametric))
    return {"sample": s, "use_w": draw(st.booleans()),
            "thr_kind": draw(st.sampled_from(["exact", "mid", "float", "default", "low", "one"])),
            "thr_sel": draw(st.integers(0, 50)), "thr_f": draw(st.floats(min_value=0.02, max_value=1.0, allow_nan=False)),
            "route": draw(st.sampled_from(["treearray", "treelist", "splitdist"])), "summaries_first": draw(st.booleans()),
            "collapse_prestate": draw(st.one_of(st.none(), st.tuples(st.integers(0, 30), st.integers(0, 30)))), "pooled": draw(st.integers(0, 3)) == 0,
            "target": {"kind": draw(st.sampled_from(["member", "neighbour", "indep"])), "sel": draw(st.integers(0, 50)),
                       "nni": [draw(st.integers(0, 30)), draw(st.integers(0, 3)), draw(st.integers(0, 3))],
                       "spec": draw(shapes.shapes(min_leaves=s["n"], max_leaves=s["n"], max_arity=3))},
            "settings": {"pct": draw(st.booleans()), "label": draw(st.booleans()), "decimals": draw(st.integers(0, 6)),
                         "sel": draw(st.sampled_from([None, "keep", "support", "mean-length", "median-length", "clear"] +
                                                     (["mean-age", "median-age"] if ultrametric else [])))}}


def pick_threshold(case, freqs_nt):
    vals = sorted(set(float(f) for f in freqs_nt if f > 0))  # thresholds live in (0, 1]
    kind = case["thr_kind"]
    if kind == "default" or (not vals and kind in ("exact", "mid")):
        return None
    if kind == "one":
        return 1.0
    if kind == "exact":
        return vals[case["thr_sel"] % len(vals)]
    if kind == "mid":
        pts = [0.0] + vals + [1.0]
        i = case["thr_sel"] % (len(pts) - 1)
        t = (pts[i] + pts[i + 1]) / 2.0
        return t if t > 0 else 0.25
    t = case["thr_f"] if kind == "float" else min(0.5, case["thr_f"])
    # keep away from frequencies unless exactly equal
    for v in vals + [1.0]:
        if v != t and abs(v - t) < 1e-9:
            return None
    return t


def make_collection(case, ns, trees, route, ignore_node_ages=True):
    import dendropy
    use_w = case["use_w"]
    if route == "treearray":
        ta = dendropy.TreeArray(taxon_namespace=ns, use_tree_weights=use_w, ignore_node_ages=ignore_node_ages)
        for k, t in enumerate(trees):
            ta.add_tree(t)
            if k == 0:
                # query and summarise between additions: later answers must not be stale
                ta.split_distribution.split_frequencies
                ta.consensus_tree(support_as_percentages=True, set_support_as_node_label=True, set_edge_lengths="support")
        return ta, ta.split_distribution
    tl = dendropy.TreeList(taxon_namespace=ns)
    for t in trees:
        tl.append(t)
    if route == "treelist":
        return tl, tl.split_distribution(use_tree_weights=use_w, ignore_node_ages=ignore_node_ages)
    sd = dendropy.SplitDistribution(taxon_namespace=ns, use_tree_weights=use_w, ignore_node_ages=ignore_node_ages)
    for k, t in enumerate(trees):
        sd.count_splits_on_tree(t)
        if k == 0:
            sd[1]
            sd.consensus_tree(support_as_percentages=True, set_support_as_node_label=True, set_edge_lengths="support")
    return sd, sd


def check_case(ctx, case):
    import dendropy
    from dendropy.utility import constants
    sample = case["sample"]
    rooted_flag = sample["rooted"]
    rooted = bool(rooted_flag)
    n = sample["n"]
    rts = samples.realise(sample)
    ns, taxa, bits, trees = samples.build(sample, rts)
    route = case["route"]
    ultra = bool(sample.get("ultrametric"))
    if case.get("pooled") and route == "treearray" and len(rts) >= 2:
        # the collection under test is ALSO pooled with a second collection into a third one (and the pool keeps
        # growing): being an argument of a merge must not change what the collection itself reports
        h = (len(rts) + 1) // 2
        others_rts, others = rts[h:], trees[h:]
        rts, trees = rts[:h], trees[:h]
        coll, sd = make_collection(case, ns, trees, route, ignore_node_ages=not ultra)
        other = dendropy.TreeArray(taxon_namespace=ns, use_tree_weights=case["use_w"], ignore_node_ages=not ultra)
        pool = dendropy.TreeArray(taxon_namespace=ns, use_tree_weights=case["use_w"], ignore_node_ages=not ultra)
        pool.update(coll)
        for t in others:
            other.add_tree(t)
        pool.update(other)
        pool.extend(other)
        ctx.cls("collection_also_pooled_elsewhere")
    else:
        coll, sd = make_collection(case, ns, trees, route, ignore_node_ages=not ultra)
    freqs, lens, masks, tot = samples.frequency_table(rts, rooted, use_weights=case["use_w"])
    full = rts[0].leafset()
    fullmask = samples.mask_of(full)
    tag = "route=%s rooted=%r use_w=%r weights=%r trees=%s" % (route, rooted_flag, case["use_w"], [rt.weight for rt in rts],
                                                              [rt.canon() for rt in rts])
    nt = dict((k, f) for k, f in freqs.items() if samples.is_nontrivial(k, n, rooted))
    thr = pick_threshold(case, nt.values())
    thr_eff = constants.GREATER_THAN_HALF if thr is None else thr
    def clause_consensus():
        # ---- clause 2: consensus ------------------------------------------------------------------------
        kw = {} if thr is None else {"min_freq": thr}
        if route == "treearray":
            con = ctx.call("C05.consensus", coll.consensus_tree, **kw)
        elif route == "treelist":
            con = ctx.call("C05.consensus", coll.consensus, use_tree_weights=case["use_w"], **kw)
        else:
            con = ctx.call("C05.consensus", sd.consensus_tree, **kw)
        crt = treechecks.wellformed(ctx, con, "consensus_well_formed", "C05.consensus_wellformed", tag)
        lt = sorted(str(crt.taxon[i]) for i in crt.leaves())
        ctx.check(lt == sorted(full), "consensus_spans_every_taxon_once", "C05.consensus_spans", lambda: "%r; %s" % (lt, tag))
        want_rooting = rooted_flag
        ctx.check(con.is_rooted is want_rooting or (want_rooting is None and not con.is_rooted), "consensus_rooting_state",
                  "C05.consensus_rooting", lambda: "consensus is_rooted=%r inputs %r" % (con.is_rooted, rooted_flag))
        if lt == sorted(full):
            got_keys = samples.tree_keys(crt, rooted)
            eligible = set(k for k, f in nt.items() if float(f) >= thr_eff)
            d = lambda: "threshold=%r consensus=%s got=%s eligible=%s freqs=%s; %s" % (
                thr_eff, crt.canon(), sorted(map(fmt, got_keys)), sorted(map(fmt, eligible)),
                sorted((fmt(k), str(f)) for k, f in nt.items()), tag)
            ctx.check(got_keys <= eligible, "consensus_contains_only_splits_reaching_threshold", "C05.consensus_only", d)
            if thr_eff > 0.5:
                ctx.check(got_keys == eligible, "majority_consensus_contains_all_and_only", "C05.consensus_majority", d)
            else:
                for e in eligible - got_keys:
                    conflicts = [i for i in got_keys if not samples.compatible(e, i, full, rooted)]
                    ctx.check(bool(conflicts), "consensus_maximal", "C05.consensus_maximal", lambda: "excluded %s compatible with all included; %s" % (fmt(e), d()))
                    ctx.check(any(nt[i] >= nt[e] for i in conflicts), "consensus_greedy_by_frequency", "C05.consensus_greedy",
                              lambda: "excluded %s (f=%s) only conflicts with less frequent included splits; %s" % (fmt(e), nt[e], d()))
                ctx.cls("consensus:low_threshold")
            if eligible and (set(nt) - eligible):
                ctx.cls("threshold_separates_splits")
                if len(rts) >= 3 and len(set(rt.canon() for rt in rts)) >= 2:
                    ctx.nontrivial([sample, case["use_w"], thr, route])

        return crt

    def clause_summaries():
        # ---- clause 3: summaries on a target tree ------------------------------------------------------------
        tg = case["target"]
        if tg["kind"] == "member":
            trt = rts[tg["sel"] % len(rts)].copy()
        elif tg["kind"] == "neighbour":
            trt = samples.nni(rts[tg["sel"] % len(rts)], *tg["nni"])
        else:
            trt = RefTree.from_spec(tg["spec"])
            for k, i in enumerate(trt.preorder()):
                trt.length[i] = None if i == trt.root else 0.5 + k / 8.0
        target = shapes.build_tree(samples.spec_of(trt), ns, taxa, is_rooted=rooted_flag)
        st_ = case["settings"]
        predecorated = case["target"]["sel"] % 3 == 0
        if predecorated:
            # a target that already carries (static) annotations of the same names, e.g. read from an annotated source
            # or summarised before against another collection: they must be replaced, not kept
            for nd0 in target.preorder_node_iter():
                nd0.annotations.add_new("support", 0.125)
                nd0.edge.annotations.add_new("length_mean", 123.0)
            ctx.cls("target:predecorated_with_stale_annotations")
        skw = {"support_as_percentages": st_["pct"], "set_support_as_node_label": st_["label"], "support_label_decimals": st_["decimals"]}
        if st_["sel"] is not None:
            skw["set_edge_lengths"] = st_["sel"]
        if not st_["pct"] and not st_["label"] and st_["sel"] is None:
            # all defaults: ask without any option (options given to EARLIER calls must not leak into this one)
            skw = {}
            ctx.cls("summarize:called_without_options")
        if route == "treearray":
            ctx.call("C05.summarize", coll.summarize_splits_on_tree, target, **skw)
        else:
            ctx.call("C05.summarize", sd.summarize_splits_on_tree, target, **skw)
        srt = treechecks.wellformed(ctx, target, "summarized_tree_well_formed", "C05.summarize_wellformed", tag)
        tkeys = {}
        scl = srt.clusters()
        for i in srt.nodes():
            a = scl[i]
            if rooted:
                tkeys[i] = a
            else:
                b = full - a
                tkeys[i] = frozenset([a, b]) if a and b else None
        for i in srt.nodes():
            nd = srt.obj[i]
            k = tkeys[i]
            if k is None:
                continue  # root edge of an unrooted tree
            f = float(freqs.get(k, 0))
            want = f * 100 if st_["pct"] else f
            got = getattr(nd, "support", None)
            ctx.check(got == want, "node_support_is_split_frequency", "C05.support",
                      lambda: "node over %s support %r want %r; %s" % (fmt(k), got, want, tag))
            av = [a.value for a in nd.annotations if a.name == "support"]
            ctx.check(av == [want], "support_annotation_is_split_frequency", "C05.support_annotation",
                      lambda: "node over %s: support annotations %r want [%r] (predecorated=%r); %s" % (fmt(k), av, want, predecorated, tag))
            if st_["label"]:
                wl = "{:.{places}f}".format(want, places=st_["decimals"])
                ctx.check(nd.label == wl, "support_label_text", "C05.support_label", lambda: "label %r want %r" % (nd.label, wl))
            else:
                ctx.check(nd.label is None, "no_support_label_unless_requested", "C05.support_label_unrequested", lambda: "label %r" % (nd.label,))
            vals = lens.get(k)
            if vals and i != srt.root and all(v is not None for v in vals):
                e = nd.edge
                scale = max(abs(v) for v in vals)
                chk = [("length_mean", samples.ref_mean(vals), TOL), ("length_median", samples.ref_median(vals), TOL)]
                am = [a.value for a in e.annotations if a.name == "length_mean"]
                ctx.check(len(am) == 1 and isinstance(am[0], (int, float)) and abs(am[0] - samples.ref_mean(vals)) <= TOL * (1 + scale),
                          "edge_length_mean_annotation", "C05.edge_summary_annotation",
                          lambda: "split %s: length_mean annotations %r want %r (predecorated=%r)" % (fmt(k), am, samples.ref_mean(vals), predecorated))
                for name, wv, tol in chk:
                    gv = getattr(e, name, None)
                    ctx.check(isinstance(gv, (int, float)) and abs(gv - wv) <= tol * (1 + scale), "edge_length_summary", "C05.edge_summary:" + name,
                              lambda: "split %s values %r: %s=%r want %r; %s" % (fmt(k), vals, name, gv, wv, tag))
                gr = getattr(e, "length_range", None)
                ctx.check(gr is not None and tuple(gr) == (min(vals), max(vals)), "edge_length_range", "C05.edge_summary:length_range",
                          lambda: "range %r want %r" % (gr, (min(vals), max(vals))))
                gs = getattr(e, "length_sd", None)
                ctx.check(isinstance(gs, (int, float)) and not isinstance(gs, bool) and (len(vals) == 1 or math.isfinite(gs)) and gs == gs,
                          "edge_length_sd_is_real_number", "C05.edge_summary:sd_real", lambda: "sd=%r for values %r" % (gs, vals))
                if len(vals) >= 2 and isinstance(gs, (int, float)):
                    ws = samples.ref_sample_sd(vals)
                    # one-pass sums of squares lose about n*eps*max(v)^2 of the variance: the allowance for the sd follows
                    # from that (never wider than the old flat allowance)
                    vmax = max(abs(x) for x in vals)
                    sd_tol = min(1e-6 * (1 + scale), 1e-9 * (1 + ws) + 16 * len(vals) * 2.3e-16 * vmax * vmax / max(ws, 1e-300))
                    ctx.check(abs(gs - ws) <= sd_tol, "edge_length_sd", "C05.edge_summary:length_sd",
                              lambda: "sd %r want %r (allowance %r) values %r" % (gs, ws, sd_tol, vals))
                    if vmax > 1000 * max(ws, 1e-300) and ws > 0:
                        ctx.cls("edge_length_sd:spread_small_against_mean")
                if st_["sel"] == "mean-length":
                    ctx.check(abs(e.length - samples.ref_mean(vals)) <= TOL * (1 + scale), "edge_length_set_to_mean", "C05.set_edge_lengths:mean")
                elif st_["sel"] == "median-length":
                    ctx.check(abs(e.length - samples.ref_median(vals)) <= TOL * (1 + scale), "edge_length_set_to_median", "C05.set_edge_lengths:median")
            if st_["sel"] == "support" and i != srt.root:
                ctx.check(nd.edge.length == want, "edge_length_set_to_support", "C05.set_edge_lengths:support")
            if ultra and i != srt.root:
                ages = [ages_of(rt)[k] for rt in rts if k in ages_of(rt)]
                if ages:
                    scale = max(abs(v) for v in ages) if ages else 1.0
                    for name, wv in (("age_mean", samples.ref_mean(ages)), ("age_median", samples.ref_median(ages))):
                        gv = getattr(nd, name, None)
                        ctx.check(isinstance(gv, (int, float)) and abs(gv - wv) <= TOL * (1 + scale), "node_age_summary", "C05.age_summary:" + name,
                                  lambda: "split %s ages %r: %s=%r want %r; %s" % (fmt(k), ages, name, gv, wv, tag))
                    gr = getattr(nd, "age_range", None)
                    ctx.check(gr is not None and abs(gr[0] - min(ages)) <= TOL * (1 + scale) and abs(gr[1] - max(ages)) <= TOL * (1 + scale),
                              "node_age_range", "C05.age_summary:age_range", lambda: "%r vs %r" % (gr, (min(ages), max(ages))))
                    ctx.cls("age_summaries_checked")
        ctx.cls("target:%s" % tg["kind"])
        ctx.cls("settings:%s" % st_["sel"])

        return trt

    # drawn order: summarising a target directly after trees were added - before any other query refreshes the
    # caches - must not be served from summaries computed earlier
    if case.get("summaries_first"):
        trt = clause_summaries()
    # ---- clause 1: frequency of every split, nothing for unused splits ---------------------------
    for k, f in freqs.items():
        got = sd[masks[k]]
        ctx.check(got == float(f), "split_frequency_exact", "C05.frequency",
                  lambda: "split %s mask %s: got %r want %s (=%r); %s" % (sorted(map(sorted, k)) if not rooted else sorted(k), bin(masks[k]), got, f, float(f), tag))
    allowed = set(masks.values()) | {0, fullmask}
    extra = [m for m in sd.split_counts if m not in allowed]
    ctx.check(not extra, "no_frequency_for_unused_splits", "C05.no_extra_splits", lambda: "keys %r; %s" % ([bin(m) for m in extra], tag))
    probe = 0
    for m in range(1, fullmask):
        cand = m if rooted else samples.norm(m, fullmask)
        if cand not in allowed:
            probe = cand
            break
    if probe:
        ctx.check(sd[probe] == 0, "unused_split_has_zero_frequency", "C05.unused_zero", lambda: "mask %s -> %r" % (bin(probe), sd[probe]))
    crt = clause_consensus()
    if not case.get("summaries_first"):
        trt = clause_summaries()

    # ---- clause 4: collapsing weakly supported edges -----------------------------------------------------------
    if trt.all_lengths_present():
        ctarget = shapes.build_tree(samples.spec_of(trt), ns, taxa, is_rooted=rooted_flag)
        pre = case.get("collapse_prestate")
        if pre:
            # the tree to collapse has a past: it was encoded, then two leaves exchanged their taxa (an edit that
            # refreshes nothing); the call must judge the splits the tree has NOW
            ctarget.encode_bipartitions()
            lvs = ctarget.leaf_nodes()
            la, lb = lvs[pre[0] % len(lvs)], lvs[pre[1] % len(lvs)]
            if la is not lb:
                la.taxon, lb.taxon = lb.taxon, la.taxon
                trt, _pr = snapshot(ctarget)
                if _pr:
                    raise runner.HarnessError("taxon swap broke the tree: %r" % (_pr,))
                ctx.cls("collapse:target_encoded_then_taxa_swapped")
        before_paths = dict((trt.taxon[i], trt.dist_to_root(i)) for i in trt.leaves())
        ckw = {} if thr is None else {"min_freq": thr}
        ok_call = True
        try:
            if route == "treearray":
                ctx.call("C05.collapse", coll.collapse_edges_with_less_than_minimum_support, ctarget, _allowed=(ValueError,), **ckw)
            else:
                ctx.call("C05.collapse", sd.collapse_edges_with_less_than_minimum_support, ctarget, _allowed=(ValueError,), **ckw)
        except ValueError as e:
            # documented refusal only when rooting of tree and distribution disagree (cannot happen here: common flag)
            ctx.fail("collapse_refused", "C05.collapse_refused", "%s; %s" % (e, tag))
            ok_call = False
        if ok_call:
            crt2 = treechecks.wellformed(ctx, ctarget, "collapsed_tree_well_formed", "C05.collapse_wellformed", tag)
            # for unrooted trees the encoding done by the call may collapse the basal bifurcation; compare keys
            got_keys = samples.tree_keys(crt2, rooted)
            want_keys = set(k for k in samples.tree_keys(trt, rooted) if float(freqs.get(k, 0)) >= thr_eff)
            ctx.check(got_keys == want_keys, "collapse_removes_exactly_weak_internal_edges", "C05.collapse_exact",
                      lambda: "threshold %r: got %s want %s from %s; %s" % (thr_eff, sorted(map(fmt, got_keys)), sorted(map(fmt, want_keys)), trt.canon(), tag))
            if rooted or len(trt.children[trt.root]) != 2:
                # (the encoding of an unrooted tree with a bifurcating seed re-seats the seed, which changes seed-to-tip
                # distances by design; the clause is asserted where the seed stays put)
                after_paths = dict((crt2.taxon[i], crt2.dist_to_root(i)) for i in crt2.leaves())
                bad = [t for t in before_paths if abs(before_paths[t] - after_paths.get(t, float("nan"))) > TOL * (1 + before_paths[t])]
                ctx.check(not bad, "collapse_keeps_root_to_tip_distances", "C05.collapse_distances",
                          lambda: "taxon %s: %r -> %r; before=%s after=%s" % (bad[0], before_paths[bad[0]], after_paths.get(bad[0]),
                                                                              trt.canon(lengths=True), crt2.canon(lengths=True)))
            else:
                ctx.cls("collapse:unrooted_bifurcating_seed_distance_clause_skipped")

    # ---- clause 5: maximum credibility trees ----------------------------------------------------------------------
    if route in ("treearray", "treelist"):
        ta = coll if route == "treearray" else None
        if ta is None:
            # TreeList's own routes build a TreeArray with default settings (tree weights used)
            ta = dendropy.TreeArray(taxon_namespace=ns)
            ta.add_trees(trees)
        for variant in ("product", "sum"):
            if variant == "product":
                scores, idx = ctx.call("C05.mcc", ta.calculate_log_product_of_split_supports)
                if route == "treearray":
                    best = ctx.call("C05.mcc", ta.maximum_product_of_split_support_tree)
                else:
                    best = ctx.call("C05.mcc", coll.maximum_product_of_split_support_tree)
            else:
                scores, idx = ctx.call("C05.mcc", ta.calculate_sum_of_split_supports)
                if route == "treearray":
                    best = ctx.call("C05.mcc", ta.maximum_sum_of_split_support_tree)
                else:
                    best = ctx.call("C05.mcc", coll.maximum_sum_of_split_support_tree)
            brt = treechecks.wellformed(ctx, best, "mcc_tree_well_formed", "C05.mcc_wellformed", tag)
            if route == "treearray":
                # the returned tree is summarised against the collection (default): every node's support is the
                # frequency of its split
                bcl = brt.clusters()
                for bi in brt.nodes():
                    a = bcl[bi]
                    if rooted:
                        bk = a
                    else:
                        bb = full - a
                        if not a or not bb:
                            continue
                        bk = frozenset([a, bb])
                    wantb = float(freqs.get(bk, 0))
                    gotb = getattr(brt.obj[bi], "support", None)
                    ctx.check(gotb == wantb, "mcc_tree_node_support_is_split_frequency", "C05.mcc_support:" + variant,
                              lambda: "%s tree %s node over %s: support %r want %r; %s" % (variant, brt.canon(), fmt(bk), gotb, wantb, tag))
            mx = max(scores)
            argmax = [j for j, s in enumerate(scores) if s == mx]
            bkeys = samples.tree_keys(brt, rooted)
            ok = any(bkeys == samples.tree_keys(rts[j], rooted) for j in argmax)
            ctx.check(ok, "max_credibility_tree_is_an_argmax_input", "C05.mcc_topology:" + variant,
                      lambda: "%s: returned %s; scores %r; argmax %r; %s" % (variant, brt.canon(), scores, argmax, tag))
    ctx.sample(route, {"trees": [rt.canon(ordered=True, lengths=True) for rt in rts], "weights": [rt.weight for rt in rts],
                       "rooted": rooted_flag, "use_tree_weights": case["use_w"], "threshold": thr,
                       "consensus": crt.canon(), "settings": case["settings"]})


def ages_of(rt):
    """key -> node age for an exactly ultrametric RefTree (heights stored by samples.realise)."""
    if getattr(rt, "_agekeys", None) is None:
        cl = rt.clusters()
        full = cl[rt.root]
        rooted = getattr(rt, "_rooted_for_ages", True)
        out = {}
        for i in rt.nodes():
            a = cl[i]
            out[a] = rt.heights[i]
        rt._agekeys = out
    return rt._agekeys


def fmt(k):
    try:
        first = next(iter(k))
    except StopIteration:
        return "{}"
    if isinstance(first, frozenset):
        return "|".join(sorted(",".join(sorted(s, key=lambda x: int(x[1:]))) for s in k))
    return ",".join(sorted(k, key=lambda x: int(x[1:])))


def check_ultra(ctx, case):
    # node ages are defined for rooted, ultrametric inputs
    case = dict(case)
    s = dict(case["sample"])
    s["rooted"] = True
    case["sample"] = s
    check_case(ctx, case)


# ---------------------------------------------------------------------------------------------------------
# threshold boundary: a split whose frequency EQUALS the threshold is in, one a hair below it is out
# ---------------------------------------------------------------------------------------------------------
def boundary_items(tier):
    """(count, total) pairs with count/total > 1/2, taken where float arithmetic is treacherous: pairs for which
    (c/T)*T, c/T*100/100 or T*(c/T) do not give back c, plus control pairs; unit weights (c of T trees) for integer
    pairs up to T=39 and dyadic weights (two trees) for quarter-valued pairs."""
    import math
    pairs = []
    for T4 in range(4, 80):
        for c4 in range(T4 // 2 + 1, T4 + 1):
            c, T = c4 / 4.0, T4 / 4.0
            f = c / T
            odd = (f * T != c) or (math.fsum([f] * 1) * T > c) or ((1.0 - f) + f != 1.0)
            pairs.append((c, T, odd))
    odd = [(c, T) for c, T, o in pairs if o]
    even = [(c, T) for c, T, o in pairs if not o]
    sel = odd + even[::(7 if tier == "quick" else 2)]
    unit = [(c, n) for n in range(2, 40) for c in range(n // 2 + 1, n + 1) if (c / n) * n != c or n in (3, 7, 25)]
    items = []
    k = 0
    for (c, T) in sel:
        for above in (False, True):
            items.append({"c": c, "T": T, "unit": False, "rooted": [True, False, None][k % 3], "route": ["treearray", "treelist", "splitdist"][(k // 3) % 3],
                          "above": above})
            k += 1
    for (c, n) in unit:
        for above in (False, True):
            items.append({"c": c, "T": n, "unit": True, "rooted": [True, False][k % 2], "route": ["treearray", "treelist", "splitdist"][k % 3], "above": above})
            k += 1
    if tier == "quick":
        items = items[::3]
    return items


def check_boundary(ctx, case):
    import dendropy, math
    rooted_flag = case["rooted"]
    rooted = bool(rooted_flag)
    c, T = case["c"], case["T"]
    ns, taxa, bits = shapes.build_namespace(shapes.plain_history(5))
    L = lambda t: {"t": t, "lab": None, "len": 1.0, "ch": []}
    N = lambda ch: {"t": None, "lab": None, "len": 1.0, "ch": ch}
    specA = {"t": None, "lab": None, "len": None, "ch": [N([L(0), L(1)]), L(2), N([L(3), L(4)])]}     # has {T0,T1}
    specB = {"t": None, "lab": None, "len": None, "ch": [N([L(0), L(2)]), L(1), N([L(3), L(4)])]}     # has {T0,T2} instead
    trees = []
    if case["unit"]:
        for i in range(int(T)):
            trees.append(shapes.build_tree(specA if i < int(c) else specB, ns, taxa, is_rooted=rooted_flag))
        use_w = False
    else:
        ta_ = shapes.build_tree(specA, ns, taxa, is_rooted=rooted_flag)
        ta_.weight = c
        trees.append(ta_)
        if T - c > 0:
            tb_ = shapes.build_tree(specB, ns, taxa, is_rooted=rooted_flag)
            tb_.weight = T - c
            trees.append(tb_)
        use_w = True
    route = case["route"]
    coll, sd = make_collection({"use_w": use_w}, ns, trees, route)
    rtA = RefTree.from_spec(specA)
    keyA = [k for k in samples.tree_keys(rtA, rooted) if (frozenset(["T0", "T1"]) == k or (isinstance(next(iter(k)), frozenset) and frozenset(["T0", "T1"]) in k))]
    if len(keyA) != 1:
        raise runner.HarnessError("boundary: split {T0,T1} not found among %r" % (list(map(fmt, samples.tree_keys(rtA, rooted))),))
    keyA = keyA[0]
    reported = sd[samples.mask_of(frozenset(["T0", "T1"])) if rooted else samples.norm(samples.mask_of(frozenset(["T0", "T1"])), samples.mask_of(rtA.leafset()))]
    ctx.check(abs(reported - c / T) <= 1e-12, "boundary_frequency", "C05.boundary_frequency", lambda: "reported %r want %r (c=%r T=%r)" % (reported, c / T, c, T))
    thr = reported if not case["above"] else math.nextafter(reported, 2.0)
    if thr > 1.0:
        return
    tag = "c=%r T=%r unit=%r rooted=%r route=%s threshold=%r (%s the reported frequency %r)" % (
        c, T, case["unit"], rooted_flag, route, thr, "one ulp above" if case["above"] else "equal to", reported)
    if route == "treearray":
        con = ctx.call("C05.boundary_consensus", coll.consensus_tree, min_freq=thr)
    elif route == "treelist":
        con = ctx.call("C05.boundary_consensus", coll.consensus, min_freq=thr, use_tree_weights=use_w)
    else:
        con = ctx.call("C05.boundary_consensus", sd.consensus_tree, min_freq=thr)
    crt = treechecks.wellformed(ctx, con, "consensus_well_formed", "C05.boundary_wellformed", tag)
    got = samples.tree_keys(crt, rooted)
    if case["above"] and reported < 1.0:
        ctx.check(keyA not in got, "split_below_threshold_excluded", "C05.boundary_excluded", lambda: "%s consensus=%s" % (tag, crt.canon()))
    else:
        ctx.check(keyA in got, "split_reaching_threshold_included", "C05.boundary_included", lambda: "%s consensus=%s" % (tag, crt.canon()))
    ctx.cls("boundary:%s:%s" % ("unit_weights" if case["unit"] else "two_weighted_trees", "above" if case["above"] else "equal"))
    if (c / T) * T != c:
        ctx.cls("boundary:product_does_not_give_back_count")
    ctx.nontrivial(["boundary", c, T, case["unit"], rooted_flag, route, case["above"]])


SUBCHECKS = {"random": check_case, "ultrametric": check_ultra, "boundary": check_boundary}


def run(ctx):
    quick = ctx.tier == "quick"
    n = ctx.nshards
    runner.run_given(ctx, "random", cases(8 if quick else 14, 8 if quick else 30), check_case, (4000 if quick else 24000) // n)
    runner.run_given(ctx, "ultrametric", cases(7 if quick else 10, 6 if quick else 16, ultrametric=True), check_ultra,
                     (800 if quick else 6000) // n)
    runner.run_items(ctx, "boundary", boundary_items(ctx.tier), check_boundary)
